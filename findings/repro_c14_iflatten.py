"""FlattenComponentsIFilter.filter returned the verdict of the LAST master only
(`flattened = _flattenGlyphComponents(...)` inside the loop over masters): a glyph
flattened in an earlier master but already flat in the last one was changed and
not reported.  Prints UNDER-REPORTED before the fix: commit, ok after it.
Run: /venv/bin/python /verif/findings/repro_c14_iflatten.py"""
import warnings
warnings.filterwarnings("ignore")
import ufoLib2
from ufo2ft.filters.flattenComponents import FlattenComponentsIFilter
from ufo2ft.util import _GlyphSet


def master(nested):
    f = ufoLib2.Font()
    a = f.newGlyph("a")
    pen = a.getPen(); pen.moveTo((0, 0)); pen.lineTo((10, 0)); pen.lineTo((10, 10)); pen.closePath()
    f.newGlyph("b").getPointPen().addComponent("a", (1, 0, 0, 1, 5, 0))
    f.newGlyph("c").getPointPen().addComponent("b" if nested else "a", (1, 0, 0, 1, 0, 7))
    return f


def snap(gs):
    return [{n: [(k.baseGlyph, tuple(k.transformation)) for k in g[n].components] for n in g.keys()} for g in gs]


fonts = [master(True), master(False)]
gs = [_GlyphSet.from_layer(m, copy=True) for m in fonts]
before = snap(gs)
modified = FlattenComponentsIFilter()(fonts, gs)
after = snap(gs)
changed = sorted({n for b, a in zip(before, after) for n in b if b[n] != a[n]})
print("changed:", changed, "reported:", sorted(modified))
print("UNDER-REPORTED" if set(changed) - set(modified) else "ok")
