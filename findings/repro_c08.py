"""History dependence (property C08): compile the same in-memory source twice and
compare the fonts.  Run: SOURCE_DATE_EPOCH=0 /venv/bin/python findings/repro_c08.py"""
import io, os, hashlib
os.environ.setdefault("SOURCE_DATE_EPOCH", "0")
import ufoLib2
from ufo2ft import compileTTF, compileOTF

TESTS = "/repo/tests/data"


def digest(font):
    b = io.BytesIO()
    font.save(b)
    return hashlib.sha256(b.getvalue()).hexdigest()[:16]


def twice(name, load, compile_, **kw):
    ufo = load()
    try:
        a = compile_(ufo, **kw)
        da = digest(a)
    except Exception as e:
        print(f"{name}: first compile failed {type(e).__name__}: {e}")
        return
    try:
        b = compile_(ufo, **kw)
        db = digest(b)
    except Exception as e:
        print(f"{name}: SECOND compile raised {type(e).__name__}: {e}")
        return
    extra = ""
    if "MATH" in a and "MATH" in b:
        extra = f" MinConnectorOverlap {a['MATH'].table.MathVariants.MinConnectorOverlap} -> {b['MATH'].table.MathVariants.MinConnectorOverlap}"
    print(f"{name}: first={da} second={db} {'SAME' if da == db else 'DIFFERENT'}{extra}")


twice("MATH TestMathFont TTF", lambda: ufoLib2.Font.open(f"{TESTS}/TestMathFont-Regular.ufo"), compileTTF)
twice("ColorTest TTF (explode filter)", lambda: ufoLib2.Font.open(f"{TESTS}/ColorTest.ufo"), compileTTF)
twice("ColorTestRaw TTF", lambda: ufoLib2.Font.open(f"{TESTS}/ColorTestRaw.ufo"), compileTTF)
twice("DottedCircleTest TTF", lambda: ufoLib2.Font.open(f"{TESTS}/DottedCircleTest.ufo"), compileTTF)
twice("DottedCircleTest OTF", lambda: ufoLib2.Font.open(f"{TESTS}/DottedCircleTest.ufo"), compileOTF)

from ufo2ft.filters.dottedCircle import DottedCircleFilter


def dc1():
    f = ufoLib2.Font.open(f"{TESTS}/DottedCircleTest.ufo")
    f.lib["public.openTypeCategories"] = {"a": "base"}
    return f


def dc2():
    f = ufoLib2.Font.open(f"{TESTS}/DottedCircleTest.ufo")
    f.features.text = "table GDEF { GlyphClassDef [a], , [acutecomb], ; } GDEF;\n" + (f.features.text or "")
    return f


twice("DottedCircle + openTypeCategories", dc1, compileTTF, filters=[DottedCircleFilter(pre=True)])
twice("DottedCircle + GDEF in features", dc2, compileTTF, filters=[DottedCircleFilter(pre=True)])
twice("DottedCircle(post) + GDEF in features", dc2, compileOTF, filters=[DottedCircleFilter()])
twice("DottedCircle(post) + openTypeCategories", dc1, compileOTF, filters=[DottedCircleFilter()])
