"""Reproduces the C14 defects on the real code (documentation of fixes / findings)."""
import sys, warnings
warnings.filterwarnings("ignore")
sys.path.insert(0, "/repo/Lib")
import ufoLib2
from ufo2ft.filters.skipExportGlyphs import SkipExportGlyphsFilter, SkipExportGlyphsIFilter
from ufo2ft.filters.explodeColorLayerGlyphs import ExplodeColorLayerGlyphsFilter
from ufo2ft.util import _GlyphSet
T = "/repo/tests/data/"
f = ufoLib2.Font.open(T + "TestFont.ufo")
for cls, arg in ((SkipExportGlyphsFilter, f), (SkipExportGlyphsIFilter, [f])):
    flt = cls([])
    try:
        print(cls.__name__, "fresh object, empty list ->", flt(arg))
    except Exception as e:
        print(cls.__name__, "fresh object, empty list ->", type(e).__name__, e)
flt = SkipExportGlyphsFilter(["a"])
gs = _GlyphSet.from_layer(f, copy=True)
first = flt(f, gs)
flt.options.skipExportGlyphs = frozenset()
second = flt(f, _GlyphSet.from_layer(f, copy=True))
print("reused object: second call (nothing to skip) returns", second, "- same object as first result:", second is first)
c = ufoLib2.Font.open(T + "ColorTest.ufo")
gs = _GlyphSet.from_layer(c, copy=True)
before = set(gs)
ret = ExplodeColorLayerGlyphsFilter()(c, gs)
print("explode: added glyphs", sorted(set(gs) - before), "reported", sorted(ret))
