"""Reproduces, against the real ufo2ft code, the genuine C07/C08/C14 defects that the
static checks report (run from anywhere: /venv/bin/python /verif/findings/repro_c07.py).
Not part of any registered check: documentation of the known findings only."""
import copy, io, sys, warnings
warnings.filterwarnings("ignore")
sys.path.insert(0, "/repo/Lib")
import ufoLib2
import ufo2ft

T = "/repo/tests/data/"

def snap(font):
    return (copy.deepcopy(dict(font.lib)), font.features.text,
            {l.name: {g.name: (list(g.unicodes), [(c.baseGlyph) for c in g.components], len(g.contours)) for g in l} for l in font.layers})

def diff(a, b):
    out = []
    if a[0] != b[0]:
        out.append("font.lib changed: keys added %s" % sorted(set(b[0]) - set(a[0])) + "; changed %s" % sorted(k for k in a[0] if k in b[0] and a[0][k] != b[0][k]))
    if a[1] != b[1]:
        out.append("features.text changed")
    for ln in a[2]:
        ch = [g for g in a[2][ln] if a[2][ln][g] != b[2][ln].get(g)]
        if ch:
            out.append(f"layer {ln}: glyphs changed {ch[:4]}")
    return out

print("== MATH constants popped from the caller's lib (fixed by the fix: commit; prints nothing after it)")
f = ufoLib2.Font.open(T + "TestMathFont-Regular.ufo")
s0 = snap(f); ufo2ft.compileTTF(f); print(diff(s0, snap(f)))

print("== ExplodeColorLayerGlyphsFilter writes the font (known finding)")
f = ufoLib2.Font.open(T + "ColorTest.ufo")
s0 = snap(f); ufo2ft.compileTTF(f); print(diff(s0, snap(f)))
try:
    ufo2ft.compileTTF(f); print("second compile ok")
except Exception as e:
    print("second compile of the same object:", type(e).__name__, e)

print("== DottedCircleFilter.ensure_base writes lib / features of the font (known finding)")
from ufo2ft.filters.dottedCircle import DottedCircleFilter
f = ufoLib2.Font.open(T + "DottedCircleTest.ufo")
f.lib["public.openTypeCategories"] = {"a": "base"}
s0 = snap(f); ufo2ft.compileTTF(f, filters=[DottedCircleFilter(pre=True)]); print(diff(s0, snap(f)))
f = ufoLib2.Font.open(T + "DottedCircleTest.ufo")
f.features.text = "table GDEF { GlyphClassDef [a], , [acutecomb], ; } GDEF;\n" + (f.features.text or "")
s0 = snap(f)
try:
    ufo2ft.compileTTF(f, filters=[DottedCircleFilter(pre=True)])
except Exception as e:
    print("(compile raised", type(e).__name__, ")")
print(diff(s0, snap(f)))
