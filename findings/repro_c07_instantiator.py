import sys, warnings, copy
warnings.filterwarnings("ignore")
sys.path.insert(0, sys.argv[1] if len(sys.argv)>1 else "/repo/Lib")
import ufoLib2, ufo2ft
from fontTools.designspaceLib import DesignSpaceDocument
T="/repo/tests/data/"
ds = DesignSpaceDocument.fromfile(T+"NestedComponents.designspace")
ds.loadSourceFonts(ufoLib2.Font.open)
for s in ds.sources:
    f=s.font
    print(s.filename, {g.name:(len(g.contours), [c.baseGlyph for c in g.components], [a.name for a in g.anchors]) for g in f})
    break
# make glyph 'c' mixed: give it a contour in every master; add anchors to 'a'
for s in ds.sources:
    f=s.font
    f["a"].appendAnchor({"name":"top","x":100,"y":500})
    for layer in f.layers:
        if "c" in layer:
            g=layer["c"]
            if len(g.contours)==0:
                p=g.getPen(); p.moveTo((0,0)); p.lineTo((10,0)); p.lineTo((10,10)); p.closePath()
    f.lib["com.github.googlei18n.ufo2ft.filters"]=[{"name":"propagateAnchors","pre":True}]
before={s.filename:{g.name:[(a.name,a.x,a.y) for a in g.anchors] for g in s.font} for s in ds.sources}
out=ufo2ft.compileInterpolatableTTFsFromDS(ds)
after={s.filename:{g.name:[(a.name,a.x,a.y) for a in g.anchors] for g in s.font} for s in ds.sources}
for fn in before:
    for gn in before[fn]:
        if before[fn][gn]!=after[fn][gn]:
            print("SOURCE MUTATED", fn, gn, before[fn][gn], "->", after[fn][gn])
print("done")
