"""C20 known finding: kern registers code-point-derived scripts explicitly, mark/curs rely on languagesystem."""
import sys, warnings
warnings.filterwarnings("ignore")
sys.path.insert(0, "/repo/Lib")
import ufoLib2, ufo2ft
f = ufoLib2.Font()
f.info.unitsPerEm = 1000
for name, uni, w in (("A", 0x41, 600), ("V", 0x56, 600), ("acutecomb", 0x301, 0)):
    g = f.newGlyph(name); g.unicodes = [uni]; g.width = w
    p = g.getPen(); p.moveTo((0, 0)); p.lineTo((100, 0)); p.lineTo((100, 100)); p.closePath()
f["A"].appendAnchor({"name": "top", "x": 300, "y": 700})
f["V"].appendAnchor({"name": "top", "x": 300, "y": 700})
f["acutecomb"].appendAnchor({"name": "_top", "x": 0, "y": 600})
f.kerning[("A", "V")] = -50
ttf = ufo2ft.compileTTF(f)
gpos = ttf["GPOS"].table
feats = gpos.FeatureList.FeatureRecord
for sr in gpos.ScriptList.ScriptRecord:
    tags = sorted({feats[i].FeatureTag for i in sr.Script.DefaultLangSys.FeatureIndex})
    print(sr.ScriptTag, tags)
