"""C11: production names collided with un-renamed generated glyphs in variable builds (fixed by f6ec7ac).
Before the fix the variable builds print ['.notdef', '.notdef', 'b']; after it .notdef.1. Run: /venv/bin/python /verif/findings/repro_c11.py"""
import warnings; warnings.filterwarnings("ignore")
import ufoLib2, io
from ufo2ft import compileTTF, compileOTF
from fontTools.ttLib import TTFont
def mk():
    f = ufoLib2.Font()
    f.info.unitsPerEm=1000; f.info.ascender=800; f.info.descender=-200; f.info.familyName="T"; f.info.styleName="R"
    for n,u in (("a",0x61),("b",0x62)):
        g=f.newGlyph(n); g.unicode=u; g.width=500
        p=g.getPen(); p.moveTo((0,0)); p.lineTo((100,0)); p.lineTo((100,100)); p.closePath()
    return f
f=mk(); f.lib["public.postscriptNames"]={"a": ".notdef"}
for comp in (compileTTF, compileOTF):
    t=comp(f, useProductionNames=True)
    b=io.BytesIO(); 
    try:
        t.save(b); b.seek(0); r=TTFont(b); print(comp.__name__, t.getGlyphOrder(), '-> reloaded', r.getGlyphOrder())
    except Exception as e:
        print(comp.__name__, t.getGlyphOrder(), "save failed", type(e).__name__, e)
from fontTools.designspaceLib import DesignSpaceDocument, AxisDescriptor, SourceDescriptor
from ufo2ft import compileVariableTTF, compileVariableCFF2
def ds():
    d=DesignSpaceDocument()
    a=AxisDescriptor(); a.name="Weight"; a.tag="wght"; a.minimum=400; a.default=400; a.maximum=700; d.addAxis(a)
    for w in (400,700):
        f=mk(); f.info.styleName=str(w)
        f.lib["public.postscriptNames"]={"a": ".notdef"}
        s=SourceDescriptor(); s.font=f; s.location={"Weight":w}; s.name=f"m{w}"; d.addSource(s)
    return d
for comp in (compileVariableTTF, compileVariableCFF2):
    t=comp(ds(), useProductionNames=True)
    b=io.BytesIO()
    try:
        t.save(b); b.seek(0); r=TTFont(b); print(comp.__name__, t.getGlyphOrder(), '-> reloaded', r.getGlyphOrder())
    except Exception as e:
        print(comp.__name__, t.getGlyphOrder(), "save failed", type(e).__name__, e)
