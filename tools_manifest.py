#!/venv/bin/python
"""Regenerates MANIFEST.json from the table below (kept in one place so that the
manifest, the CLI and DESIGN.md cannot drift)."""
import json, os, sys
HERE = os.path.dirname(os.path.abspath(__file__))
sys.path.insert(0, HERE)
from vt.manifest_data import CHECKS, NOT_APPLICABLE, NOTES

def main():
    checks = []
    for pid, d in CHECKS.items():
        checks.append({
            "property_id": pid,
            "quick_cmd": f"/venv/bin/python -m vt {pid} --tier quick",
            "thorough_cmd": f"/venv/bin/python -m vt {pid} --tier thorough",
            "evidence_file": f"/verif/evidence/{pid}.json",
            "replay_cmd_template": f"/venv/bin/python -m vt {pid} --tier quick --replay {{path}}",
            "engine": "vt",
            "level_claimed": {"category": "other", "text": d["text"], "design_ref": d["design_ref"]},
            "level_note": d["note"],
            "technique": d["technique"],
        })
    man = {
        "version": 1,
        "setup_cmd": "/venv/bin/python -m compileall -q vt",
        "hooks": {
            "guard": "GOOGLEFONTS_UFO2FT_VERIF",
            "enable": "none needed: the checks are static (they parse /repo/Lib/ufo2ft and never import it); no hook commits exist",
            "baseline_off_cmd": "cd /repo && /venv/bin/python -m pytest -ra -q -p no:cacheprovider --timeout=900 --continue-on-collection-errors",
            "source_commits": [],
            "add_only": True,
        },
        "engines": [{
            "name": "vt",
            "path": "/verif/vt",
            "serves_properties": sorted(CHECKS),
            "kind_free_text": "repository-specific static analyser (pure-stdlib ast): program index + resolver, per-function CFG with dominators / control dependence / reaching definitions, ownership-effect analysis, set-order analysis, value-flow sanitiser rules, sibling/table/signature agreement rules; thorough tier self-validates every rule against AST-level breaking and equivalent edits of the current tree",
        }],
        "checks": checks,
        "notes": NOTES,
        "not_applicable": [{"property_id": k, "reason": v} for k, v in NOT_APPLICABLE.items()],
    }
    with open(os.path.join(HERE, "MANIFEST.json"), "w") as f:
        json.dump(man, f, indent=1)
    print("wrote MANIFEST.json:", len(checks), "checks,", len(NOT_APPLICABLE), "not applicable")

main()
