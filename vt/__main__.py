"""CLI:  /venv/bin/python -m vt <Cxx|all> [--tier quick|thorough] [--replay PATH]

exit 0  property held on everything analysed (or only listed known findings)
exit 1  unlisted violation (a line `VIOLATION property=<id> replay=<path>` is printed)
exit 2  analysis broken (`ANALYSIS-ERROR ...`), including a crash of the checker
"""

from __future__ import annotations

import argparse
import importlib
import json
import os
import sys
import traceback

from .core.index import AnalysisError
from .core.program import Program
from .core.report import Check

PROPS = ["C01", "C02", "C03", "C04", "C05", "C06", "C07", "C08", "C09", "C10", "C11", "C12", "C13",
         "C14", "C15", "C16", "C17", "C18", "C19", "C20"]


def run_property(prop: str, tier: str, prog: Program = None, write: bool = True, quiet: bool = False):
    """Returns (exit_code, Check)."""
    chk = Check(prop, tier)
    try:
        if prog is None:
            prog = Program()
        mod = importlib.import_module(f"vt.rules.{prop.lower()}")
        mod.run(prog, chk)
        chk.extra["call_resolution"] = dict(prog.stats)
        chk.extra["analysed"] = {
            "repo": prog.ix.root,
            "modules": len(prog.ix.modules),
            "classes": len(prog.ix.classes),
            "functions": len(prog.ix.functions),
        }
    except AnalysisError as e:
        chk.error(str(e))
    except Exception as e:  # a crash of the checker is never a violation
        chk.error(f"checker crashed: {type(e).__name__}: {e}")
        if not quiet:
            traceback.print_exc()
    return chk


def main(argv=None) -> int:
    ap = argparse.ArgumentParser(prog="vt")
    ap.add_argument("prop")
    ap.add_argument("--tier", default=os.environ.get("VERIF_TIER", "quick"), choices=["quick", "thorough"])
    ap.add_argument("--replay", default=None)
    ap.add_argument("--repo", default=None, help="analyse this tree instead of $VT_REPO / /repo")
    ap.add_argument("--no-write", action="store_true")
    ap.add_argument("--list", action="store_true", help="print every obligation")
    args = ap.parse_args(argv)
    if args.repo:
        os.environ["VT_REPO"] = args.repo
    seed = int(os.environ.get("VERIF_SEED", "0") or 0)
    props = PROPS if args.prop.lower() == "all" else [args.prop.upper()]
    worst = 0
    prog = None
    try:
        prog = Program()
    except AnalysisError as e:
        for p in props:
            c = Check(p, args.tier)
            c.error(str(e))
            worst = max(worst, c.finish(seed, write=not args.no_write))
        return worst
    for p in props:
        if p not in PROPS:
            print(f"ANALYSIS-ERROR property={p} no check is registered for this property")
            return 2
        chk = run_property(p, args.tier, prog)
        mutation = None
        if args.tier == "thorough" and not chk.errors:
            try:
                from .selftest import run_selftest
                mutation = run_selftest(p, seed)
                if mutation.get("failed"):
                    for f in mutation["failed"]:
                        chk.error(f"self-validation failed: {f}")
            except AnalysisError as e:
                chk.error(f"self-validation: {e}")
            except Exception as e:
                traceback.print_exc()
                chk.error(f"self-validation crashed: {type(e).__name__}: {e}")
        if args.replay:
            try:
                with open(args.replay) as fh:
                    want = json.load(fh)
                hit = [f for f in chk.findings if f.key == want.get("key")]
                print(f"REPLAY {args.replay}: rule instance {want.get('key')!r} "
                      f"{'STILL VIOLATED' if hit else 'no longer violated'}")
                return 1 if hit else 0
            except OSError as e:
                print(f"ANALYSIS-ERROR property={p} cannot read replay file: {e}")
                return 2
        if args.list:
            for o in chk.obligations:
                print(f"  [{'ok' if o.ok else 'XX'}] {o.rule} {o.instance} @ {o.where} {o.detail[:120]}")
        rc = chk.finish(seed, write=not args.no_write, mutation=mutation)
        n = len(chk.obligations)
        print(f"{p}: {n} obligations, {sum(1 for o in chk.obligations if not o.ok)} violated, exit {rc}")
        worst = max(worst, rc)
    return worst


class _SafeOut:
    """stdout that survives a reader going away (`| head`): the verdict is the exit code, never a side effect of printing"""

    def __init__(self, f):
        self._f, self._dead = f, False

    def write(self, s):
        if not self._dead:
            try:
                return self._f.write(s)
            except BrokenPipeError:
                self._dead = True
        return len(s)

    def flush(self):
        if not self._dead:
            try:
                self._f.flush()
            except BrokenPipeError:
                self._dead = True

    def __getattr__(self, n):
        return getattr(self._f, n)


if __name__ == "__main__":
    sys.stdout = _SafeOut(sys.stdout)
    try:
        rc = main()
    except SystemExit:
        raise
    except BaseException as e:  # noqa
        traceback.print_exc()
        print(f"ANALYSIS-ERROR checker crashed: {type(e).__name__}: {e}")
        rc = 2
    sys.stdout.flush()
    if sys.stdout._dead:
        try:
            sys.stdout._f = open(os.devnull, "w")
        except OSError:
            pass
        os._exit(rc)
    sys.exit(rc)
