"""Obligations, findings, known-findings, evidence files and exit codes."""

from __future__ import annotations

import json
import os
import sys
import time
from dataclasses import dataclass, field, asdict
from typing import Any, Dict, List, Optional

VERIF_DIR = os.path.dirname(os.path.dirname(os.path.dirname(os.path.abspath(__file__))))
EVIDENCE_DIR = os.path.join(VERIF_DIR, "evidence")
KNOWN_FILE = os.path.join(VERIF_DIR, "known_findings.json")


@dataclass
class Obligation:
    rule: str
    instance: str  # stable key of the rule instance (no line numbers)
    where: str  # file:line (informational)
    ok: bool
    detail: str = ""
    nontrivial: bool = True


@dataclass
class Finding:
    prop: str
    rule: str
    key: str
    where: str
    message: str
    chain: List[str] = field(default_factory=list)


class Check:
    """Collects what one property check examined and decided."""

    def __init__(self, prop: str, tier: str = "quick"):
        self.prop = prop
        self.tier = tier
        self.t0 = time.time()
        self.obligations: List[Obligation] = []
        self.findings: List[Finding] = []
        self.decided: List[str] = []
        self.not_decided: List[str] = []
        self.assumptions: List[str] = []
        self.exemptions: List[Dict[str, str]] = []
        self.counts: Dict[str, int] = {}
        self.minimums: Dict[str, int] = {}
        self.extra: Dict[str, Any] = {}
        self.trusted: List[str] = [
            "python ast module (parser) and this checker's own CFG / resolver",
            "fontTools / fontMath / defcon / ufoLib2 behave as documented (not analysed)",
        ]
        self.errors: List[str] = []

    # ---------------------------------------------------------------- recording
    def ob(self, rule: str, instance: str, ok: bool, where: str = "", detail: str = "",
           message: Optional[str] = None, chain: Optional[List[str]] = None, nontrivial: bool = True) -> bool:
        self.obligations.append(Obligation(rule, instance, where, bool(ok), detail, nontrivial))
        self.counts[rule] = self.counts.get(rule, 0) + 1
        if not ok:
            self.findings.append(Finding(self.prop, rule, f"{rule}|{instance}", where,
                                         message or detail or "rule violated", chain or []))
        return bool(ok)

    def minimum(self, rule: str, n: int) -> None:
        """Instance-count floor: a rule matching fewer sites than were confirmed
        by hand has gone blind -> analysis error (exit 2), never a silent pass."""
        self.minimums[rule] = n

    def exempt(self, rule: str, instance: str, reason: str) -> None:
        self.exemptions.append({"rule": rule, "instance": instance, "reason": reason})

    def error(self, msg: str) -> None:
        self.errors.append(msg)

    def guard(self, fn, *args, **kw):
        """Run one rule group.  A rule that cannot interpret the (changed) code records an
        analysis error and the remaining rule groups still run, so that one unreadable
        function does not hide violations elsewhere."""
        from .index import AnalysisError
        try:
            return fn(*args, **kw)
        except AnalysisError as e:
            self.error(str(e))
        except Exception as e:  # a crash of one rule is an analysis error, never a violation
            self.error(f"rule {getattr(fn, '__name__', fn)} crashed: {type(e).__name__}: {e}")
        return None

    # ---------------------------------------------------------------- finishing
    def finish(self, seed: int = 0, quiet: bool = False, write: bool = True, mutation: Optional[dict] = None) -> int:
        for rule, n in self.minimums.items():
            have = self.counts.get(rule, 0)
            if have < n:
                self.errors.append(f"rule {rule} matched {have} instance(s), fewer than the {n} confirmed on the reference tree")
        known = load_known().get("known", [])
        known_keys = {(k["property"], k["key"]): k for k in known}
        unlisted, listed = [], []
        for f in self.findings:
            if (f.prop, f.key) in known_keys:
                listed.append(f)
            else:
                unlisted.append(f)
        replay_paths = []
        if write:
            os.makedirs(os.path.join(EVIDENCE_DIR, "violations"), exist_ok=True)
            # remove stale replay files of this property
            vd = os.path.join(EVIDENCE_DIR, "violations")
            for fn in os.listdir(vd):
                if fn.startswith(self.prop + "-"):
                    try:
                        os.remove(os.path.join(vd, fn))
                    except OSError:
                        pass
        for i, f in enumerate(unlisted):
            p = os.path.join(EVIDENCE_DIR, "violations", f"{self.prop}-{i}.json")
            replay_paths.append(p)
            if write:
                with open(p, "w") as fh:
                    json.dump(asdict(f), fh, indent=1)
        if not quiet:
            for f in listed:
                k = known_keys[(f.prop, f.key)]
                print(f"KNOWN-FINDING: property={self.prop} {k.get('what', f.message)} [{f.key} at {f.where}]")
            for f, p in zip(unlisted, replay_paths):
                print(f"VIOLATION property={self.prop} replay={p}")
                print(f"  rule={f.rule} at {f.where}: {f.message}")
                print(f"  key={f.key}")
                for c in f.chain:
                    print(f"    via {c}")
            for e in self.errors:
                print(f"ANALYSIS-ERROR property={self.prop} {e}")
        if write:
            self._write_evidence(seed, listed, unlisted, mutation)
        # a named violation is a report even if another rule could not interpret the
        # (changed) code; analysis errors alone mean "the check is broken here"
        if unlisted:
            return 1
        if self.errors:
            return 2
        return 0

    def _write_evidence(self, seed, listed, unlisted, mutation):
        os.makedirs(EVIDENCE_DIR, exist_ok=True)
        obs = self.obligations
        distinct = {(o.rule, o.instance) for o in obs if o.nontrivial}
        samples = []
        per_rule: Dict[str, int] = {}
        for o in obs:
            if per_rule.get(o.rule, 0) < 3:
                per_rule[o.rule] = per_rule.get(o.rule, 0) + 1
                samples.append({"rule": o.rule, "instance": o.instance, "where": o.where,
                                "verdict": "holds" if o.ok else "VIOLATED", "detail": o.detail[:300]})
        by_rule = {}
        for o in obs:
            r = by_rule.setdefault(o.rule, {"instances": 0, "violated": 0})
            r["instances"] += 1
            r["violated"] += 0 if o.ok else 1
        coverage = {
            "explanation": (
                "Static analysis (ast / CFG / def-use / call-graph) of /repo's current source; "
                "no repository code is executed. DECIDED (structural clauses): "
                + " | ".join(self.decided)
                + " ; NOT DECIDED (runtime behaviour): "
                + " | ".join(self.not_decided)
            ),
            "obligations": len(obs),
            "discharged": sum(1 for o in obs if o.ok),
            "evaluations": max(len(obs), 1),
            "distinct_nontrivial": len(distinct),
            "rule": "one obligation per rule instance (call site / store / class / table entry) found in the "
                    "current source; distinct = distinct (rule, construct-key); non-trivial = the instance "
                    "required a resolved fact (not a vacuous match)",
            "samples": samples,
            "per_rule": by_rule,
            "instance_minimums": self.minimums,
            "checker_cmd": f"cd /verif && /venv/bin/python -m vt {self.prop} --tier {self.tier}",
            "trusted_base": self.trusted,
            "exemptions_applied": self.exemptions,
            "known_findings_printed": [f.key for f in listed],
            "unlisted_violations": [asdict(f) for f in unlisted],
            "analysis_errors": self.errors,
            "exhaustive": True,
        }
        coverage.update(self.extra)
        if mutation is not None:
            coverage["self_validation"] = mutation
        ev = {
            "property_id": self.prop,
            "tier": self.tier,
            "seed": int(seed),
            "level": "other",
            "coverage": coverage,
            "assumptions": self.assumptions,
            "wall_s": round(time.time() - self.t0, 3),
            "violations": len(unlisted),
        }
        with open(os.path.join(EVIDENCE_DIR, f"{self.prop}.json"), "w") as fh:
            json.dump(ev, fh, indent=1, default=str)


def load_known() -> dict:
    if not os.path.exists(KNOWN_FILE):
        return {"known": [], "fixed": []}
    with open(KNOWN_FILE) as fh:
        return json.load(fh)
