"""E4 - order-determinism analysis: where can the iteration order of a set (which
depends on PYTHONHASHSEED for str elements) be observed?"""

from __future__ import annotations

import ast
from dataclasses import dataclass
from typing import Dict, List, Optional, Set, Tuple

from . import astutil as A
from .index import AnalysisError, ClassInfo, FuncInfo
from .program import Program

SET_CTORS = {"set", "frozenset"}
SET_METHODS = {"union", "intersection", "difference", "symmetric_difference", "copy"}
SET_OPS = (ast.BitOr, ast.BitAnd, ast.Sub, ast.BitXor)
ORDER_FREE_CONSUMERS = {"sorted", "set", "frozenset", "len", "any", "all", "sum", "min", "max", "bool", "isinstance"}
ORDER_OBSERVERS = {"list", "tuple", "enumerate", "zip", "zip_strict", "iter", "next", "map", "filter", "reversed", "dict", "OrderedDict",
                   "product", "combinations", "permutations", "chain", "zip_longest", "Counter", "deque"}


@dataclass
class Site:
    fi: FuncInfo
    node: ast.AST  # the construct that observes the order (For / comprehension / Call)
    setexpr: ast.AST
    kind: str  # for | comp | call:<name> | sorted-key | pop | star | join
    sensitive: bool
    why: str


class SetOrder:
    def __init__(self, prog: Program):
        self.prog = prog
        self.ix = prog.ix
        self._field_sets: Optional[Dict[str, Optional[bool]]] = None
        self._ret_cache: Dict[str, str] = {}
        self._memo: Dict[int, str] = {}

    # -------------------------------------------------------------- type inference
    def kind_of(self, fi: FuncInfo, e: ast.AST, depth: int = 0) -> str:
        """'set' | 'dictofsets' | 'other' | 'unknown'"""
        k = (id(e), fi.qname)
        if k in self._memo:
            return self._memo[k]
        self._memo[k] = "unknown"
        r = self._kind(fi, e, depth)
        self._memo[k] = r
        return r

    def _ann_kind(self, ann: Optional[ast.AST]) -> str:
        if ann is None:
            return "unknown"
        t = A.text(ann).replace(" ", "")
        tl = t.lower()
        if tl.startswith(("set[", "frozenset[", "set", "frozenset", "typing.set", "abstractset")) and not tl.startswith("settings"):
            if tl in ("set", "frozenset") or "[" in tl:
                return "set"
        if tl.startswith(("dict[", "mapping[", "defaultdict[")) and ("set[" in tl):
            return "dictofsets"
        if tl.startswith(("optional[set", "set[", "frozenset[")):
            return "set"
        if tl.startswith(("list", "tuple", "str", "int", "float", "bool", "dict", "mapping", "ordereddict", "iterator", "iterable", "sequence")):
            return "other"
        return "unknown"

    def _kind(self, fi: FuncInfo, e: ast.AST, depth: int) -> str:
        if depth > 12:
            return "unknown"
        ix = self.ix
        if isinstance(e, (ast.Set, ast.SetComp)):
            return "set"
        if isinstance(e, (ast.List, ast.Tuple, ast.ListComp, ast.GeneratorExp, ast.Constant, ast.JoinedStr, ast.Dict)):
            if isinstance(e, ast.Dict) and e.values and all(self.kind_of(fi, v, depth + 1) == "set" for v in e.values):
                return "dictofsets"
            if isinstance(e, (ast.List, ast.Tuple)) and e.elts and all(self.kind_of(fi, v, depth + 1) == "set" for v in e.elts):
                return "listofsets"
            if isinstance(e, (ast.ListComp, ast.GeneratorExp)) and self.kind_of(fi, e.elt, depth + 1) == "set":
                return "listofsets"
            return "other"
        if isinstance(e, ast.DictComp):
            return "dictofsets" if self.kind_of(fi, e.value, depth + 1) == "set" else "other"
        if isinstance(e, ast.Call):
            n = A.callee_name(e)
            f = e.func
            if isinstance(f, ast.Name) and n in SET_CTORS:
                return "set"
            if isinstance(f, ast.Name) and n == "defaultdict" and e.args and isinstance(e.args[0], ast.Name) and e.args[0].id in SET_CTORS:
                return "dictofsets"
            if isinstance(f, ast.Name) and n in ("sorted", "list", "tuple", "dict", "OrderedDict", "str", "len", "int", "float", "enumerate", "zip", "range"):
                return "other"
            if isinstance(f, ast.Attribute):
                if n in SET_METHODS and self.kind_of(fi, f.value, depth + 1) == "set":
                    return "set"
                if n in ("get", "setdefault", "pop") and self.kind_of(fi, f.value, depth + 1) == "dictofsets":
                    return "set"
                if n in ("get", "setdefault") and len(e.args) == 2 and self.kind_of(fi, e.args[1], depth + 1) == "set":
                    return "set"
                if n in ("keys", "items", "values", "split", "join", "format", "strip", "replace", "lower", "title"):
                    return "other"
            ts, how = self.prog.resolve_callee(fi, f)
            ks = set()
            for t in ts:
                if isinstance(t, FuncInfo) and how in ("exact", "cha"):
                    ks.add(self.return_kind(t))
                elif isinstance(t, ClassInfo):
                    ext = {b.split(".")[-1] for b in ix.external_bases(t)}
                    ks.add("set" if ext & {"set", "frozenset"} else "other")
                elif isinstance(t, str):
                    if t.endswith(("unicodedata.script_extension",)):
                        ks.add("set")
                    else:
                        ks.add("unknown")
            if ks and len(ks) == 1:
                return ks.pop()
            return "unknown"
        if isinstance(e, ast.BinOp) and isinstance(e.op, SET_OPS):
            l, r = self.kind_of(fi, e.left, depth + 1), self.kind_of(fi, e.right, depth + 1)
            if "set" in (l, r):
                return "set"
            # dict.keys() - x etc. yield a set
            for side in (e.left, e.right):
                if isinstance(side, ast.Call) and isinstance(side.func, ast.Attribute) and side.func.attr in ("keys", "items"):
                    return "set"
            return "unknown" if "unknown" in (l, r) else "other"
        if isinstance(e, ast.IfExp):
            a, b = self.kind_of(fi, e.body, depth + 1), self.kind_of(fi, e.orelse, depth + 1)
            return a if a == b else ("set" if "set" in (a, b) else "unknown")
        if isinstance(e, ast.BoolOp):
            ks = {self.kind_of(fi, v, depth + 1) for v in e.values}
            return "set" if "set" in ks else (ks.pop() if len(ks) == 1 else "unknown")
        if isinstance(e, ast.NamedExpr):
            return self.kind_of(fi, e.value, depth + 1)
        if isinstance(e, ast.Subscript):
            b = self.kind_of(fi, e.value, depth + 1)
            if b == "listofsets":
                return "listofsets" if isinstance(e.slice, ast.Slice) else "set"
            return "set" if b == "dictofsets" else ("unknown" if b == "unknown" else "other")
        if isinstance(e, ast.Name):
            return self.name_kind(fi, e, depth)
        if isinstance(e, ast.Attribute):
            # class / module constants
            d = ix.resolve_expr(fi.module, e, self.prog._class_ctx(fi))
            if d:
                obj = ix.lookup(d)
                if isinstance(obj, tuple) and obj[0] == "const":
                    return self.const_kind(obj[1], obj[1].constants[obj[2]])
                if isinstance(obj, tuple) and obj[0] == "classattr":
                    return self.const_kind(obj[1].module, obj[1].attrs[obj[2]])
            # self.<classattr>
            if isinstance(e.value, ast.Name) and e.value.id in ("self", "cls"):
                cls = self.prog._class_ctx(fi)
                if cls is not None:
                    ca = ix.class_attr(cls, e.attr)
                    if ca is not None:
                        ann = None
                        for c in ix.mro(cls):
                            if e.attr in c.annotations:
                                ann = c.annotations[e.attr]
                        k = self.const_kind(ca[0].module, ca[1])
                        if k != "unknown":
                            return k
            return self.field_kind(e.attr)
        return "unknown"

    def const_kind(self, mi, expr) -> str:
        if isinstance(expr, (ast.Set, ast.SetComp)):
            return "set"
        if isinstance(expr, ast.Call) and A.callee_name(expr) in SET_CTORS and isinstance(expr.func, ast.Name):
            return "set"
        if isinstance(expr, ast.BinOp) and isinstance(expr.op, SET_OPS):
            a, b = self.const_kind(mi, expr.left), self.const_kind(mi, expr.right)
            return "set" if "set" in (a, b) else "unknown"
        if isinstance(expr, ast.Name) and expr.id in mi.constants:
            return self.const_kind(mi, mi.constants[expr.id])
        if isinstance(expr, (ast.List, ast.Tuple, ast.Dict, ast.Constant)):
            return "other"
        return "unknown"

    def name_kind(self, fi: FuncInfo, n: ast.Name, depth: int) -> str:
        defs = self.prog.reaching(fi, n.id, n)
        if not defs:
            # module-level constant / imported constant
            mi = fi.module
            if n.id in mi.constants:
                return self.const_kind(mi, mi.constants[n.id])
            if n.id in mi.imports:
                obj = self.ix.lookup(mi.imports[n.id])
                if isinstance(obj, tuple) and obj[0] == "const":
                    return self.const_kind(obj[1], obj[1].constants[obj[2]])
            # closure variable
            p = fi.parent
            while p is not None:
                ds = self.prog.cfg(p).defs_of(n.id)
                ks = set()
                for d in ds:
                    ks.add(self.def_kind(p, d, depth + 1))
                if ks:
                    return "set" if "set" in ks else (ks.pop() if len(ks) == 1 else "unknown")
                p = p.parent
            return "unknown"
        ks = {self.def_kind(fi, d, depth + 1) for d in defs}
        if "set" in ks:
            return "set"
        if "dictofsets" in ks:
            return "dictofsets"
        if "listofsets" in ks:
            return "listofsets"
        return ks.pop() if len(ks) == 1 else "unknown"

    def def_kind(self, fi: FuncInfo, d, depth: int) -> str:
        if d.kind == "param":
            ann = getattr(d.binder, "annotation", None)
            k = self._ann_kind(ann)
            if k != "unknown":
                return k
            return self.param_kind(fi, d.name, depth)
        if d.kind in ("assign", "annassign", "walrus"):
            if d.kind == "annassign":
                k = self._ann_kind(d.binder.annotation)
                if k != "unknown":
                    return k
            v, how = d.element()
            if v is None:
                return "unknown"
            if how is None:
                k = self.kind_of(fi, v, depth + 1)
                # a dict local that later receives sets as values
                if k in ("other", "unknown") and isinstance(v, (ast.Dict, ast.Call)):
                    if self._local_dict_of_sets(fi, d.name):
                        return "dictofsets"
                # a list local that later receives sets through append
                if k in ("other", "unknown") and isinstance(v, ast.List) and not v.elts and depth < 6:
                    for c in A.body_nodes(fi.node):
                        if isinstance(c, ast.Call) and isinstance(c.func, ast.Attribute) and c.func.attr == "append" and isinstance(c.func.value, ast.Name) \
                                and c.func.value.id == d.name and c.args and self.kind_of(fi, c.args[0], depth + 2) == "set":
                            return "listofsets"
                return k
            return "unknown"
        if d.kind == "augassign":
            if isinstance(d.binder.op, SET_OPS):
                prev = [x for x in self.prog.reaching(fi, d.name, d.binder) if x is not d]
                ks = {self.def_kind(fi, x, depth + 1) for x in prev}
                if "set" in ks or self.kind_of(fi, d.value, depth + 1) == "set":
                    return "set"
            return "unknown"
        if d.kind in ("for", "comp"):
            it = d.value
            if isinstance(d.target, ast.Name) and depth < 8 and self.kind_of(fi, it, depth + 1) == "listofsets":
                return "set"
            # elements of dict-of-sets .values() / .items()
            if isinstance(it, ast.Call) and isinstance(it.func, ast.Attribute) and it.func.attr in ("values", "items"):
                if self.kind_of(fi, it.func.value, depth + 1) == "dictofsets":
                    if it.func.attr == "values" and isinstance(d.target, ast.Name):
                        return "set"
                    if it.func.attr == "items" and isinstance(d.target, ast.Tuple) and len(d.target.elts) == 2 \
                            and isinstance(d.target.elts[1], ast.Name) and d.target.elts[1].id == d.name:
                        return "set"
            # elements yielded / returned by a package function:  for a, b in gen(...)
            if isinstance(it, ast.Call) and depth < 4:
                ts, how = self.prog.resolve_callee(fi, it.func)
                pos = None
                if isinstance(d.target, ast.Tuple):
                    names = [e.id if isinstance(e, ast.Name) else None for e in d.target.elts]
                    if d.name in names:
                        pos = names.index(d.name)
                for t in ts:
                    if not isinstance(t, FuncInfo):
                        continue
                    for y in [n for n in A.body_nodes(t.node) if isinstance(n, ast.Yield) and n.value is not None]:
                        v = y.value
                        if pos is not None and isinstance(v, ast.Tuple) and pos < len(v.elts):
                            v = v.elts[pos]
                        elif pos is not None:
                            continue
                        if self.kind_of(t, v, depth + 1) == "set":
                            return "set"
            return "unknown"
        return "unknown"

    def param_kind(self, fi: FuncInfo, name: str, depth: int) -> str:
        """Kind of an un-annotated parameter: join over the arguments of resolved
        package call sites (set if any caller passes a set)."""
        key = (fi.qname, name)
        if not hasattr(self, "_param_cache"):
            self._param_cache = {}
            self._callers = None
        if key in self._param_cache:
            return self._param_cache[key]
        self._param_cache[key] = "unknown"
        if depth > 6 or name in ("self", "cls"):
            return "unknown"
        if self._callers is None:
            self._callers = {}
            for g in self.ix.functions.values():
                for c in A.body_nodes(g.node):
                    if isinstance(c, ast.Call):
                        ts, how = self.prog.resolve_callee(g, c.func)
                        if how in ("exact", "cha"):
                            for t in ts:
                                if isinstance(t, FuncInfo):
                                    self._callers.setdefault(t.qname, []).append((g, c))
        params = [p for p in fi.params() if not p.startswith("*")]
        if fi.cls is not None and not fi.is_static and fi.parent is None:
            params = params[1:]
        ks = set()
        for g, c in self._callers.get(fi.qname, []):
            a = None
            if name in params:
                i = params.index(name)
                if i < len(c.args) and not any(isinstance(x, ast.Starred) for x in c.args[: i + 1]):
                    a = c.args[i]
            kw = A.kwarg(c, name)
            if kw is not None:
                a = kw
            if a is not None:
                ks.add(self.kind_of(g, a, depth + 1))
        r = "set" if "set" in ks else ("dictofsets" if "dictofsets" in ks else (ks.pop() if len(ks) == 1 else "unknown"))
        self._param_cache[key] = r
        return r

    def _local_dict_of_sets(self, fi: FuncInfo, name: str) -> bool:
        for n in A.body_nodes(fi.node):
            if isinstance(n, ast.Call) and isinstance(n.func, ast.Attribute) and n.func.attr == "setdefault" and isinstance(n.func.value, ast.Name) \
                    and n.func.value.id == name and len(n.args) == 2 and self.kind_of(fi, n.args[1]) == "set":
                return True
            if isinstance(n, ast.Assign) and isinstance(n.targets[0], ast.Subscript) and isinstance(n.targets[0].value, ast.Name) \
                    and n.targets[0].value.id == name and self.kind_of(fi, n.value) == "set":
                return True
        return False

    def return_kind(self, f: FuncInfo) -> str:
        if f.qname in self._ret_cache:
            return self._ret_cache[f.qname]
        self._ret_cache[f.qname] = "unknown"
        k = self._ann_kind(getattr(f.node, "returns", None))
        if k == "unknown":
            rets = [r for r in A.returns_of(f.node) if r.value is not None]
            ks = {self.kind_of(f, r.value) for r in rets}
            if ks and ks <= {"set"}:
                k = "set"
            elif ks and ks <= {"dictofsets"}:
                k = "dictofsets"
            elif ks and "set" not in ks and "dictofsets" not in ks and "unknown" not in ks:
                k = "other"
        self._ret_cache[f.qname] = k
        return k

    def field_kind(self, attr: str) -> str:
        """Attribute name -> 'set' if every store `<x>.attr = v` in the package has a
        set-typed v (context fields, options)."""
        if self._field_sets is None:
            self._field_sets = {}
            stores: Dict[str, List[Tuple[FuncInfo, ast.AST]]] = {}
            for fi in self.ix.functions.values():
                for n in A.body_nodes(fi.node):
                    if isinstance(n, ast.Assign):
                        for t in n.targets:
                            if isinstance(t, ast.Attribute):
                                stores.setdefault(t.attr, []).append((fi, n.value))
                    elif isinstance(n, ast.AnnAssign) and isinstance(n.target, ast.Attribute) and n.value is not None:
                        stores.setdefault(n.target.attr, []).append((fi, n.value))
                    elif isinstance(n, ast.Call) and A.callee_name(n) in ("SimpleNamespace", "KernContext"):
                        for kw in n.keywords:
                            if kw.arg:
                                stores.setdefault(kw.arg, []).append((fi, kw.value))
            self._stores = stores
        if attr in self._field_sets:
            return self._field_sets[attr]
        self._field_sets[attr] = "unknown"
        sts = self._stores.get(attr, [])
        ks = {self.kind_of(fi, v) for fi, v in sts}
        r = "unknown"
        if ks and ks <= {"set"}:
            r = "set"
        elif ks and ks <= {"dictofsets"}:
            r = "dictofsets"
        elif ks and "set" in ks:
            r = "set"  # may be a set
        self._field_sets[attr] = r
        return r

    # --------------------------------------------------------------- observation sites
    def sites(self) -> List[Site]:
        out: List[Site] = []
        for fi in self.ix.functions.values():
            for n in A.body_nodes(fi.node):
                if isinstance(n, (ast.For, ast.AsyncFor)):
                    if self.kind_of(fi, n.iter) == "set":
                        s, why = self.loop_sensitivity(fi, n)
                        out.append(Site(fi, n, n.iter, "for", s, why))
                elif isinstance(n, (ast.ListComp, ast.GeneratorExp, ast.DictComp, ast.SetComp)):
                    for g in n.generators:
                        if self.kind_of(fi, g.iter) == "set":
                            s, why = self.comp_sensitivity(fi, n)
                            out.append(Site(fi, n, g.iter, "comp", s, why))
                elif isinstance(n, ast.Call):
                    name = A.callee_name(n)
                    f = n.func
                    if isinstance(f, ast.Name) or (isinstance(f, ast.Attribute) and name in ORDER_OBSERVERS and A.text(f.value) in ("itertools", "collections")):
                        for i, a in enumerate(n.args):
                            arg = a.value if isinstance(a, ast.Starred) else a
                            if self.kind_of(fi, arg) != "set":
                                continue
                            if isinstance(a, ast.Starred):
                                out.append(Site(fi, n, arg, "star", True, "set unpacked into positional arguments"))
                            elif name == "sorted":
                                k = A.kwarg(n, "key")
                                if k is not None:
                                    out.append(Site(fi, n, arg, "sorted-key", True, f"sorted(set, key={A.text(k, 40)}): ties keep the set's order"))
                            elif name in ("min", "max") and A.kwarg(n, "key") is not None:
                                out.append(Site(fi, n, arg, "minmax-key", True, "min/max with key: ties resolved by set order"))
                            elif name in ORDER_OBSERVERS:
                                s, why = self.consumer_context(fi, n)
                                out.append(Site(fi, n, arg, f"call:{name}", s, why))
                    if isinstance(f, ast.Attribute):
                        if name == "join" and n.args and self.kind_of(fi, n.args[0]) == "set":
                            out.append(Site(fi, n, n.args[0], "join", True, "str.join over a set"))
                        if name == "pop" and not n.args and self.kind_of(fi, f.value) == "set":
                            out.append(Site(fi, n, f.value, "pop", True, "set.pop() returns an arbitrary element"))
                        if name in ("extend",) and n.args and self.kind_of(fi, n.args[0]) == "set":
                            out.append(Site(fi, n, n.args[0], "extend", True, "list.extend(set)"))
                elif isinstance(n, ast.Assign) and isinstance(n.targets[0], (ast.Tuple, ast.List)) and self.kind_of(fi, n.value) == "set":
                    single = len(n.targets[0].elts) == 1
                    out.append(Site(fi, n, n.value, "unpack", not single, "tuple-unpacking of a set" + (" (single element: order-free)" if single else "")))
        return out

    # ---- body classification
    def _parent_consumer(self, fi: FuncInfo, n: ast.AST) -> Optional[ast.Call]:
        p = self.ix.parent(n)
        if isinstance(p, ast.Call) and n in p.args:
            return p
        if isinstance(p, ast.Starred):
            pp = self.ix.parent(p)
            if isinstance(pp, ast.Call):
                return pp
        return None

    def consumer_context(self, fi: FuncInfo, n: ast.AST) -> Tuple[bool, str]:
        """Is the ordered value produced at n consumed only by order-free consumers?"""
        c = self._parent_consumer(fi, n)
        if c is not None:
            name = A.callee_name(c)
            if isinstance(c.func, ast.Name) and name in ORDER_FREE_CONSUMERS:
                if name == "sorted" and A.kwarg(c, "key") is not None:
                    return True, "feeds sorted(..., key=...)"
                if name in ("min", "max") and A.kwarg(c, "key") is not None:
                    return True, "feeds min/max(..., key=...)"
                return False, f"consumed by {name}()"
            if isinstance(c.func, ast.Attribute) and name in ("update", "union", "intersection", "difference", "issubset", "issuperset", "isdisjoint",
                                                                  "difference_update", "intersection_update") and c.args and c.args[0] is n:
                return False, f"consumed by set.{name}()"
            if isinstance(c.func, ast.Attribute) and name == "union" and A.text(c.func.value) == "set":
                return False, "consumed by set.union()"
        p = self.ix.parent(n)
        if isinstance(p, ast.Compare):
            return False, "only compared"
        return True, "ordered result escapes"

    def comp_sensitivity(self, fi: FuncInfo, comp: ast.AST) -> Tuple[bool, str]:
        if isinstance(comp, ast.SetComp):
            return False, "set comprehension (result is a set again)"
        if isinstance(comp, ast.DictComp):
            # insertion order of the resulting dict follows the set's order
            return self.dict_result_sensitivity(fi, comp)
        return self.consumer_context(fi, comp)

    def dict_result_sensitivity(self, fi: FuncInfo, comp: ast.AST) -> Tuple[bool, str]:
        return True, "dict built in set order (insertion order observable if the dict is ever iterated)"

    INSENSITIVE_CALLS = {"add", "update", "discard", "remove", "difference_update", "intersection_update", "debug", "info", "warning", "error",
                         "isdisjoint", "issubset", "issuperset", "startswith", "endswith", "get", "items", "keys", "values", "len", "isinstance",
                         "any", "all", "min", "max", "sorted", "set", "frozenset", "sum", "bool", "setdefault", "union", "intersection", "difference", "abs"}

    def loop_sensitivity(self, fi: FuncInfo, loop: ast.For) -> Tuple[bool, str]:
        """Order-insensitive bodies: only set updates, membership tests, raises,
        logging, keyed dict-of-set updates, counters."""
        reasons = []
        for st in loop.body + loop.orelse:
            for n in A.walk_local(st):
                if isinstance(n, (ast.Yield, ast.YieldFrom)):
                    reasons.append("yields inside the loop")
                elif isinstance(n, ast.Return) and n.value is not None and not isinstance(n.value, ast.Constant):
                    reasons.append("returns the first matching element")
                elif isinstance(n, ast.Break):
                    reasons.append("break: which element is reached first depends on the order")
                elif isinstance(n, ast.Call):
                    name = A.callee_name(n)
                    if isinstance(n.func, ast.Attribute) and name in ("append", "extend", "insert", "write", "appendAnchor"):
                        reasons.append(f".{name}() inside the loop")
                    elif name not in self.INSENSITIVE_CALLS:
                        # calls to package / unknown functions: order may matter if they have effects
                        ts, how = self.prog.resolve_callee(fi, n.func)
                        if any(isinstance(t, FuncInfo) for t in ts) and not self._pure(ts):
                            reasons.append(f"calls {name}() with effects")
                elif isinstance(n, ast.Assign):
                    for t in n.targets:
                        if isinstance(t, ast.Subscript):
                            k = self.kind_of(fi, t.value)
                            # d[k] = v : insertion order follows the set
                            reasons.append(f"dict/list store {A.text(t, 40)} in set order")
                elif isinstance(n, ast.AugAssign) and isinstance(n.op, ast.Add) and isinstance(n.target, ast.Name):
                    # string / list concatenation is order sensitive, numeric counters are not
                    if not isinstance(n.value, ast.Constant) or not isinstance(n.value.value, (int, float)):
                        reasons.append(f"accumulates with += ({A.text(n, 40)})")
        if reasons:
            return True, "; ".join(sorted(set(reasons)))
        return False, "body only updates sets / tests membership / raises"

    def _pure(self, targets) -> bool:
        for t in targets:
            if not isinstance(t, FuncInfo):
                continue
            for n in A.body_nodes(t.node):
                if isinstance(n, ast.Call) and isinstance(n.func, ast.Attribute) and n.func.attr in ("append", "extend", "insert", "add", "update", "setdefault", "write"):
                    return False
                if isinstance(n, (ast.Assign, ast.AugAssign)) and any(isinstance(x, (ast.Attribute, ast.Subscript)) for x in (n.targets if isinstance(n, ast.Assign) else [n.target])):
                    return False
        return True
