"""Small AST helpers shared by all rules."""

from __future__ import annotations

import ast
import re
from typing import Iterable, Iterator, List, Optional, Sequence, Tuple


def text(node: ast.AST, limit: int = 160) -> str:
    """Normalised source text of a node: ast.unparse normalises whitespace, quotes
    and redundant parentheses, so reformatting does not change keys."""
    try:
        s = ast.unparse(node)
    except Exception:  # pragma: no cover
        s = f"<{type(node).__name__}>"
    s = re.sub(r"\s+", " ", s).strip()
    if limit and len(s) > limit:
        s = s[: limit - 3] + "..."
    return s


def walk_local(node: ast.AST, include_root: bool = True, into_lambdas: bool = True) -> Iterator[ast.AST]:
    """ast.walk that does not descend into nested function / class definitions
    (they are separate analysis units).  Lambdas and comprehensions are part of
    the enclosing function."""
    stack = [node] if include_root else list(ast.iter_child_nodes(node))
    first = True
    while stack:
        n = stack.pop()
        if not first or not include_root:
            if isinstance(n, (ast.FunctionDef, ast.AsyncFunctionDef, ast.ClassDef)):
                yield n  # yield the def itself, not its body
                continue
            if isinstance(n, ast.Lambda) and not into_lambdas:
                yield n
                continue
        first = False
        yield n
        stack.extend(reversed(list(ast.iter_child_nodes(n))))


def body_nodes(func_node: ast.AST) -> Iterator[ast.AST]:
    """All nodes of a function body, not descending into nested defs."""
    if isinstance(func_node, ast.Lambda):
        yield from walk_local(func_node.body)
        return
    for st in func_node.body:
        if isinstance(st, (ast.FunctionDef, ast.AsyncFunctionDef, ast.ClassDef)):
            yield st  # nested definitions are separate analysis units
            continue
        yield from walk_local(st)


def calls_in(node: ast.AST) -> Iterator[ast.Call]:
    for n in walk_local(node):
        if isinstance(n, ast.Call):
            yield n


def callee_name(call: ast.Call) -> str:
    """Rightmost name of the callee: f(...) -> 'f', a.b.c(...) -> 'c'."""
    f = call.func
    if isinstance(f, ast.Name):
        return f.id
    if isinstance(f, ast.Attribute):
        return f.attr
    return ""


def dotted(expr: ast.AST) -> Optional[str]:
    parts = []
    e = expr
    while isinstance(e, ast.Attribute):
        parts.append(e.attr)
        e = e.value
    if isinstance(e, ast.Name):
        parts.append(e.id)
        return ".".join(reversed(parts))
    return None


def root_name(expr: ast.AST) -> Optional[str]:
    e = expr
    while isinstance(e, (ast.Attribute, ast.Subscript, ast.Call, ast.Starred)):
        if isinstance(e, ast.Call):
            e = e.func
        else:
            e = e.value
    return e.id if isinstance(e, ast.Name) else None


def kwarg(call: ast.Call, name: str) -> Optional[ast.expr]:
    for k in call.keywords:
        if k.arg == name:
            return k.value
    moved = getattr(call, "_kwmoved", None)  # keywords normalised into positional arguments (Program._normalise_call_keywords)
    if moved and name in moved:
        return moved[name]
    return None


def arg_at(call: ast.Call, pos: int, name: Optional[str] = None) -> Optional[ast.expr]:
    """Positional argument `pos` or keyword `name`."""
    if pos is not None and pos < len(call.args) and not any(isinstance(a, ast.Starred) for a in call.args[: pos + 1]):
        return call.args[pos]
    if name is not None:
        return kwarg(call, name)
    return None


def is_const(node: ast.AST, value=...) -> bool:
    if not isinstance(node, ast.Constant):
        return False
    return value is ... or (node.value == value and type(node.value) is type(value))


def names_in(node: ast.AST) -> set:
    return {n.id for n in walk_local(node) if isinstance(n, ast.Name)}


def attr_chain_names(node: ast.AST) -> set:
    """Every identifier (Name ids and Attribute attrs) mentioned in an expression."""
    out = set()
    for n in walk_local(node):
        if isinstance(n, ast.Name):
            out.add(n.id)
        elif isinstance(n, ast.Attribute):
            out.add(n.attr)
    return out


def target_names(t: ast.AST) -> List[str]:
    out = []
    if isinstance(t, ast.Name):
        out.append(t.id)
    elif isinstance(t, (ast.Tuple, ast.List)):
        for e in t.elts:
            out += target_names(e)
    elif isinstance(t, ast.Starred):
        out += target_names(t.value)
    return out


def stmts_of(func_node: ast.AST) -> Iterator[ast.stmt]:
    for n in body_nodes(func_node):
        if isinstance(n, ast.stmt):
            yield n


def returns_of(func_node: ast.AST) -> List[ast.Return]:
    return [n for n in body_nodes(func_node) if isinstance(n, ast.Return)]


def raises_of(func_node: ast.AST) -> List[ast.Raise]:
    return [n for n in body_nodes(func_node) if isinstance(n, ast.Raise)]


def raise_class(r: ast.Raise) -> str:
    e = r.exc
    if e is None:
        return "<reraise>"
    if isinstance(e, ast.Call):
        e = e.func
    return dotted(e) or text(e)


def compare_parts(node: ast.AST) -> Optional[Tuple[ast.expr, ast.cmpop, ast.expr]]:
    if isinstance(node, ast.Compare) and len(node.ops) == 1:
        return node.left, node.ops[0], node.comparators[0]
    return None


def same(a: ast.AST, b: ast.AST) -> bool:
    return ast.dump(a) == ast.dump(b)


_LOCALS_CACHE: dict = {}
_KEYTEXT_CACHE: dict = {}


def local_names(func_node: ast.AST) -> set:
    """Names bound inside a function (parameters other than self/cls, assignment
    / loop / with / except / comprehension targets)."""
    c = _LOCALS_CACHE.get(id(func_node))
    if c is not None and c[0] is func_node:
        return c[1]
    out = _local_names(func_node)
    _LOCALS_CACHE[id(func_node)] = (func_node, out)
    return out


def _local_names(func_node: ast.AST) -> set:
    out = set()
    a = getattr(func_node, "args", None)
    if a is not None:
        for x in a.posonlyargs + a.args + a.kwonlyargs + ([a.vararg] if a.vararg else []) + ([a.kwarg] if a.kwarg else []):
            if x.arg not in ("self", "cls"):
                out.add(x.arg)
    for n in body_nodes(func_node):
        if isinstance(n, ast.Name) and isinstance(n.ctx, (ast.Store, ast.Del)):
            out.add(n.id)
        elif isinstance(n, ast.ExceptHandler) and n.name:
            out.add(n.name)
    return out


def keytext(func_node: ast.AST, node: ast.AST, limit: int = 200) -> str:
    """Normalised text of `node` with the function's local variable names replaced
    by $1, $2, ... in order of first appearance: stable under reformatting *and*
    under renaming of locals (used for finding / exemption keys)."""
    import copy as _copy
    ck = (id(func_node), id(node), limit)
    c = _KEYTEXT_CACHE.get(ck)
    if c is not None and c[0] is node:
        return c[1]
    locs = local_names(func_node)
    clone = _copy.deepcopy(node)
    mapping = {}
    # deterministic order: source order of a pre-order walk
    for n in walk_local(clone):
        if isinstance(n, ast.Name) and n.id in locs:
            if n.id not in mapping:
                mapping[n.id] = f"${len(mapping) + 1}"
            n.id = mapping[n.id]
        elif isinstance(n, ast.arg) and n.arg in locs:
            if n.arg not in mapping:
                mapping[n.arg] = f"${len(mapping) + 1}"
            n.arg = mapping[n.arg]
    res = text(clone, limit)
    _KEYTEXT_CACHE[ck] = (node, res)
    return res
