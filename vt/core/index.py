"""E1 - program index and name resolver for the ufo2ft package (ast only).

Gives every rule the same resolved view of the program:
  * modules (parsed on every run from <repo>/Lib/ufo2ft),
  * import alias maps (followed through package re-exports),
  * classes with package-internal MRO, class-level attributes,
  * functions / methods / nested functions with qualified names,
  * a small constant folder for module/class level literals.
"""

from __future__ import annotations

import ast
import os
import sys
from dataclasses import dataclass, field
from typing import Dict, Iterator, List, Optional, Tuple

PKG = "ufo2ft"


_NAMESPACE_ATTRS = ("context", "options")


def _normalise_namespace_aliases(tree: ast.Module) -> None:
    """`ctx = self.context` (or `opts = self.options`) followed by `ctx.x` is the same as `self.context.x` as long as the
    method neither rebinds the alias nor replaces the namespace (no store to self.context, no set_context /
    setContext / __call__ / write call): loads of such an alias are rewritten to the attribute it stands for, so
    that introducing or removing the alias can never change a verdict.  The alias assignment itself stays."""
    for fn in ast.walk(tree):
        if not isinstance(fn, (ast.FunctionDef, ast.AsyncFunctionDef)) or not fn.args.args or fn.args.args[0].arg != "self":
            continue
        stores: dict = {}
        kills = False
        nested = False
        for n in ast.walk(fn):
            if n is not fn and isinstance(n, (ast.FunctionDef, ast.AsyncFunctionDef, ast.Lambda)):
                nested = True
            if isinstance(n, ast.Name) and isinstance(n.ctx, (ast.Store, ast.Del)):
                stores[n.id] = stores.get(n.id, 0) + 1
            if isinstance(n, ast.Attribute) and n.attr in _NAMESPACE_ATTRS and isinstance(n.value, ast.Name) and n.value.id == "self" and not isinstance(n.ctx, ast.Load):
                kills = True
            if isinstance(n, ast.Call):
                cn = n.func.attr if isinstance(n.func, ast.Attribute) else n.func.id if isinstance(n.func, ast.Name) else ""
                if cn in ("set_context", "setContext", "__call__", "write"):
                    kills = True
        if kills or nested:
            continue
        aliases = {}
        for st in fn.body:  # only top-level statements of the method: the alias dominates everything after it
            if isinstance(st, ast.Assign) and len(st.targets) == 1 and isinstance(st.targets[0], ast.Name) and stores.get(st.targets[0].id) == 1 \
                    and isinstance(st.value, ast.Attribute) and st.value.attr in _NAMESPACE_ATTRS and isinstance(st.value.value, ast.Name) and st.value.value.id == "self":
                aliases[st.targets[0].id] = st.value.attr
        if not aliases:
            continue
        params = {a.arg for a in fn.args.posonlyargs + fn.args.args + fn.args.kwonlyargs}
        aliases = {k: v for k, v in aliases.items() if k not in params}
        if not aliases:
            continue

        class R(ast.NodeTransformer):
            def visit_Name(self, node):
                if isinstance(node.ctx, ast.Load) and node.id in aliases:
                    new = ast.Attribute(value=ast.Name(id="self", ctx=ast.Load()), attr=aliases[node.id], ctx=ast.Load())
                    ast.copy_location(new, node)
                    ast.copy_location(new.value, node)
                    for a_ in ("end_lineno", "end_col_offset"):
                        setattr(new, a_, getattr(node, a_, None))
                        setattr(new.value, a_, getattr(node, a_, None))
                    new.alias_of = node.id
                    return new
                return node
        fn.body = [R().visit(st) for st in fn.body]


def _normalise_trailing_ifs(tree: ast.Module) -> None:
    """A loop body ending in `if c: <rest>` (no else) is the same loop as one saying `if not c: continue` followed
    by <rest>.  The second form is made canonical, so that rules which read the skip conditions of a loop from its
    `continue` guards give the same verdict for both styles."""
    def conv(body):
        if not body:
            return body
        last = body[-1]
        if isinstance(last, ast.If) and not last.orelse and last.body and not isinstance(last.body[-1], (ast.Continue, ast.Break, ast.Return, ast.Raise, ast.Pass)):
            t = last.test.operand if isinstance(last.test, ast.UnaryOp) and isinstance(last.test.op, ast.Not) else ast.UnaryOp(op=ast.Not(), operand=last.test)
            if t is not last.test.operand if isinstance(last.test, ast.UnaryOp) and isinstance(last.test.op, ast.Not) else True:
                ast.copy_location(t, last.test)
            cont = ast.Continue()
            ast.copy_location(cont, last)
            guard = ast.If(test=t, body=[cont], orelse=[])
            ast.copy_location(guard, last)
            guard.end_lineno = getattr(last.test, "end_lineno", last.lineno)
            guard.synthetic_guard = True
            return body[:-1] + [guard] + conv(list(last.body))
        return body
    for n in ast.walk(tree):
        if isinstance(n, ast.For) and not n.orelse:
            n.body = conv(n.body)

    def fconv(body):
        """the same for a function body whose last statement is `if c: <rest>`: `if not c: return` + <rest>"""
        if not body:
            return body
        last = body[-1]
        if isinstance(last, ast.If) and not last.orelse and last.body and not isinstance(last.body[-1], (ast.Continue, ast.Break, ast.Return, ast.Raise, ast.Pass)) \
                and not any(isinstance(x, ast.NamedExpr) for x in ast.walk(last.test)):
            t = last.test.operand if isinstance(last.test, ast.UnaryOp) and isinstance(last.test.op, ast.Not) else ast.UnaryOp(op=ast.Not(), operand=last.test)
            ast.copy_location(t, last.test)
            ret = ast.Return(value=None)
            ast.copy_location(ret, last)
            guard = ast.If(test=t, body=[ret], orelse=[])
            ast.copy_location(guard, last)
            guard.end_lineno = getattr(last.test, "end_lineno", last.lineno)
            guard.synthetic_guard = True
            return body[:-1] + [guard] + fconv(list(last.body))
        return body
    for n in ast.walk(tree):
        if isinstance(n, (ast.FunctionDef, ast.AsyncFunctionDef)):
            n.body = fconv(n.body)


def _normalise_returned_temps(tree: ast.Module) -> None:
    """`t = E` immediately followed by `return t`, with t bound once and read once in the function, is `return E`."""
    for fn in ast.walk(tree):
        if not isinstance(fn, (ast.FunctionDef, ast.AsyncFunctionDef)):
            continue
        stores, loads = {}, {}
        for n in ast.walk(fn):
            if isinstance(n, ast.Name):
                d = stores if isinstance(n.ctx, (ast.Store, ast.Del)) else loads
                d[n.id] = d.get(n.id, 0) + 1
        # the returned temporary dies with the return: dropping its binding is safe unless the name is shared with
        # another scope (global / nonlocal, or read by a nested function)
        shared = set()
        for n in ast.walk(fn):
            if isinstance(n, (ast.Global, ast.Nonlocal)):
                shared.update(n.names)
            elif n is not fn and isinstance(n, (ast.FunctionDef, ast.AsyncFunctionDef, ast.Lambda)):
                shared.update(x.id for x in ast.walk(n) if isinstance(x, ast.Name))

        def conv(body):
            i = 0
            while i + 1 < len(body):
                a, r = body[i], body[i + 1]
                if isinstance(a, ast.Assign) and len(a.targets) == 1 and isinstance(a.targets[0], ast.Name) and isinstance(r, ast.Return) \
                        and isinstance(r.value, ast.Name) and r.value.id == a.targets[0].id and r.value.id not in shared:
                    new = ast.Return(value=a.value)
                    ast.copy_location(new, a)
                    new.end_lineno, new.end_col_offset = getattr(a, "end_lineno", None), getattr(a, "end_col_offset", None)
                    body[i:i + 2] = [new]
                i += 1
            for st in body:
                if isinstance(st, (ast.FunctionDef, ast.AsyncFunctionDef, ast.ClassDef)):
                    continue
                for fld in ("body", "orelse", "finalbody"):
                    sub = getattr(st, fld, None)
                    if isinstance(sub, list) and sub and isinstance(sub[0], ast.stmt):
                        conv(sub)
                for h in getattr(st, "handlers", []) or []:
                    conv(h.body)
        conv(fn.body)


def _normalise_nested_ifs(tree: ast.Module) -> None:
    """`if a:` whose whole body is `if b: X`, no else on either, is `if a and b: X` (short-circuit evaluation keeps the
    order of the tests).  The merged form is canonical: a statement that follows such a guard then depends on ONE
    condition `not (a and b)`, which the must-hold facts can express, instead of on two nested branches."""
    changed = True
    while changed:
        changed = False
        for n in ast.walk(tree):
            if isinstance(n, ast.If) and not n.orelse and len(n.body) == 1 and isinstance(n.body[0], ast.If) and not n.body[0].orelse \
                    and not any(isinstance(x, ast.NamedExpr) for x in ast.walk(n.body[0].test)):
                inner = n.body[0]
                vals = (list(n.test.values) if isinstance(n.test, ast.BoolOp) and isinstance(n.test.op, ast.And) else [n.test]) + \
                       (list(inner.test.values) if isinstance(inner.test, ast.BoolOp) and isinstance(inner.test.op, ast.And) else [inner.test])
                new = ast.BoolOp(op=ast.And(), values=vals)
                ast.copy_location(new, n.test)
                new.end_lineno, new.end_col_offset = getattr(inner.test, "end_lineno", None), getattr(inner.test, "end_col_offset", None)
                n.test = new
                n.body = inner.body
                changed = True


def _split_disjunctive_guards(tree: ast.Module) -> None:
    """`if p or q: continue` is `if p: continue` followed by `if q: continue` (and `if not (a and b): continue` is the
    same thing written with De Morgan).  The split form is canonical, so that a chain of loop guards and one merged
    guard give the rules the same conditions."""
    def lits(t, negate=False):
        if isinstance(t, ast.UnaryOp) and isinstance(t.op, ast.Not):
            return lits(t.operand, not negate)
        if isinstance(t, ast.BoolOp) and ((isinstance(t.op, ast.Or) and not negate) or (isinstance(t.op, ast.And) and negate)):
            out = []
            for v in t.values:
                out += lits(v, negate)
            return out
        if negate:
            n = ast.UnaryOp(op=ast.Not(), operand=t)
            ast.copy_location(n, t)
            return [n]
        return [t]

    def conv(body):
        out = []
        for st in body:
            if isinstance(st, ast.If) and not st.orelse and len(st.body) == 1 and isinstance(st.body[0], ast.Continue) \
                    and not any(isinstance(x, ast.NamedExpr) for x in ast.walk(st.test)):
                parts = lits(st.test)
                if len(parts) > 1:
                    for p_ in parts:
                        c_ = ast.Continue()
                        ast.copy_location(c_, st.body[0])
                        g = ast.If(test=p_, body=[c_], orelse=[])
                        ast.copy_location(g, p_)
                        g.end_lineno = getattr(p_, "end_lineno", getattr(p_, "lineno", None))
                        out.append(g)
                    continue
            out.append(st)
        return out
    for n in ast.walk(tree):
        if isinstance(n, ast.For) and not n.orelse:
            n.body = conv(n.body)


def _normalise_empty_containers(tree: ast.Module) -> None:
    """`list()`, `dict()` and `tuple()` without arguments are the empty displays `[]`, `{}` and `()` (unless the module
    rebinds those names)."""
    rebound = {n.id for n in ast.walk(tree) if isinstance(n, ast.Name) and isinstance(n.ctx, ast.Store) and n.id in ("list", "dict", "tuple")}
    rebound |= {a.arg for n in ast.walk(tree) if isinstance(n, (ast.FunctionDef, ast.AsyncFunctionDef, ast.Lambda)) for a in n.args.args + n.args.kwonlyargs if a.arg in ("list", "dict", "tuple")}

    class R(ast.NodeTransformer):
        def visit_Call(self, node):
            self.generic_visit(node)
            if isinstance(node.func, ast.Name) and node.func.id in ("list", "dict", "tuple") and node.func.id not in rebound and not node.args and not node.keywords:
                new = {"list": ast.List(elts=[], ctx=ast.Load()), "dict": ast.Dict(keys=[], values=[]), "tuple": ast.Tuple(elts=[], ctx=ast.Load())}[node.func.id]
                ast.copy_location(new, node)
                new.end_lineno, new.end_col_offset = getattr(node, "end_lineno", None), getattr(node, "end_col_offset", None)
                return new
            return node
    R().visit(tree)


def _normalise_explaining_variables(tree: ast.Module) -> None:
    """`t = <test>` immediately followed by `if t:` - with t bound once and read nowhere else in the function - is
    `if <test>:`.  (The must-hold facts are read off the test expressions; an explaining variable would hide them.)"""
    for fn in ast.walk(tree):
        if not isinstance(fn, (ast.FunctionDef, ast.AsyncFunctionDef)):
            continue
        stores, loads = {}, {}
        shared = set()
        for n in ast.walk(fn):
            if isinstance(n, ast.Name):
                d = stores if isinstance(n.ctx, (ast.Store, ast.Del)) else loads
                d[n.id] = d.get(n.id, 0) + 1
            elif isinstance(n, (ast.Global, ast.Nonlocal)):
                shared.update(n.names)
        params = {a.arg for a in fn.args.posonlyargs + fn.args.args + fn.args.kwonlyargs}

        def conv(body):
            i = 0
            while i + 1 < len(body):
                a, f = body[i], body[i + 1]
                if isinstance(a, ast.Assign) and len(a.targets) == 1 and isinstance(a.targets[0], ast.Name) and isinstance(f, ast.If) \
                        and isinstance(f.test, ast.Name) and f.test.id == a.targets[0].id and stores.get(f.test.id) == 1 and loads.get(f.test.id) == 1 \
                        and f.test.id not in params and f.test.id not in shared and isinstance(a.value, (ast.BoolOp, ast.Compare, ast.UnaryOp)):
                    f.test = a.value
                    del body[i]
                    continue
                i += 1
            for st in body:
                if isinstance(st, (ast.FunctionDef, ast.AsyncFunctionDef, ast.ClassDef)):
                    continue
                for fld in ("body", "orelse", "finalbody"):
                    sub = getattr(st, fld, None)
                    if isinstance(sub, list) and sub and isinstance(sub[0], ast.stmt):
                        conv(sub)
                for h in getattr(st, "handlers", []) or []:
                    conv(h.body)
        conv(fn.body)


def _normalise_negated_compares(tree: ast.Module) -> None:
    """`not a in b` is `a not in b`, `not a is b` is `a is not b`, `not a == b` is `a != b` (single-operator comparisons;
    the ordering operators are left alone: `not a < b` is not `a >= b` for sets or NaN)."""
    NEG = {ast.In: ast.NotIn, ast.NotIn: ast.In, ast.Is: ast.IsNot, ast.IsNot: ast.Is, ast.Eq: ast.NotEq, ast.NotEq: ast.Eq}

    class Tr(ast.NodeTransformer):
        def visit_UnaryOp(self, n):
            self.generic_visit(n)
            if isinstance(n.op, ast.Not) and isinstance(n.operand, ast.Compare) and len(n.operand.ops) == 1 and type(n.operand.ops[0]) in NEG:
                c = n.operand
                c.ops = [NEG[type(c.ops[0])]()]
                return ast.copy_location(c, n)
            return n
    Tr().visit(tree)


def _normalise_numeric_augassign(tree: ast.Module) -> None:
    """`n = n - 1` is `n -= 1` (plain name, numeric literal on the right: the value is a number, so rebinding and
    in-place update cannot be told apart)."""
    class Tr(ast.NodeTransformer):
        def visit_Assign(self, n):
            self.generic_visit(n)
            v = n.value
            if len(n.targets) == 1 and isinstance(n.targets[0], ast.Name) and isinstance(v, ast.BinOp) and isinstance(v.left, ast.Name) and v.left.id == n.targets[0].id \
                    and isinstance(v.right, ast.Constant) and isinstance(v.right.value, (int, float)) and not isinstance(v.right.value, bool):
                return ast.copy_location(ast.AugAssign(target=n.targets[0], op=v.op, value=v.right), n)
            return n
    Tr().visit(tree)


def _normalise_partition_loops(tree: ast.Module) -> None:
    """A dict partition built by one loop is the pair of filtered comprehensions:

        A, B = {}, {}                         B = {k: v for k, v in X.items() if k > C}
        for k, v in X.items():         ==>    A = {k: v for k, v in X.items() if k <= C}
            if k > C: B[k] = v
            else: A[k] = v

    (both names bound to empty dict displays earlier in the same statement list and not touched in between)."""
    neg = {ast.Gt: ast.LtE, ast.GtE: ast.Lt, ast.Lt: ast.GtE, ast.LtE: ast.Gt}

    def store_of(body, k, v):
        if len(body) == 1 and isinstance(body[0], ast.Assign) and len(body[0].targets) == 1:
            t = body[0].targets[0]
            if isinstance(t, ast.Subscript) and isinstance(t.value, ast.Name) and isinstance(t.slice, ast.Name) and t.slice.id == k \
                    and isinstance(body[0].value, ast.Name) and body[0].value.id == v:
                return t.value.id
        return None

    def empty_init(st, name):
        """index of `name` in an assignment of empty dict displays, else None"""
        if isinstance(st, ast.Assign) and len(st.targets) == 1:
            t, v = st.targets[0], st.value
            if isinstance(t, ast.Name) and t.id == name and isinstance(v, ast.Dict) and not v.keys:
                return -1
            if isinstance(t, ast.Tuple) and isinstance(v, ast.Tuple) and len(t.elts) == len(v.elts):
                for i, (a, b) in enumerate(zip(t.elts, v.elts)):
                    if isinstance(a, ast.Name) and a.id == name and isinstance(b, ast.Dict) and not b.keys:
                        return i
        return None

    def conv(stmts):
        for idx, st in enumerate(list(stmts)):
            for fld in ("body", "orelse", "finalbody"):
                sub = getattr(st, fld, None)
                if isinstance(sub, list) and sub and isinstance(sub[0], ast.stmt):
                    conv(sub)
            for h in getattr(st, "handlers", []) or []:
                conv(h.body)
            if not (isinstance(st, ast.For) and not st.orelse and isinstance(st.target, ast.Tuple) and len(st.target.elts) == 2
                    and all(isinstance(e, ast.Name) for e in st.target.elts) and isinstance(st.iter, ast.Call) and isinstance(st.iter.func, ast.Attribute)
                    and st.iter.func.attr == "items" and not st.iter.args and len(st.body) == 1 and isinstance(st.body[0], ast.If) and st.body[0].orelse):
                continue
            k, v = st.target.elts[0].id, st.target.elts[1].id
            iff = st.body[0]
            t = iff.test
            if not (isinstance(t, ast.Compare) and len(t.ops) == 1 and type(t.ops[0]) in neg and isinstance(t.left, ast.Name) and t.left.id == k and isinstance(t.comparators[0], ast.Constant)):
                continue
            a, b = store_of(iff.body, k, v), store_of(iff.orelse, k, v)
            if a is None or b is None or a == b:
                continue
            here = stmts.index(st)
            inits = {}
            for nm in (a, b):
                for j in range(here - 1, -1, -1):
                    if empty_init(stmts[j], nm) is not None:
                        inits[nm] = j
                        break
                    if any(isinstance(x, ast.Name) and x.id == nm for x in ast.walk(stmts[j])):
                        break
            if len(inits) != 2:
                continue

            def comp(op, const):
                import copy
                return ast.DictComp(key=ast.Name(id=k, ctx=ast.Load()), value=ast.Name(id=v, ctx=ast.Load()),
                                    generators=[ast.comprehension(target=copy.deepcopy(st.target), iter=copy.deepcopy(st.iter),
                                                                  ifs=[ast.Compare(left=ast.Name(id=k, ctx=ast.Load()), ops=[op()], comparators=[ast.Constant(value=const)])], is_async=0)])
            c = t.comparators[0].value
            na = ast.Assign(targets=[ast.Name(id=a, ctx=ast.Store())], value=comp(type(t.ops[0]), c), type_comment=None)
            nb = ast.Assign(targets=[ast.Name(id=b, ctx=ast.Store())], value=comp(neg[type(t.ops[0])], c), type_comment=None)
            for n_ in (na, nb):
                ast.copy_location(n_, st)
                for x in ast.walk(n_):
                    ast.copy_location(x, st)
                n_.end_lineno, n_.end_col_offset = getattr(st, "end_lineno", None), getattr(st, "end_col_offset", None)
            stmts[here:here + 1] = [na, nb]
            # drop the empty initialisations
            for j in sorted(set(inits.values()), reverse=True):
                ini = stmts[j]
                if isinstance(ini.targets[0], ast.Name):
                    del stmts[j]
                else:
                    keep = [(x, y) for x, y in zip(ini.targets[0].elts, ini.value.elts) if not (isinstance(x, ast.Name) and x.id in (a, b))]
                    if not keep:
                        del stmts[j]
                    elif len(keep) == 1:
                        ini.targets[0], ini.value = keep[0]
                    else:
                        ini.targets[0].elts, ini.value.elts = [x for x, _ in keep], [y for _, y in keep]
    for n in ast.walk(tree):
        if isinstance(n, (ast.FunctionDef, ast.AsyncFunctionDef)):
            conv(n.body)


def _normalise_local_annotations(tree: ast.Module) -> None:
    """Inside function bodies, `x: T = v` is the same statement as `x = v` for every rule
    here: rewrite it to an Assign (the annotation is kept in `.ann`), so that adding or
    removing a local type annotation can never change a verdict.  Class-level and
    module-level annotated assignments (dataclass fields, constants) are left alone."""
    def conv(stmts):
        for i, st in enumerate(stmts):
            if isinstance(st, ast.AnnAssign) and st.value is not None:
                new = ast.Assign(targets=[st.target], value=st.value, type_comment=None)
                ast.copy_location(new, st)
                new.end_lineno, new.end_col_offset = getattr(st, "end_lineno", None), getattr(st, "end_col_offset", None)
                new.ann = st.annotation
                stmts[i] = new
                st = new
            if isinstance(st, ast.ClassDef):
                for sub in st.body:
                    if isinstance(sub, (ast.FunctionDef, ast.AsyncFunctionDef)):
                        conv(sub.body)
                    elif isinstance(sub, ast.ClassDef):
                        conv([sub])
                continue
            for fld in ("body", "orelse", "finalbody"):
                sub = getattr(st, fld, None)
                if isinstance(sub, list) and sub and isinstance(sub[0], ast.stmt):
                    conv(sub)
            for h in getattr(st, "handlers", []) or []:
                conv(h.body)

    for top in tree.body:
        if isinstance(top, (ast.FunctionDef, ast.AsyncFunctionDef)):
            conv(top.body)
        elif isinstance(top, ast.ClassDef):
            conv([top])
        else:
            # functions nested in module-level if / try blocks
            for fld in ("body", "orelse", "finalbody"):
                for sub in getattr(top, fld, []) or []:
                    if isinstance(sub, (ast.FunctionDef, ast.AsyncFunctionDef)):
                        conv(sub.body)
                    elif isinstance(sub, ast.ClassDef):
                        conv([sub])


class AnalysisError(Exception):
    """The analysis itself cannot proceed (vanished anchor, unparsable file, rule
    cannot interpret a function).  Reported as ANALYSIS-ERROR, exit 2."""


def repo_root() -> str:
    return os.environ.get("VT_REPO", "/repo")


@dataclass
class ModuleInfo:
    name: str
    path: str
    relpath: str
    tree: ast.Module
    source: str
    imports: Dict[str, str] = field(default_factory=dict)  # local name -> dotted
    constants: Dict[str, ast.expr] = field(default_factory=dict)  # module-level assigns
    functions: Dict[str, "FuncInfo"] = field(default_factory=dict)
    classes: Dict[str, "ClassInfo"] = field(default_factory=dict)


@dataclass
class ClassInfo:
    qname: str  # ufo2ft.filters.base.BaseFilter
    name: str
    module: ModuleInfo
    node: ast.ClassDef
    base_exprs: List[ast.expr]
    bases: List[str] = field(default_factory=list)  # resolved dotted names
    methods: Dict[str, "FuncInfo"] = field(default_factory=dict)
    attrs: Dict[str, ast.expr] = field(default_factory=dict)  # class-level assigns
    annotations: Dict[str, ast.expr] = field(default_factory=dict)
    outer: Optional["ClassInfo"] = None


@dataclass
class FuncInfo:
    qname: str  # ufo2ft.util:_copyGlyph  /  ufo2ft.filters.base:BaseFilter.__call__
    name: str
    module: ModuleInfo
    node: ast.AST  # FunctionDef | AsyncFunctionDef | Lambda
    cls: Optional[ClassInfo] = None
    parent: Optional["FuncInfo"] = None
    decorators: List[str] = field(default_factory=list)

    @property
    def is_static(self) -> bool:
        return "staticmethod" in self.decorators

    @property
    def is_classmethod(self) -> bool:
        return "classmethod" in self.decorators

    @property
    def is_property(self) -> bool:
        return any(d in ("property", "cached_property") or d.endswith(".setter") for d in self.decorators)

    @property
    def short(self) -> str:
        return self.qname.split(":", 1)[1]

    def loc(self, node: Optional[ast.AST] = None) -> str:
        n = node if node is not None else self.node
        return f"{self.module.relpath}:{getattr(n, 'lineno', '?')}"

    def params(self) -> List[str]:
        a = self.node.args
        out = [x.arg for x in a.posonlyargs + a.args]
        if a.vararg:
            out.append("*" + a.vararg.arg)
        out += [x.arg for x in a.kwonlyargs]
        if a.kwarg:
            out.append("**" + a.kwarg.arg)
        return out


def _dec_name(d: ast.expr) -> str:
    if isinstance(d, ast.Call):
        d = d.func
    parts = []
    while isinstance(d, ast.Attribute):
        parts.append(d.attr)
        d = d.value
    if isinstance(d, ast.Name):
        parts.append(d.id)
    return ".".join(reversed(parts))


class Index:
    def __init__(self, root: Optional[str] = None, overrides: Optional[Dict[str, str]] = None):
        self.root = root or repo_root()
        # in-memory replacement sources, keyed by path relative to Lib/ (used by the
        # thorough tier's self-validation; nothing is written to disk)
        self.overrides = dict(overrides or {})
        self.libdir = os.path.join(self.root, "Lib")
        self.pkgdir = os.path.join(self.libdir, PKG)
        if not os.path.isdir(self.pkgdir):
            raise AnalysisError(f"package directory not found: {self.pkgdir}")
        self.modules: Dict[str, ModuleInfo] = {}
        self.classes: Dict[str, ClassInfo] = {}
        self.functions: Dict[str, FuncInfo] = {}
        self._parents: Dict[int, ast.AST] = {}
        self._func_of_node: Dict[int, FuncInfo] = {}
        self._load()
        self._resolve_bases()

    # ------------------------------------------------------------------ loading
    def _load(self) -> None:
        for dirpath, dirnames, filenames in os.walk(self.pkgdir):
            dirnames[:] = sorted(d for d in dirnames if d != "__pycache__")
            for fn in sorted(filenames):
                if not fn.endswith(".py"):
                    continue
                path = os.path.join(dirpath, fn)
                rel = os.path.relpath(path, self.libdir)
                modname = rel[:-3].replace(os.sep, ".")
                if modname.endswith(".__init__"):
                    modname = modname[: -len(".__init__")]
                if rel in self.overrides:
                    src = self.overrides[rel]
                else:
                    with open(path, "r", encoding="utf-8") as f:
                        src = f.read()
                try:
                    tree = ast.parse(src, filename=path)
                except SyntaxError as e:
                    raise AnalysisError(f"cannot parse {path}: {e}") from e
                _normalise_local_annotations(tree)
                _normalise_negated_compares(tree)
                _normalise_numeric_augassign(tree)
                _normalise_partition_loops(tree)
                _normalise_empty_containers(tree)
                _normalise_namespace_aliases(tree)
                _normalise_returned_temps(tree)
                _normalise_explaining_variables(tree)
                _normalise_nested_ifs(tree)
                if os.environ.get("VT_NO_TRAILING_IF_NORM") != "1":
                    _normalise_trailing_ifs(tree)
                    _split_disjunctive_guards(tree)
                _normalise_negated_compares(tree)  # the canonicalisations above negate tests
                mi = ModuleInfo(modname, path, os.path.relpath(path, self.root), tree, src)
                self.modules[modname] = mi
                self._index_module(mi, is_pkg=fn == "__init__.py")

    def _index_module(self, mi: ModuleInfo, is_pkg: bool) -> None:
        for parent in ast.walk(mi.tree):
            for child in ast.iter_child_nodes(parent):
                self._parents[id(child)] = parent
        pkg_parts = mi.name.split(".") if is_pkg else mi.name.split(".")[:-1]

        def handle_imports(body):
            for st in body:
                if isinstance(st, ast.Import):
                    for a in st.names:
                        if a.asname:
                            mi.imports[a.asname] = a.name
                        else:
                            mi.imports[a.name.split(".")[0]] = a.name.split(".")[0]
                elif isinstance(st, ast.ImportFrom):
                    if st.level:
                        base = pkg_parts[: len(pkg_parts) - (st.level - 1)]
                        mod = ".".join(base + ([st.module] if st.module else []))
                    else:
                        mod = st.module or ""
                    for a in st.names:
                        mi.imports[a.asname or a.name] = f"{mod}.{a.name}"
                elif isinstance(st, (ast.If, ast.Try)):
                    for sub in ast.iter_child_nodes(st):
                        pass
                    handle_imports(getattr(st, "body", []))
                    handle_imports(getattr(st, "orelse", []))
                    for h in getattr(st, "handlers", []):
                        handle_imports(h.body)
                    handle_imports(getattr(st, "finalbody", []))

        handle_imports(mi.tree.body)
        # function-local imports are also recorded (module-wide alias map; names are
        # unique enough in this package and the map is only used for resolution)
        for n in ast.walk(mi.tree):
            if isinstance(n, (ast.FunctionDef, ast.AsyncFunctionDef)):
                local = [s for s in ast.walk(n) if isinstance(s, (ast.Import, ast.ImportFrom))]
                saved = dict(mi.imports)
                handle_imports(local)
                for k, v in list(mi.imports.items()):
                    if k in saved and saved[k] != v:
                        mi.imports[k] = saved[k]  # module-level binding wins

        def index_body(body, cls: Optional[ClassInfo], parent: Optional[FuncInfo], prefix: str):
            for st in body:
                if isinstance(st, (ast.FunctionDef, ast.AsyncFunctionDef)):
                    q = f"{mi.name}:{prefix}{st.name}"
                    fi = FuncInfo(q, st.name, mi, st, cls if parent is None else None, parent,
                                  [_dec_name(d) for d in st.decorator_list])
                    if q in self.functions:
                        # conditional redefinition (e.g. zip_strict, property setter):
                        # keep both, the later under a disambiguated key
                        k = 2
                        while f"{q}#{k}" in self.functions:
                            k += 1
                        fi.qname = f"{q}#{k}"
                    self.functions[fi.qname] = fi
                    if cls is not None and parent is None:
                        if st.name not in cls.methods or not fi.qname.endswith(f"#{2}"):
                            cls.methods.setdefault(st.name, fi)
                    elif cls is None and parent is None:
                        mi.functions.setdefault(st.name, fi)
                    self._mark_func(fi)
                    index_body(st.body, None, fi, f"{prefix}{st.name}.<locals>.")
                elif isinstance(st, ast.ClassDef):
                    q = f"{mi.name}.{prefix}{st.name}".replace(".<locals>.", ".")
                    ci = ClassInfo(q, st.name, mi, st, list(st.bases), outer=cls)
                    self.classes[q] = ci
                    if cls is None and parent is None:
                        mi.classes[st.name] = ci
                    for s2 in st.body:
                        if isinstance(s2, ast.Assign):
                            for t in s2.targets:
                                if isinstance(t, ast.Name):
                                    ci.attrs[t.id] = s2.value
                        elif isinstance(s2, ast.AnnAssign) and isinstance(s2.target, ast.Name):
                            ci.annotations[s2.target.id] = s2.annotation
                            if s2.value is not None:
                                ci.attrs[s2.target.id] = s2.value
                    index_body(st.body, ci, None, f"{prefix}{st.name}.")
                elif isinstance(st, ast.Assign) and cls is None and parent is None:
                    for t in st.targets:
                        if isinstance(t, ast.Name):
                            mi.constants[t.id] = st.value
                elif isinstance(st, ast.AnnAssign) and cls is None and parent is None:
                    if isinstance(st.target, ast.Name) and st.value is not None:
                        mi.constants[st.target.id] = st.value
                elif isinstance(st, (ast.If, ast.Try, ast.With, ast.For, ast.While)):
                    for fld in ("body", "orelse", "finalbody"):
                        index_body(getattr(st, fld, []), cls, parent, prefix)
                    for h in getattr(st, "handlers", []):
                        index_body(h.body, cls, parent, prefix)

        index_body(mi.tree.body, None, None, "")

    def _mark_func(self, fi: FuncInfo) -> None:
        # map every node lexically inside fi (excluding nested defs, which get their own)
        stack = list(ast.iter_child_nodes(fi.node))
        self._func_of_node[id(fi.node)] = fi
        while stack:
            n = stack.pop()
            self._func_of_node[id(n)] = fi
            if isinstance(n, (ast.FunctionDef, ast.AsyncFunctionDef, ast.ClassDef)):
                continue
            stack.extend(ast.iter_child_nodes(n))

    # --------------------------------------------------------------- navigation
    def parent(self, node: ast.AST) -> Optional[ast.AST]:
        return self._parents.get(id(node))

    def ancestors(self, node: ast.AST) -> Iterator[ast.AST]:
        p = self.parent(node)
        while p is not None:
            yield p
            p = self.parent(p)

    def enclosing_function(self, node: ast.AST) -> Optional[FuncInfo]:
        """Innermost def that lexically contains node (a def node maps to itself)."""
        fi = self._func_of_node.get(id(node))
        return fi

    def enclosing_stmt(self, node: ast.AST) -> ast.stmt:
        n = node
        while not isinstance(n, ast.stmt):
            n = self.parent(n)
            if n is None:
                raise AnalysisError("node without enclosing statement")
        return n

    # --------------------------------------------------------------- resolution
    def canonical(self, dotted: str, _depth: int = 0) -> str:
        """Follow package re-export chains: 'ufo2ft.filters.BaseFilter' ->
        'ufo2ft.filters.base.BaseFilter'.  External names are returned unchanged."""
        if _depth > 10 or not dotted.startswith(PKG):
            return dotted
        if dotted in self.modules or dotted in self.classes:
            return dotted
        parts = dotted.split(".")
        for i in range(len(parts) - 1, 0, -1):
            mod = ".".join(parts[:i])
            if mod in self.modules:
                mi = self.modules[mod]
                head, rest = parts[i], parts[i + 1:]
                if head in mi.classes or head in mi.functions or head in mi.constants:
                    return dotted
                if head in mi.imports:
                    tgt = ".".join([mi.imports[head]] + rest)
                    if tgt == dotted:
                        return dotted
                    return self.canonical(tgt, _depth + 1)
                if mod == "ufo2ft.featureWriters.ast":
                    # dynamic re-export of every fontTools.feaLib.ast class
                    return ".".join(["fontTools.feaLib.ast", head] + rest)
                return dotted
        return dotted

    def resolve_expr(self, mi: ModuleInfo, expr: ast.AST, cls: Optional[ClassInfo] = None) -> Optional[str]:
        """Dotted name for a Name/Attribute chain rooted at an imported or
        module-level name; None if rooted elsewhere (local variable, call, ...)."""
        parts = []
        e = expr
        while isinstance(e, ast.Attribute):
            parts.append(e.attr)
            e = e.value
        if not isinstance(e, ast.Name):
            return None
        parts.reverse()
        root = e.id
        if root in mi.imports:
            base = mi.imports[root]
        elif root in mi.classes or root in mi.functions or root in mi.constants:
            base = f"{mi.name}.{root}"
        elif cls is not None and root == cls.name:
            base = cls.qname
        else:
            return None
        return self.canonical(".".join([base] + parts))

    def lookup(self, dotted: str):
        """Package object for a canonical dotted name: ClassInfo | FuncInfo |
        ('const', module, name) | ModuleInfo | None."""
        dotted = self.canonical(dotted)
        if dotted in self.modules:
            return self.modules[dotted]
        if dotted in self.classes:
            return self.classes[dotted]
        if "." in dotted:
            mod, name = dotted.rsplit(".", 1)
            if mod in self.modules:
                mi = self.modules[mod]
                if name in mi.functions:
                    return mi.functions[name]
                if name in mi.constants:
                    return ("const", mi, name)
            if mod in self.classes:
                ci = self.classes[mod]
                m = self.find_method(ci, name)
                if m is not None:
                    return m
                if name in ci.attrs:
                    return ("classattr", ci, name)
        return None

    def _resolve_bases(self) -> None:
        for ci in self.classes.values():
            for b in ci.base_exprs:
                r = self.resolve_expr(ci.module, b, ci.outer)
                if r is None:
                    # nested class referring to a sibling nested class etc.
                    r = ast.unparse(b)
                ci.bases.append(r)

    def mro(self, ci: ClassInfo) -> List[ClassInfo]:
        """Package-internal linearisation (C3 is not needed: single inheritance
        everywhere except mix-ins that are external)."""
        out, seen = [], set()

        def rec(c: ClassInfo):
            if c.qname in seen:
                return
            seen.add(c.qname)
            out.append(c)
            for b in c.bases:
                bc = self.classes.get(b)
                if bc is not None:
                    rec(bc)

        rec(ci)
        return out

    def external_bases(self, ci: ClassInfo) -> List[str]:
        out = []
        for c in self.mro(ci):
            out += [b for b in c.bases if b not in self.classes]
        return out

    def is_subclass(self, ci: ClassInfo, base_qname: str) -> bool:
        return any(c.qname == base_qname for c in self.mro(ci))

    def subclasses(self, base_qname: str, strict: bool = False) -> List[ClassInfo]:
        out = []
        for ci in self.classes.values():
            if self.is_subclass(ci, base_qname) and not (strict and ci.qname == base_qname):
                out.append(ci)
        return sorted(out, key=lambda c: c.qname)

    def find_method(self, ci: ClassInfo, name: str, after: Optional[ClassInfo] = None) -> Optional[FuncInfo]:
        """MRO lookup.  With `after`, start from the class following `after` in the
        MRO (super() semantics)."""
        mro = self.mro(ci)
        if after is not None:
            idx = [c.qname for c in mro].index(after.qname)
            mro = mro[idx + 1:]
        for c in mro:
            if name in c.methods:
                return c.methods[name]
        return None

    def class_attr(self, ci: ClassInfo, name: str) -> Optional[Tuple[ClassInfo, ast.expr]]:
        for c in self.mro(ci):
            if name in c.attrs:
                return c, c.attrs[name]
        return None

    def overriders(self, ci: ClassInfo, name: str) -> List[FuncInfo]:
        """Implementations of method `name` in ci's MRO target plus every strict
        subclass that overrides it (class-hierarchy analysis)."""
        out = []
        m = self.find_method(ci, name)
        if m is not None:
            out.append(m)
        for sc in self.subclasses(ci.qname, strict=True):
            if name in sc.methods and sc.methods[name] not in out:
                out.append(sc.methods[name])
        return out

    def methods_named(self, name: str) -> List[FuncInfo]:
        return [f for f in self.functions.values() if f.cls is not None and f.name == name]

    # -------------------------------------------------------------- accessors
    def get_class(self, qname: str) -> ClassInfo:
        ci = self.classes.get(qname)
        if ci is None:
            raise AnalysisError(f"anchor class vanished: {qname}")
        return ci

    def get_func(self, qname: str) -> FuncInfo:
        fi = self.functions.get(qname)
        if fi is None:
            raise AnalysisError(f"anchor function vanished: {qname}")
        return fi

    def get_method(self, cls_qname: str, name: str, own: bool = False) -> FuncInfo:
        ci = self.get_class(cls_qname)
        m = ci.methods.get(name) if own else self.find_method(ci, name)
        if m is None:
            raise AnalysisError(f"anchor method vanished: {cls_qname}.{name}")
        return m

    def get_module(self, name: str) -> ModuleInfo:
        mi = self.modules.get(name)
        if mi is None:
            raise AnalysisError(f"anchor module vanished: {name}")
        return mi

    # -------------------------------------------------------- constant folding
    def const_eval(self, mi: ModuleInfo, expr: ast.AST, cls: Optional[ClassInfo] = None,
                   env: Optional[dict] = None, _depth: int = 0):
        """Fold literal-ish expressions.  Raises ValueError when not foldable."""
        if _depth > 20:
            raise ValueError("depth")
        ev = lambda e: self.const_eval(mi, e, cls, env, _depth + 1)
        if isinstance(expr, ast.Constant):
            return expr.value
        if isinstance(expr, (ast.List, ast.Tuple, ast.Set)):
            vals = []
            for e in expr.elts:
                if isinstance(e, ast.Starred):
                    vals.extend(ev(e.value))
                else:
                    vals.append(ev(e))
            if isinstance(expr, ast.List):
                return vals
            if isinstance(expr, ast.Tuple):
                return tuple(vals)
            return set(vals)
        if isinstance(expr, ast.Dict):
            out = {}
            for k, v in zip(expr.keys, expr.values):
                if k is None:
                    out.update(ev(v))
                else:
                    out[ev(k)] = ev(v)
            return out
        if isinstance(expr, ast.Name):
            if env and expr.id in env:
                return env[expr.id]
            if cls is not None:
                ca = self.class_attr(cls, expr.id)
                if ca is not None and expr.id in cls.attrs:
                    return self.const_eval(ca[0].module, ca[1], ca[0], env, _depth + 1)
            if expr.id in mi.constants:
                return self.const_eval(mi, mi.constants[expr.id], None, env, _depth + 1)
            if expr.id in mi.imports:
                obj = self.lookup(mi.imports[expr.id])
                if isinstance(obj, tuple) and obj[0] == "const":
                    return self.const_eval(obj[1], obj[1].constants[obj[2]], None, env, _depth + 1)
            if expr.id in ("True", "False", "None"):
                return {"True": True, "False": False, "None": None}[expr.id]
            raise ValueError(f"name {expr.id}")
        if isinstance(expr, ast.Attribute):
            d = self.resolve_expr(mi, expr, cls)
            if d:
                obj = self.lookup(d)
                if isinstance(obj, tuple) and obj[0] == "const":
                    return self.const_eval(obj[1], obj[1].constants[obj[2]], None, env, _depth + 1)
                if isinstance(obj, tuple) and obj[0] == "classattr":
                    return self.const_eval(obj[1].module, obj[1].attrs[obj[2]], obj[1], env, _depth + 1)
                # enum-like member Class.MEMBER
                mod, name = d.rsplit(".", 1)
                if mod in self.classes and name in self.classes[mod].attrs:
                    c = self.classes[mod]
                    return self.const_eval(c.module, c.attrs[name], c, env, _depth + 1)
            raise ValueError("attr")
        if isinstance(expr, ast.BinOp):
            l, r = ev(expr.left), ev(expr.right)
            if isinstance(expr.op, ast.Add):
                return l + r
            if isinstance(expr.op, ast.Mod):
                return l % r
            if isinstance(expr.op, ast.BitOr):
                return l | r
            if isinstance(expr.op, ast.BitAnd):
                return l & r
            if isinstance(expr.op, ast.Sub):
                return l - r
            if isinstance(expr.op, ast.Mult):
                return l * r
            raise ValueError("binop")
        if isinstance(expr, ast.Compare) and len(expr.ops) == 1:
            l, r = ev(expr.left), ev(expr.comparators[0])
            op = expr.ops[0]
            table = {ast.Eq: lambda: l == r, ast.NotEq: lambda: l != r, ast.Lt: lambda: l < r, ast.LtE: lambda: l <= r,
                     ast.Gt: lambda: l > r, ast.GtE: lambda: l >= r, ast.In: lambda: l in r, ast.NotIn: lambda: l not in r,
                     ast.Is: lambda: l is r, ast.IsNot: lambda: l is not r}
            if type(op) in table:
                return table[type(op)]()
            raise ValueError("compare")
        if isinstance(expr, ast.IfExp):
            return ev(expr.body) if ev(expr.test) else ev(expr.orelse)
        if isinstance(expr, ast.BoolOp):
            vals = [ev(v) for v in expr.values]
            if isinstance(expr.op, ast.And):
                out = True
                for v in vals:
                    out = v
                    if not v:
                        break
                return out
            out = False
            for v in vals:
                out = v
                if v:
                    break
            return out
        if isinstance(expr, ast.UnaryOp) and isinstance(expr.op, ast.USub):
            return -ev(expr.operand)
        if isinstance(expr, ast.UnaryOp) and isinstance(expr.op, ast.Not):
            return not ev(expr.operand)
        if isinstance(expr, ast.JoinedStr):
            s = ""
            for v in expr.values:
                if isinstance(v, ast.Constant):
                    s += str(v.value)
                elif isinstance(v, ast.FormattedValue) and v.format_spec is None and v.conversion == -1:
                    s += str(ev(v.value))
                else:
                    raise ValueError("fstring")
            return s
        if isinstance(expr, ast.Call) and isinstance(expr.func, ast.Name) and not expr.keywords:
            fn = expr.func.id
            if fn in ("frozenset", "set", "list", "tuple", "dict", "sorted") and len(expr.args) <= 1:
                arg = ev(expr.args[0]) if expr.args else ()
                return {"frozenset": frozenset, "set": set, "list": list, "tuple": tuple,
                        "dict": dict, "sorted": sorted}[fn](arg)
        if isinstance(expr, ast.Call) and isinstance(expr.func, ast.Name) and expr.func.id == "dict" and not expr.args:
            return {k.arg: ev(k.value) for k in expr.keywords}
        if isinstance(expr, ast.Call) and isinstance(expr.func, ast.Attribute) and not expr.keywords:
            if expr.func.attr == "title" and not expr.args:
                return ev(expr.func.value).title()
            if expr.func.attr == "keys" and not expr.args:
                return list(ev(expr.func.value).keys())
        if isinstance(expr, ast.Subscript):
            base = ev(expr.value)
            if isinstance(expr.slice, ast.Slice):
                lo = ev(expr.slice.lower) if expr.slice.lower else None
                hi = ev(expr.slice.upper) if expr.slice.upper else None
                return base[lo:hi]
            return base[ev(expr.slice)]
        raise ValueError(type(expr).__name__)


# ----------------------------------------------------------- third-party sources

_SITE = None


def site_packages() -> str:
    global _SITE
    if _SITE is None:
        cands = [p for p in sys.path if p.endswith("site-packages") and os.path.isdir(os.path.join(p, "fontTools"))]
        if not cands:
            for p in ("/venv/lib/python3.12/site-packages",):
                if os.path.isdir(os.path.join(p, "fontTools")):
                    cands.append(p)
        if not cands:
            raise AnalysisError("fontTools sources not found (needed for signature agreement rules)")
        _SITE = cands[0]
    return _SITE


_EXT_CACHE: Dict[str, ast.Module] = {}


def external_module(dotted: str) -> ast.Module:
    if dotted in _EXT_CACHE:
        return _EXT_CACHE[dotted]
    base = os.path.join(site_packages(), *dotted.split("."))
    for path in (base + ".py", os.path.join(base, "__init__.py")):
        if os.path.isfile(path):
            with open(path, encoding="utf-8") as f:
                tree = ast.parse(f.read(), filename=path)
            _EXT_CACHE[dotted] = tree
            return tree
    raise AnalysisError(f"third-party module source not found: {dotted}")


def external_class(dotted_module: str, name: str) -> ast.ClassDef:
    tree = external_module(dotted_module)
    for n in tree.body:
        if isinstance(n, ast.ClassDef) and n.name == name:
            return n
    raise AnalysisError(f"third-party class not found: {dotted_module}.{name}")


def external_signature(dotted_module: str, cls: Optional[str], func: str) -> List[str]:
    """Parameter names (without self) of a third-party function or method."""
    tree = external_module(dotted_module)
    body = tree.body
    if cls is not None:
        body = external_class(dotted_module, cls).body
    for n in body:
        if isinstance(n, (ast.FunctionDef, ast.AsyncFunctionDef)) and n.name == func:
            names = [a.arg for a in n.args.posonlyargs + n.args.args] + [a.arg for a in n.args.kwonlyargs]
            if cls is not None and names and names[0] in ("self", "cls"):
                names = names[1:]
            return names
    raise AnalysisError(f"third-party callable not found: {dotted_module}.{cls + '.' if cls else ''}{func}")


def external_init_signature(dotted_module: str, cls: str) -> List[str]:
    """Parameter names of cls.__init__, looked up through the base classes that
    are defined in the same third-party module (no import, ast only)."""
    tree = external_module(dotted_module)
    classes = {n.name: n for n in tree.body if isinstance(n, ast.ClassDef)}
    seen = set()
    work = [cls]
    while work:
        c = work.pop(0)
        if c in seen or c not in classes:
            continue
        seen.add(c)
        for n in classes[c].body:
            if isinstance(n, ast.FunctionDef) and n.name == "__init__":
                names = [a.arg for a in n.args.posonlyargs + n.args.args] + [a.arg for a in n.args.kwonlyargs]
                return names[1:]
        for b in classes[c].bases:
            if isinstance(b, ast.Name):
                work.append(b.id)
    raise AnalysisError(f"third-party constructor not found: {dotted_module}.{cls}.__init__")
