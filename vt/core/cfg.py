"""E2 - per-function control-flow graph, dominators, control dependence,
reaching definitions.  Hand-built over the statement kinds ufo2ft uses."""

from __future__ import annotations

import ast
from dataclasses import dataclass, field
from typing import Dict, Iterable, List, Optional, Set, Tuple

from .astutil import target_names, walk_local
from .index import AnalysisError


@dataclass
class Node:
    id: int
    kind: str  # entry exit stmt test for with try handler assert
    ast: Optional[ast.AST]
    succ: List[Tuple[str, int, bool]] = field(default_factory=list)  # (label, dst, weak)
    pred: List[Tuple[str, int, bool]] = field(default_factory=list)


@dataclass
class Def:
    name: str
    kind: str  # param assign augassign annassign for with except import def walrus comp delete
    binder: ast.AST  # the binding construct (stmt, arg, comprehension, NamedExpr)
    target: Optional[ast.AST]  # target expression the name occurs in
    value: Optional[ast.expr]  # assigned expression (whole RHS / iterable / context expr)
    node: int  # cfg node id (-1 for comprehension-scoped)

    def element(self) -> Tuple[Optional[ast.expr], Optional[str]]:
        """Best expression for the value bound to `name`:
        (expr, how) where how is None (direct), 'iter' (element of expr),
        'unpack' (component of expr that could not be matched positionally),
        'aug' (expr combined with previous value), 'ctx' (context manager)."""
        if self.kind in ("assign", "annassign", "walrus"):
            if isinstance(self.target, ast.Name) or self.target is None:
                return self.value, None
            v = _match_unpack(self.target, self.value, self.name)
            return v if v is not None else (self.value, "unpack")
        if self.kind == "augassign":
            return self.value, "aug"
        if self.kind in ("for", "comp"):
            if isinstance(self.target, ast.Name):
                return self.value, "iter"
            return self.value, "iter-unpack"
        if self.kind == "with":
            return self.value, "ctx"
        return None, self.kind


def _match_unpack(target, value, name):
    if isinstance(target, (ast.Tuple, ast.List)) and isinstance(value, (ast.Tuple, ast.List)):
        if len(target.elts) == len(value.elts) and not any(
            isinstance(e, ast.Starred) for e in target.elts + value.elts
        ):
            for t, v in zip(target.elts, value.elts):
                if isinstance(t, ast.Name) and t.id == name:
                    return v, None
                if isinstance(t, (ast.Tuple, ast.List)) and name in target_names(t):
                    r = _match_unpack(t, v, name)
                    return r if r is not None else (v, "unpack")
    return None


def nnf(e: ast.AST, negate: bool = False) -> ast.AST:
    """Negation normal form of a boolean test: `not` only directly in front of non-boolean operands.  Returns the
    very same node when nothing had to be rewritten."""
    if isinstance(e, ast.UnaryOp) and isinstance(e.op, ast.Not):
        return nnf(e.operand, not negate)
    if isinstance(e, ast.BoolOp):
        vals = [nnf(v, negate) for v in e.values]
        if not negate and all(a is b for a, b in zip(vals, e.values)):
            return e
        op = e.op if not negate else (ast.Or() if isinstance(e.op, ast.And) else ast.And())
        new = ast.BoolOp(op=op, values=vals)
        return ast.copy_location(new, e)
    if not negate:
        return e
    if isinstance(e, ast.Compare) and len(e.ops) == 1:
        flip = {ast.Eq: ast.NotEq, ast.NotEq: ast.Eq, ast.Is: ast.IsNot, ast.IsNot: ast.Is, ast.In: ast.NotIn, ast.NotIn: ast.In}
        if type(e.ops[0]) in flip:
            new = ast.Compare(left=e.left, ops=[flip[type(e.ops[0])]()], comparators=e.comparators)
            return ast.copy_location(new, e)
    return ast.copy_location(ast.UnaryOp(op=ast.Not(), operand=e), e)


def _neg_cost(e: ast.AST) -> int:
    n = 0
    for x in ast.walk(e):
        if isinstance(x, ast.UnaryOp) and isinstance(x.op, ast.Not):
            n += 1
        elif isinstance(x, ast.Compare) and len(x.ops) == 1 and isinstance(x.ops[0], (ast.NotEq, ast.IsNot, ast.NotIn)):
            n += 1
        if not isinstance(x, (ast.BoolOp, ast.UnaryOp, ast.And, ast.Or, ast.Not)) and x is not e:
            pass
    return n


@dataclass
class Cond:
    test: ast.AST  # the controlling expression (or For/Try stmt for loop/exc kinds)
    polarity: object  # True/False for tests; 'iter'/'exc'/'handler' otherwise
    kind: str  # if while assert boolop ifexp comp for try
    raw: object = None  # the test as written, when `test` was normalised (leading `not`s stripped)
    raw_polarity: object = None

    def normalised(self) -> "Cond":
        """`not X` taken with polarity P is X taken with polarity not P; negations are pushed inside and / or
        (`not (not a and not b)` is `a or b`), so that De Morgan variants of one test look the same to every rule."""
        t, p = self.test, self.polarity
        if p not in (True, False):
            return self
        changed = False
        while isinstance(t, ast.UnaryOp) and isinstance(t.op, ast.Not):
            t, p, changed = t.operand, (not p), True
        if isinstance(t, ast.BoolOp):
            # two equivalent readings: (t, p) and (nnf(not t), not p); the one with fewer negations is canonical
            alt = nnf(t, negate=True)
            a1, a2 = nnf(t), alt
            if _neg_cost(a2) < _neg_cost(a1):
                t, p, changed = a2, (not p), True
            elif a1 is not t:
                t, changed = a1, True
        if p is False and isinstance(t, ast.Compare) and len(t.ops) == 1 and isinstance(t.ops[0], (ast.Eq, ast.NotEq, ast.Is, ast.IsNot, ast.In, ast.NotIn)):
            # `x is None` not holding is `x is not None` holding: one reading (the one that holds) for every rule
            t, p, changed = nnf(t, negate=True), True, True
        if not changed:
            return self
        return Cond(t, p, self.kind, raw=self.test, raw_polarity=self.polarity)

    @property
    def loc(self) -> ast.AST:
        """the node of the source tree this condition sits at (a normalised `test` can be a rebuilt expression that has
        no parent / CFG owner): use it for every positional query (ancestors, node_of, reaching, where)"""
        return self.raw if self.raw is not None else self.test

    def key(self):
        return (ast.dump(self.test), self.polarity)


class CFG:
    def __init__(self, func_node: ast.AST, parent_of):
        self.func = func_node
        self._parent_of = parent_of
        self.nodes: List[Node] = []
        self.owner: Dict[int, int] = {}  # id(ast) -> cfg node id
        self.entry = self._new("entry", None)
        self.exit = self._new("exit", None)
        body = func_node.body if not isinstance(func_node, ast.Lambda) else [ast.Expr(func_node.body)]
        if isinstance(func_node, ast.Lambda):
            self.owner[id(func_node.body)] = -1
        dangling = self._seq(body, [(self.entry, "")], _Ctx())
        for n, lab in dangling:
            self._edge(n, self.exit, lab)
        self._reach = None
        self._dom = None
        self._pdom = None
        self._cd = None
        self._rd_in = None
        self._defs: List[Def] = []
        self._gen: Dict[int, List[int]] = {}
        self._self_attrs: Set[str] = set()

    # ------------------------------------------------------------- construction
    def _new(self, kind, a) -> int:
        n = Node(len(self.nodes), kind, a)
        self.nodes.append(n)
        if a is not None:
            self.owner[id(a)] = n.id
        return n.id

    def _edge(self, src, dst, label="", weak=False):
        self.nodes[src].succ.append((label, dst, weak))
        self.nodes[dst].pred.append((label, src, weak))

    def _connect(self, dangling, dst):
        for n, lab in dangling:
            self._edge(n, dst, lab)

    def _seq(self, stmts, dangling, ctx):
        for st in stmts:
            dangling = self._stmt(st, dangling, ctx)
        return dangling

    def _stmt(self, st, dangling, ctx):
        if isinstance(st, ast.If):
            t = self._new("test", st.test)
            self.owner[id(st)] = t
            self._connect(dangling, t)
            self._weak_exc(t, ctx)
            out = self._seq(st.body, [(t, True)], ctx)
            out += self._seq(st.orelse, [(t, False)], ctx)
            return out
        if isinstance(st, ast.While):
            t = self._new("test", st.test)
            self.owner[id(st)] = t
            self._connect(dangling, t)
            self._weak_exc(t, ctx)
            lctx = ctx.loop()
            body_out = self._seq(st.body, [(t, True)], lctx)
            self._connect(body_out + lctx.continues, t)
            const_true = isinstance(st.test, ast.Constant) and bool(st.test.value)
            out = self._seq(st.orelse, [] if const_true else [(t, False)], ctx)
            return out + lctx.breaks
        if isinstance(st, (ast.For, ast.AsyncFor)):
            f = self._new("for", st)
            self.owner[id(st.target)] = f
            self.owner[id(st.iter)] = f
            self._connect(dangling, f)
            self._weak_exc(f, ctx)
            lctx = ctx.loop()
            body_out = self._seq(st.body, [(f, "iter")], lctx)
            self._connect(body_out + lctx.continues, f)
            out = self._seq(st.orelse, [(f, "done")], ctx)
            return out + lctx.breaks
        if isinstance(st, (ast.With, ast.AsyncWith)):
            w = self._new("with", st)
            for it in st.items:
                self.owner[id(it)] = w
            self._connect(dangling, w)
            self._weak_exc(w, ctx)
            return self._seq(st.body, [(w, "")], ctx)
        if isinstance(st, ast.Try) or type(st).__name__ == "TryStar":
            tn = self._new("try", st)
            self._connect(dangling, tn)
            handlers = []
            for h in st.handlers:
                hn = self._new("handler", h)
                handlers.append(hn)
                self._edge(tn, hn, "exc")
            tctx = ctx.tryblock(handlers, bool(st.finalbody))
            body_out = self._seq(st.body, [(tn, "")], tctx)
            else_out = self._seq(st.orelse, body_out, ctx)
            outs = list(else_out)
            for h, hn in zip(st.handlers, handlers):
                outs += self._seq(h.body, [(hn, "")], ctx)
            if st.finalbody:
                # finally runs on normal completion; abnormal exits (return/raise
                # inside) are connected straight to EXIT and the finally body is
                # additionally entered through a weak edge from the try node so
                # that its statements are reachable for def-use purposes
                fin_entry_marker = len(self.nodes)
                outs2 = self._seq(st.finalbody, outs if outs else [(tn, "fin")], ctx)
                if outs and fin_entry_marker < len(self.nodes):
                    self._edge(tn, fin_entry_marker, "fin", weak=True)
                return outs2
            return outs
        if isinstance(st, (ast.FunctionDef, ast.AsyncFunctionDef, ast.ClassDef)):
            n = self._new("stmt", st)
            self._connect(dangling, n)
            return [(n, "")]
        if type(st).__name__ == "Match":
            raise AnalysisError("match statement not supported by the CFG builder")
        # simple statements
        if isinstance(st, ast.Assert):
            n = self._new("assert", st)
            self.owner[id(st.test)] = n
            self._connect(dangling, n)
            self._weak_exc(n, ctx)
            self._edge(n, self.exit, False)
            return [(n, True)]
        n = self._new("stmt", st)
        self._connect(dangling, n)
        self._weak_exc(n, ctx)
        if isinstance(st, ast.Return):
            self._edge(n, self.exit, "return")
            return []
        if isinstance(st, ast.Raise):
            if ctx.handlers:
                for h in ctx.handlers:
                    self._edge(n, h, "raise")
            else:
                self._edge(n, self.exit, "raise")
            return []
        if isinstance(st, ast.Break):
            if ctx.breaks is None:
                raise AnalysisError("break outside loop")
            ctx.breaks.append((n, "break"))
            return []
        if isinstance(st, ast.Continue):
            ctx.continues.append((n, "continue"))
            return []
        return [(n, "")]

    def _weak_exc(self, n, ctx):
        for h in ctx.handlers:
            self._edge(n, h, "exc", weak=True)

    # ------------------------------------------------------------------ lookup
    def node_of(self, a: ast.AST) -> Optional[int]:
        """CFG node that evaluates AST node `a` (innermost owning statement/test)."""
        cur = a
        while cur is not None:
            nid = self.owner.get(id(cur))
            if nid is not None:
                return nid if nid >= 0 else None
            if cur is self.func:
                return None
            cur = self._parent_of(cur)
        return None

    # ---------------------------------------------------------------- analyses
    def reachable(self) -> Set[int]:
        if self._reach is None:
            seen = {self.entry}
            st = [self.entry]
            while st:
                n = st.pop()
                for _l, d, _w in self.nodes[n].succ:
                    if d not in seen:
                        seen.add(d)
                        st.append(d)
            self._reach = seen
        return self._reach

    def _strong_succ(self, n):
        return [(l, d) for l, d, w in self.nodes[n].succ if not w]

    def _strong_pred(self, n):
        return [(l, s) for l, s, w in self.nodes[n].pred if not w]

    def dominators(self) -> Dict[int, Set[int]]:
        if self._dom is None:
            self._dom = self._domtree(self.entry, lambda n: [s for _l, s, _w in self.nodes[n].pred],
                                      self.reachable())
        return self._dom

    def postdominators(self) -> Dict[int, Set[int]]:
        if self._pdom is None:
            # nodes that cannot reach exit (infinite loops) are ignored
            back = {self.exit}
            st = [self.exit]
            while st:
                n = st.pop()
                for _l, s in self._strong_pred(n):
                    if s not in back:
                        back.add(s)
                        st.append(s)
            nodes = back & self.reachable() | {self.exit}
            self._pdom = self._domtree(self.exit, lambda n: [d for _l, d in self._strong_succ(n)], nodes)
        return self._pdom

    @staticmethod
    def _domtree(root, preds, nodes) -> Dict[int, Set[int]]:
        dom = {n: set(nodes) for n in nodes}
        dom[root] = {root}
        changed = True
        order = sorted(nodes)
        while changed:
            changed = False
            for n in order:
                if n == root:
                    continue
                ps = [p for p in preds(n) if p in nodes]
                if not ps:
                    new = {n}
                else:
                    new = set.intersection(*(dom[p] for p in ps)) | {n}
                if new != dom[n]:
                    dom[n] = new
                    changed = True
        return dom

    def dominates(self, a: int, b: int) -> bool:
        return a in self.dominators().get(b, set())

    def control_deps(self) -> Dict[int, Set[Tuple[int, object]]]:
        """node -> {(controller node, edge label)} (direct control dependence)."""
        if self._cd is None:
            pdom = self.postdominators()
            cd: Dict[int, Set[Tuple[int, object]]] = {n.id: set() for n in self.nodes}
            ipdom = {}
            for n, ds in pdom.items():
                strict = ds - {n}
                # immediate postdominator = the strict postdominator that is
                # postdominated by all other strict postdominators
                best = None
                for c in strict:
                    if all(o in pdom.get(c, ()) for o in strict):
                        best = c
                        break
                ipdom[n] = best
            for a in pdom:
                succs = self._strong_succ(a)
                if len(succs) < 2:
                    continue
                for label, b in succs:
                    if b not in pdom:
                        continue
                    if b in pdom[a] and b != a:
                        continue
                    stop = ipdom.get(a)
                    cur = b
                    guard = 0
                    while cur is not None and cur != stop and guard < 10000:
                        cd[cur].add((a, label))
                        cur = ipdom.get(cur)
                        guard += 1
            self._cd = cd
        return self._cd

    def control_conditions(self, nid: int, transitive: bool = True, universal: bool = True) -> List[Tuple[int, object]]:
        """Guards in force when `nid` executes: the (transitive) control
        dependences whose controller dominates the dependent node.  The
        dominance filter drops loop-carried dependences ("the next iteration is
        only reached if the previous one did not raise")."""
        cd = self.control_deps()
        dom = self.dominators()
        out, seen = [], set()
        work = [nid]
        while work:
            n = work.pop()
            for c, lab in sorted(cd.get(n, ()), key=lambda x: (x[0], str(x[1]))):
                if (c, lab) in seen:
                    continue
                if c == n or c not in dom.get(n, ()):
                    continue
                # in force = every path entry ->* nid takes the edge (c, lab): a branch
                # that can leave early (assert / raise) makes the code after the join
                # control dependent on the *other* branch as well, without that
                # branch's condition holding on all paths
                if universal and nid != self.entry and self.exists_path_edges(self.entry, nid, forbidden_edges=[(c, lab)]):
                    seen.add((c, lab))
                    continue
                seen.add((c, lab))
                out.append((c, lab))
                if transitive and c != n:
                    work.append(c)
        return out

    def exists_path(self, src: int, dsts: Iterable[int], avoid: Iterable[int] = (), strong_only: bool = True) -> bool:
        """Is there a CFG path src ->* any(dsts) that touches none of `avoid`
        (src itself may be in avoid only if it is also the start and not a dst)?"""
        dsts, avoid = set(dsts), set(avoid)
        seen = {src}
        st = [src]
        while st:
            n = st.pop()
            for _l, d, w in self.nodes[n].succ:
                if w and strong_only:
                    continue
                if d in avoid and d not in dsts:
                    continue
                if d in dsts and d not in avoid:
                    return True
                if d in dsts and d in avoid:
                    continue
                if d not in seen:
                    seen.add(d)
                    st.append(d)
        return False

    def exists_path_edges(self, src: int, dst: int, avoid_nodes: Iterable[int] = (), forbidden_edges: Iterable[Tuple[int, object]] = ()) -> bool:
        """Path src ->+ dst that visits none of avoid_nodes (other than the
        endpoints) and uses none of the (node, label) edges in forbidden_edges."""
        avoid, forb = set(avoid_nodes), set(forbidden_edges)
        seen = set()
        st = [src]
        while st:
            n = st.pop()
            for lab, d, _w in self.nodes[n].succ:
                if (n, lab) in forb:
                    continue
                if d == dst:
                    return True
                if d in avoid or d in seen:
                    continue
                seen.add(d)
                st.append(d)
        return False

    def falsy_edges(self, name: str) -> List[Tuple[int, object]]:
        """CFG edges along which local `name` is known to be falsy / None:
        False edge of `if name`, True edge of `if not name` / `name is None` /
        `name == ""`."""
        out = []
        for n in self.nodes:
            if n.kind != "test":
                continue
            t = n.ast
            neg = False
            while isinstance(t, ast.UnaryOp) and isinstance(t.op, ast.Not):
                t = t.operand
                neg = not neg
            if isinstance(t, ast.Name) and t.id == name:
                out.append((n.id, True if neg else False))
            elif isinstance(t, ast.Compare) and len(t.ops) == 1 and isinstance(t.left, ast.Name) and t.left.id == name:
                c = t.comparators[0]
                if isinstance(c, ast.Constant) and not c.value and isinstance(t.ops[0], (ast.Is, ast.Eq)):
                    out.append((n.id, False if neg else True))
                elif isinstance(c, ast.Constant) and not c.value and isinstance(t.ops[0], (ast.IsNot, ast.NotEq)):
                    out.append((n.id, True if neg else False))
        return out

    def def_reaches_only_when_falsy(self, d: "Def", use: ast.AST) -> bool:
        """Every path from definition d to the node evaluating `use` (without an
        intervening redefinition) crosses an edge on which the variable is
        falsy."""
        un = self.node_of(use)
        if un is None or d.node < 0:
            return False
        others = [x.node for x in self.defs_of(d.name) if x.node != d.node and x.kind != "delete"]
        if d.node == un:
            return False
        return not self.exists_path_edges(d.node, un, avoid_nodes=others, forbidden_edges=self.falsy_edges(d.name))

    def return_nodes(self) -> List[int]:
        return [n.id for n in self.nodes if n.kind == "stmt" and isinstance(n.ast, ast.Return) and n.id in self.reachable()]

    def normal_exit_preds(self) -> List[int]:
        """Nodes from which the function returns normally (explicit return or
        falling off the end)."""
        out = []
        for lab, s, w in self.nodes[self.exit].pred:
            if w or s not in self.reachable():
                continue
            if lab in ("raise", False):
                continue
            out.append(s)
        return out

    # ------------------------------------------------------ reaching definitions
    def _collect_defs(self):
        if self._defs:
            return
        fn = self.func
        if not isinstance(fn, ast.Lambda) or True:
            a = fn.args
            allargs = a.posonlyargs + a.args + a.kwonlyargs + ([a.vararg] if a.vararg else []) + ([a.kwarg] if a.kwarg else [])
            for arg in allargs:
                self._add_def(Def(arg.arg, "param", arg, None, None, self.entry))
        for n in self.nodes:
            a = n.ast
            if a is None:
                continue
            if n.kind == "stmt":
                if isinstance(a, ast.Assign):
                    for t in a.targets:
                        for nm in target_names(t):
                            self._add_def(Def(nm, "assign", a, t, a.value, n.id))
                        # flow-sensitive view of `self.<attr> = value` inside one function
                        for tt in (t.elts if isinstance(t, (ast.Tuple, ast.List)) else [t]):
                            if isinstance(tt, ast.Attribute) and isinstance(tt.value, ast.Name) and tt.value.id == "self":
                                self._add_def(Def("self." + tt.attr, "assign", a, tt if tt is t else t, a.value, n.id))
                                self._self_attrs.add(tt.attr)
                elif isinstance(a, ast.AugAssign):
                    for nm in target_names(a.target):
                        self._add_def(Def(nm, "augassign", a, a.target, a.value, n.id))
                elif isinstance(a, ast.AnnAssign):
                    if a.value is not None:
                        for nm in target_names(a.target):
                            self._add_def(Def(nm, "annassign", a, a.target, a.value, n.id))
                elif isinstance(a, (ast.Import, ast.ImportFrom)):
                    for al in a.names:
                        nm = (al.asname or al.name).split(".")[0]
                        self._add_def(Def(nm, "import", a, None, None, n.id))
                elif isinstance(a, (ast.FunctionDef, ast.AsyncFunctionDef, ast.ClassDef)):
                    self._add_def(Def(a.name, "def", a, None, None, n.id))
                elif isinstance(a, ast.Delete):
                    for t in a.targets:
                        if isinstance(t, ast.Name):
                            self._add_def(Def(t.id, "delete", a, t, None, n.id))
                self._walrus(a, n.id)
            elif n.kind == "for":
                for nm in target_names(a.target):
                    self._add_def(Def(nm, "for", a, a.target, a.iter, n.id))
                self._walrus(a.iter, n.id)
            elif n.kind == "with":
                for it in a.items:
                    if it.optional_vars is not None:
                        for nm in target_names(it.optional_vars):
                            self._add_def(Def(nm, "with", a, it.optional_vars, it.context_expr, n.id))
                    self._walrus(it.context_expr, n.id)
            elif n.kind == "handler":
                if a.name:
                    self._add_def(Def(a.name, "except", a, None, a.type, n.id))
            elif n.kind in ("test", "assert"):
                self._walrus(a if n.kind == "test" else a.test, n.id)
        for attr in sorted(self._self_attrs):
            self._add_def(Def("self." + attr, "entry", self.func, None, None, self.entry))

    def _walrus(self, a, nid):
        if isinstance(a, (ast.FunctionDef, ast.AsyncFunctionDef, ast.ClassDef)):
            return
        for sub in walk_local(a):
            if isinstance(sub, ast.NamedExpr) and isinstance(sub.target, ast.Name):
                self._add_def(Def(sub.target.id, "walrus", sub, sub.target, sub.value, nid))

    def _add_def(self, d: Def):
        self._gen.setdefault(d.node, []).append(len(self._defs))
        self._defs.append(d)

    def _reaching(self):
        if self._rd_in is not None:
            return
        self._collect_defs()
        by_name: Dict[str, Set[int]] = {}
        for i, d in enumerate(self._defs):
            by_name.setdefault(d.name, set()).add(i)
        IN: Dict[int, Set[int]] = {n.id: set() for n in self.nodes}
        OUT: Dict[int, Set[int]] = {n.id: set() for n in self.nodes}
        work = [n.id for n in self.nodes]
        inwork = set(work)
        while work:
            n = work.pop(0)
            inwork.discard(n)
            ins = set()
            for _l, p, _w in self.nodes[n].pred:
                ins |= OUT[p]
            IN[n] = ins
            gen = self._gen.get(n, [])
            out = set(ins)
            # all defs of one node apply together; a name defined here kills others
            names = {self._defs[i].name for i in gen}
            if names:
                out = {i for i in out if self._defs[i].name not in names}
                out |= set(gen)
            if out != OUT[n]:
                OUT[n] = out
                for _l, s, _w in self.nodes[n].succ:
                    if s not in inwork:
                        inwork.add(s)
                        work.append(s)
        self._rd_in, self._rd_out = IN, OUT

    def defs_of(self, name: str) -> List[Def]:
        self._collect_defs()
        return [d for d in self._defs if d.name == name]

    def reaching_defs(self, name: str, at: ast.AST, after: bool = False) -> List[Def]:
        """Definitions of local `name` that reach the CFG node evaluating `at`
        (its IN set; OUT set with after=True).  Comprehension / lambda scoped
        bindings between `at` and the function take precedence."""
        cur = at
        while cur is not None and cur is not self.func:
            par = self._parent_of(cur)
            if isinstance(par, (ast.ListComp, ast.SetComp, ast.GeneratorExp, ast.DictComp)):
                for g in par.generators:
                    if name in target_names(g.target):
                        # a generator's own iter is evaluated before its target binds
                        if cur is g.iter or _contains(g.iter, at) and cur is g:
                            continue
                        if _contains(g.iter, at) and par.generators.index(g) == 0:
                            continue
                        return [Def(name, "comp", g, g.target, g.iter, -1)]
            if isinstance(par, ast.Lambda):
                la = par.args
                for arg in la.posonlyargs + la.args + la.kwonlyargs + ([la.vararg] if la.vararg else []) + ([la.kwarg] if la.kwarg else []):
                    if arg.arg == name:
                        return [Def(name, "param", arg, None, None, -1)]
            cur = par
        self._reaching()
        nid = self.node_of(at)
        if nid is None:
            return []
        pool = self._rd_out[nid] if after else self._rd_in[nid]
        return [self._defs[i] for i in sorted(pool) if self._defs[i].name == name and self._defs[i].kind != "delete"]


def _contains(root: ast.AST, node: ast.AST) -> bool:
    return any(n is node for n in ast.walk(root))


class _Ctx:
    def __init__(self, breaks=None, continues=None, handlers=(), fin=False):
        self.breaks = breaks
        self.continues = continues
        self.handlers = list(handlers)
        self.fin = fin

    def loop(self):
        return _Ctx([], [], self.handlers, self.fin)

    def tryblock(self, handlers, fin):
        # inner handlers shadow outer ones (approximation: an exception in the try
        # body goes to one of its own handlers)
        return _Ctx(self.breaks, self.continues, handlers if handlers else self.handlers, fin or self.fin)


# ----------------------------------------------------------------- cond helper

def expr_conditions(node: ast.AST, stop: ast.AST, parent_of) -> List[Cond]:
    """Expression-level guards between `node` and the enclosing statement /
    test `stop`: short-circuit operands, conditional expressions, comprehension
    filters.  Does not cross lambda boundaries."""
    out: List[Cond] = []
    cur = node
    while cur is not None and cur is not stop:
        par = parent_of(cur)
        if par is None:
            break
        if isinstance(par, ast.BoolOp):
            idx = next((i for i, v in enumerate(par.values) if v is cur), None)
            if idx:
                pol = isinstance(par.op, ast.And)
                for v in par.values[:idx]:
                    out.append(Cond(v, pol, "boolop"))
        elif isinstance(par, ast.IfExp):
            if cur is par.body:
                out.append(Cond(par.test, True, "ifexp"))
            elif cur is par.orelse:
                out.append(Cond(par.test, False, "ifexp"))
        elif isinstance(par, (ast.ListComp, ast.SetComp, ast.GeneratorExp, ast.DictComp)):
            is_elt = cur is getattr(par, "elt", None) or cur is getattr(par, "key", None) or cur is getattr(par, "value", None)
            if is_elt:
                for g in par.generators:
                    for c in g.ifs:
                        out.append(Cond(c, True, "comp"))
        elif isinstance(par, ast.comprehension):
            comp = parent_of(par)
            gens = comp.generators
            gi = gens.index(par)
            if cur in par.ifs:
                for c in par.ifs[: par.ifs.index(cur)]:
                    out.append(Cond(c, True, "comp"))
                for g in gens[:gi]:
                    for c in g.ifs:
                        out.append(Cond(c, True, "comp"))
            elif cur is par.iter:
                for g in gens[:gi]:
                    for c in g.ifs:
                        out.append(Cond(c, True, "comp"))
        elif isinstance(par, ast.Lambda):
            break
        cur = par
    return out
