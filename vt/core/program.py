"""Facade: Index + cached CFGs + call resolution + guard queries."""

from __future__ import annotations

import ast
import copy
import os
from typing import Dict, Iterable, List, Optional, Sequence, Set, Tuple, Union

from . import astutil as A
from .cfg import CFG, Cond, Def, expr_conditions
from .index import AnalysisError, ClassInfo, FuncInfo, Index, ModuleInfo

Target = Union[FuncInfo, ClassInfo, str]


class Program:
    def __init__(self, root: Optional[str] = None, overrides: Optional[Dict[str, str]] = None):
        self.ix = Index(root, overrides)
        self._cfgs: Dict[str, CFG] = {}
        self.stats = {"calls": 0, "resolved": 0, "by_name": 0, "external": 0, "unresolved": 0}
        self._inline_string_constants()
        if not os.environ.get("VT_NO_HELPER_INLINING"):
            self._inline_trivial_helpers()
        self._normalise_call_keywords()

    # ---------------------------------------------------------------- normalisation
    def _inline_string_constants(self) -> None:
        """`lib[SOME_KEY]` with `SOME_KEY = "public.x"` at module level (here or in another module of the package) is
        `lib["public.x"]`: loads of such names inside functions are replaced by the string they stand for, so that
        hoisting a literal into a named constant (or inlining one) can never change a verdict or the key of a finding.
        Only names bound exactly once, at module level, to a string literal qualify; third-party constants stay names."""
        ix = self.ix
        table: Dict[Tuple[str, str], str] = {}
        for mi in ix.modules.values():
            counts: Dict[str, int] = {}
            for n in ast.walk(mi.tree):
                if isinstance(n, ast.Name) and isinstance(n.ctx, (ast.Store, ast.Del)):
                    counts[n.id] = counts.get(n.id, 0) + 1
                elif isinstance(n, (ast.Global, ast.Nonlocal)):
                    for nm in n.names:
                        counts[nm] = 99
            for nm, v in mi.constants.items():
                if isinstance(v, ast.Constant) and isinstance(v.value, str) and counts.get(nm) == 1:
                    table[(mi.name, nm)] = v.value
        for fi in list(ix.functions.values()):
            if isinstance(fi.node, ast.Lambda):
                continue
            mi = fi.module
            local = {a.arg for a in fi.node.args.posonlyargs + fi.node.args.args + fi.node.args.kwonlyargs}
            local |= {n.id for n in ast.walk(fi.node) if isinstance(n, ast.Name) and isinstance(n.ctx, (ast.Store, ast.Del))}
            for n in list(A.body_nodes(fi.node)):
                if not (isinstance(n, ast.Name) and isinstance(n.ctx, ast.Load)) or n.id in local:
                    continue
                val = table.get((mi.name, n.id))
                if val is None and n.id in mi.imports:
                    dotted = mi.imports[n.id]
                    if "." in dotted:
                        mod, nm = dotted.rsplit(".", 1)
                        val = table.get((mod, nm))
                if val is None:
                    continue
                par = ix.parent(n)
                if par is None:
                    continue
                new = ast.Constant(value=val)
                ast.copy_location(new, n)
                new.end_lineno, new.end_col_offset = getattr(n, "end_lineno", None), getattr(n, "end_col_offset", None)
                new.const_name = n.id
                done = False
                for fld, old in ast.iter_fields(par):
                    if old is n:
                        setattr(par, fld, new)
                        done = True
                    elif isinstance(old, list):
                        for i, x in enumerate(old):
                            if x is n:
                                old[i] = new
                                done = True
                if done:
                    ix._parents[id(new)] = par

    # names the rules know functions by: a helper the rules talk about is analysed where it is
    _ANCHORED: Optional[set] = None

    @classmethod
    def _anchored_names(cls) -> set:
        if cls._ANCHORED is None:
            import re
            names: set = set()
            base = os.path.dirname(os.path.dirname(os.path.abspath(__file__)))
            for sub in ("rules", "core"):
                d = os.path.join(base, sub)
                for fn in sorted(os.listdir(d)):
                    if not fn.endswith(".py"):
                        continue
                    try:
                        tree = ast.parse(open(os.path.join(d, fn), encoding="utf-8").read())
                    except (OSError, SyntaxError):
                        continue
                    for n in ast.walk(tree):
                        if isinstance(n, ast.Constant) and isinstance(n.value, str):
                            names.update(re.findall(r"[A-Za-z_][A-Za-z0-9_]*", n.value))
            cls._ANCHORED = names
        return cls._ANCHORED

    def _inline_trivial_helpers(self) -> None:
        """Extract-function refactoring read backwards: a call of a private-to-the-analysis helper - a function or method
        of the same module that no rule refers to by name, whose body is straight-line (`x = E` of fresh locals used once,
        then `return E`) - is replaced by the returned expression with the arguments substituted.  The helper itself
        stays in the index and is still analysed as a function.  So moving an expression into a helper (or back) does
        not change what any rule sees at the call site."""
        ix = self.ix
        anchored = self._anchored_names()

        def summary(f: FuncInfo):
            """(param names, defaults, expression) or None"""
            node = f.node
            if isinstance(node, ast.Lambda) or isinstance(node, ast.AsyncFunctionDef) or f.name in anchored or f.parent is not None:
                return None
            decs = [_dec(d) for d in node.decorator_list]
            if any(d not in ("staticmethod",) for d in decs):
                return None
            a = node.args
            if a.vararg or a.kwarg or a.posonlyargs or a.kwonlyargs:
                return None
            params = [x.arg for x in a.args]
            defaults = {}
            for x, d in zip(a.args[len(a.args) - len(a.defaults):], a.defaults):
                if not isinstance(d, ast.Constant):
                    return None
                defaults[x.arg] = d
            body = [s_ for s_ in node.body if not (isinstance(s_, ast.Expr) and isinstance(s_.value, ast.Constant))]
            if not body or not isinstance(body[-1], ast.Return) or body[-1].value is None:
                return None
            expr = body[-1].value
            local_vals = {}
            for s_ in body[:-1]:
                if not (isinstance(s_, ast.Assign) and len(s_.targets) == 1 and isinstance(s_.targets[0], ast.Name)):
                    return None
                nm = s_.targets[0].id
                if nm in params or nm in local_vals:
                    return None
                local_vals[nm] = s_.value
            whole = list(local_vals.values()) + [expr]
            for e in whole:
                for n in ast.walk(e):
                    if isinstance(n, (ast.Lambda, ast.NamedExpr, ast.Yield, ast.YieldFrom, ast.Await)):
                        return None
                    if isinstance(n, ast.Name) and n.id in ("super", "__class__", "locals", "vars"):
                        return None
                    if isinstance(n, ast.Name) and isinstance(n.ctx, (ast.Store, ast.Del)) and (n.id in params or n.id in local_vals):
                        return None
            # fold the locals (each read exactly once, after its definition)
            order = list(local_vals)
            for i, nm in enumerate(order):
                uses = sum(1 for e in whole[i + 1:] for n in ast.walk(e) if isinstance(n, ast.Name) and n.id == nm)
                if uses != 1 or any(isinstance(n, ast.Name) and n.id == nm for e in whole[:i + 1] for n in ast.walk(e)):
                    return None
            bound_inside = {n.id for e in whole for n in ast.walk(e) if isinstance(n, ast.Name) and isinstance(n.ctx, ast.Store)}
            return params, defaults, local_vals, expr, bound_inside

        def substitute(expr, mapping):
            class Sub(ast.NodeTransformer):
                def visit_Name(self, n):
                    if isinstance(n.ctx, ast.Load) and n.id in mapping:
                        return copy.deepcopy(mapping[n.id])
                    return n
            return Sub().visit(copy.deepcopy(expr))

        def set_parents(node, parent):
            ix._parents[id(node)] = parent
            for ch in ast.iter_child_nodes(node):
                set_parents(ch, node)

        def overridden(f: FuncInfo) -> bool:
            if f.cls is None:
                return False
            fam = [c for c in ix.subclasses(f.cls.qname)] + ix.mro(f.cls)
            return any(c is not f.cls and f.name in {m.name for m in ix.functions.values() if m.cls is c} for c in fam)

        sums = {}
        changed_any = False
        for _round in range(4):
            changed = False
            for fi in list(ix.functions.values()):
                if isinstance(fi.node, ast.Lambda):
                    continue
                for c in list(A.body_nodes(fi.node)):
                    if not isinstance(c, ast.Call) or any(isinstance(a_, ast.Starred) for a_ in c.args) or any(k.arg is None for k in c.keywords):
                        continue
                    fn = c.func
                    if isinstance(fn, ast.Name):
                        nm = fn.id
                    elif isinstance(fn, ast.Attribute) and isinstance(fn.value, ast.Name) and fn.value.id in ("self", "cls"):
                        nm = fn.attr
                    else:
                        continue
                    if nm in anchored:
                        continue
                    try:
                        ts, how = self.resolve_callee(fi, fn)
                    except Exception:
                        continue
                    if how != "exact" or len(ts) != 1 or not isinstance(ts[0], FuncInfo):
                        continue
                    t = ts[0]
                    if t is fi or t.module is not fi.module or t.name != nm:
                        continue
                    if t.qname not in sums:
                        sums[t.qname] = summary(t) if not overridden(t) else None
                    sm = sums[t.qname]
                    if sm is None:
                        continue
                    params, defaults, local_vals, expr, bound_inside = sm
                    mapping = {}
                    is_static = any(_dec(d) == "staticmethod" for d in t.node.decorator_list)
                    ps = list(params)
                    if t.cls is not None and not is_static:
                        if not isinstance(fn, ast.Attribute) or not ps:
                            continue
                        mapping[ps[0]] = fn.value
                        ps = ps[1:]
                    elif t.cls is not None and isinstance(fn, ast.Name):
                        continue
                    if len(c.args) > len(ps):
                        continue
                    for p_, a_ in zip(ps, c.args):
                        mapping[p_] = a_
                    ok = True
                    for k in c.keywords:
                        if k.arg not in ps or k.arg in mapping:
                            ok = False
                            break
                        mapping[k.arg] = k.value
                    for p_ in ps:
                        if p_ not in mapping:
                            if p_ in defaults:
                                mapping[p_] = defaults[p_]
                            else:
                                ok = False
                    if not ok:
                        continue
                    arg_names = {n.id for v in mapping.values() for n in ast.walk(v) if isinstance(n, ast.Name)}
                    if arg_names & bound_inside:
                        continue
                    # a complex argument read more than once would be duplicated: only names / attributes / constants then
                    simple = lambda v: isinstance(v, (ast.Name, ast.Constant)) or (isinstance(v, ast.Attribute) and simple(v.value))
                    reads = {}
                    for e in list(local_vals.values()) + [expr]:
                        for n in ast.walk(e):
                            if isinstance(n, ast.Name) and n.id in mapping:
                                reads[n.id] = reads.get(n.id, 0) + 1
                    if any(cnt > 1 and not simple(mapping[p_]) for p_, cnt in reads.items()):
                        continue
                    full = dict(mapping)
                    for lnm, lv in local_vals.items():
                        full[lnm] = substitute(lv, full)
                    new = substitute(expr, full)
                    for n in ast.walk(new):
                        if not hasattr(n, "lineno") or True:
                            try:
                                ast.copy_location(n, c)
                            except Exception:
                                pass
                    new._inlined_from = t.qname
                    par = ix.parent(c)
                    if par is None:
                        continue
                    done = False
                    for fld, old in ast.iter_fields(par):
                        if old is c:
                            setattr(par, fld, new)
                            done = True
                        elif isinstance(old, list):
                            for i, x in enumerate(old):
                                if x is c:
                                    old[i] = new
                                    done = True
                    if done:
                        set_parents(new, par)
                        changed = changed_any = True
                        self.inlined = getattr(self, "inlined", [])
                        self.inlined.append((fi.qname, t.qname))
            self._cfgs.clear()
            if not changed:
                break
        if changed_any:
            self._cfgs.clear()
            # a private helper that is no longer referenced anywhere is dead code to the analysis: what it computes is
            # analysed at its former call sites, in their context
            for q in sorted({t for _, t in self.inlined}):
                t = ix.functions.get(q)
                if t is None or not t.name.startswith("_") or t.name.startswith("__"):
                    continue
                mi = t.module
                refs = 0
                for n in ast.walk(mi.tree):
                    if n is t.node:
                        continue
                    if (isinstance(n, ast.Name) and n.id == t.name) or (isinstance(n, ast.Attribute) and n.attr == t.name):
                        refs += 1
                    elif isinstance(n, ast.Constant) and n.value == t.name:
                        refs += 1
                if refs or any(isinstance(n, ast.Name) and n.id == t.name for n in ast.walk(t.node)):
                    continue
                if any(t.name in (om.imports.get(k, "").rsplit(".", 1)[-1] for k in om.imports) for om in ix.modules.values() if om is not mi):
                    continue
                par = ix.parent(t.node)
                body = getattr(par, "body", None)
                if isinstance(body, list) and t.node in body and len(body) > 1:
                    body.remove(t.node)
                    del ix.functions[q]
                    for k in [k for k, f in ix.functions.items() if f.parent is t]:
                        del ix.functions[k]
                    self.removed_helpers = getattr(self, "removed_helpers", []) + [q]

    def _normalise_call_keywords(self) -> None:
        """f(a, y=b) and f(a, b) are the same call when y is f's second parameter.  For calls whose callee resolves
        inside the package (plain function, self / super method, class with an explicit __init__), keyword arguments
        that continue the positional sequence are moved into `args`, so that a rule reading `call.args[i]` does not
        depend on the call-site style.  The moved keywords stay reachable through astutil.kwarg (call._kwmoved)."""
        ix = self.ix
        todo = []
        for fi in list(ix.functions.values()):
            for c in A.body_nodes(fi.node):
                if isinstance(c, ast.Call) and (c.keywords or c.args) and not any(isinstance(a, ast.Starred) for a in c.args) and not hasattr(c, "_kwmoved"):
                    todo.append((fi, c))
        for fi, c in todo:
            try:
                ts, how = self.resolve_callee(fi, c.func)
            except Exception:
                continue
            if how not in ("exact", "cha") or not ts:
                continue
            sigs = set()
            for t in ts:
                f = t
                drop_self = False
                if isinstance(t, ClassInfo):
                    f = ix.find_method(t, "__init__")
                    if f is None:
                        sigs.add(None)
                        continue
                    drop_self = True
                if not isinstance(f, FuncInfo) or isinstance(f.node, ast.Lambda):
                    sigs.add(None)
                    continue
                a = f.node.args
                if a.posonlyargs or any(_dec(d) in ("staticmethod", "classmethod", "property") for d in f.node.decorator_list) and False:
                    sigs.add(None)
                    continue
                names = [x.arg for x in a.args]
                is_method = f.cls is not None and not any(_dec(d) == "staticmethod" for d in f.node.decorator_list)
                if not drop_self and is_method:
                    recv = c.func.value if isinstance(c.func, ast.Attribute) else None
                    bound = recv is not None and ((isinstance(recv, ast.Name) and recv.id in ("self", "cls")) or
                                                  (isinstance(recv, ast.Call) and isinstance(recv.func, ast.Name) and recv.func.id == "super"))
                    if not bound:
                        sigs.add(None)
                        continue
                    drop_self = True
                if drop_self:
                    names = names[1:]
                sigs.add(tuple(names))
            if len(sigs) != 1 or None in sigs:
                continue
            names = list(next(iter(sigs)))
            moved = {}
            while len(c.args) < len(names):
                nm = names[len(c.args)]
                kw = [k for k in c.keywords if k.arg == nm]
                if len(kw) != 1:
                    break
                c.keywords.remove(kw[0])
                c.args.append(kw[0].value)
                ix._parents[id(kw[0].value)] = c
                moved[nm] = kw[0].value
            # every positional argument is also reachable by its parameter name (astutil.kwarg): a rule that
            # asks for `include=` finds it whether the call site wrote it as a keyword or not
            for i, a_ in enumerate(c.args[:len(names)]):
                moved.setdefault(names[i], a_)
            if moved:
                c._kwmoved = moved

    # ---------------------------------------------------------------- basics
    def cfg(self, fi: FuncInfo) -> CFG:
        c = self._cfgs.get(fi.qname)
        if c is None:
            c = CFG(fi.node, self.ix.parent)
            self._cfgs[fi.qname] = c
        return c

    def func_of(self, node: ast.AST) -> Optional[FuncInfo]:
        return self.ix.enclosing_function(node)

    def conditions(self, fi: FuncInfo, node: ast.AST, transitive: bool = True,
                   kinds: Optional[Sequence[str]] = None, universal: bool = True) -> List[Cond]:
        """All guards under which `node` executes inside fi: statement-level
        control dependence (CFG / post-dominators) + expression-level guards."""
        cfg = self.cfg(fi)
        out: List[Cond] = []
        nid = cfg.node_of(node)
        stop = None
        if nid is not None:
            stop = cfg.nodes[nid].ast
        out += expr_conditions(node, stop if stop is not None else fi.node, self.ix.parent)
        if nid is not None:
            for c, lab in cfg.control_conditions(nid, transitive, universal):
                n = cfg.nodes[c]
                if n.kind == "test":
                    out.append(Cond(n.ast, lab, "if"))
                elif n.kind == "assert":
                    out.append(Cond(n.ast.test, lab, "assert"))
                elif n.kind == "for":
                    out.append(Cond(n.ast, lab, "for"))
                elif n.kind == "try":
                    out.append(Cond(n.ast, lab, "try"))
                else:
                    out.append(Cond(n.ast, lab, n.kind))
        if kinds is not None:
            out = [c for c in out if c.kind in kinds]
        return out

    def guarded_by(self, fi: FuncInfo, node: ast.AST, pred, polarity=None) -> List[Cond]:
        """Guards of node whose test satisfies pred(test_ast) (and polarity)."""
        res = []
        for c in self.conditions(fi, node):
            if c.kind in ("for", "try", "with"):
                continue
            if polarity is not None and c.polarity != polarity:
                continue
            try:
                if pred(c.test):
                    res.append(c)
            except Exception:
                raise
        return res

    def reaching(self, fi: FuncInfo, name: str, at: ast.AST) -> List[Def]:
        return self.cfg(fi).reaching_defs(name, at)

    # ------------------------------------------------------ value-flow helper
    def origins(self, fi: FuncInfo, expr: ast.AST, through=None, _seen=None, depth: int = 0, prune_falsy: bool = False):
        """Backward slice of `expr` through local assignments: yields
        (leaf_expr, path) where path is the list of expressions traversed.
        A leaf is an expression that is not a local Name with reaching
        definitions (calls, attributes, constants, parameters...).
        `through(node)` may return True to stop at a node (treated as leaf)."""
        if _seen is None:
            _seen = set()
        results = []

        def rec(e, path, d):
            if d > 40:
                results.append((e, path))
                return
            if through is not None and through(e):
                results.append((e, path + [e]))
                return
            if isinstance(e, ast.Name):
                defs = self.reaching(fi, e.id, e)
                if not defs:
                    results.append((e, path + [e]))
                    return
                for df in defs:
                    key = (id(df.binder), df.name)
                    if key in _seen:
                        continue
                    _seen.add(key)
                    if prune_falsy and self.cfg(fi).def_reaches_only_when_falsy(df, e):
                        continue  # only None / "" / 0 can arrive from this definition
                    v, how = df.element()
                    if v is None:
                        results.append((df.binder, path + [e]))
                    elif how is None:
                        rec(v, path + [e], d + 1)
                    else:
                        results.append((_Wrapped(v, how, df), path + [e]))
                return
            if isinstance(e, ast.IfExp):
                rec(e.body, path + [e], d + 1)
                rec(e.orelse, path + [e], d + 1)
                return
            if isinstance(e, ast.NamedExpr):
                rec(e.value, path + [e], d + 1)
                return
            results.append((e, path + [e]))

        rec(expr, [], depth)
        return results

    # ------------------------------------------------------- call resolution
    def resolve_callee(self, fi: FuncInfo, func_expr: ast.AST, _depth: int = 0) -> Tuple[List[Target], str]:
        """Targets of a callee expression and how they were found:
        'exact' | 'cha' | 'by-name' | 'external' | 'unresolved'."""
        ix = self.ix
        mi = fi.module
        cls = self._class_ctx(fi)
        e = func_expr
        if isinstance(e, ast.Name) and e.id == "cls" and cls is not None and not isinstance(fi.node, ast.Lambda) and fi.node.args.args and fi.node.args.args[0].arg == "cls" \
                and any(_dec(d) == "classmethod" for d in fi.node.decorator_list) and all(d.kind == "param" for d in self.reaching(fi, e.id, e)):
            # cls(...) inside a classmethod constructs the class itself (or a subclass)
            subs = [c_ for c_ in ix.subclasses(cls.qname)] if hasattr(ix, "subclasses") else []
            ts = [cls] + [c_ for c_ in subs if c_ is not cls]
            return ts, "exact" if len(ts) == 1 else "cha"
        if isinstance(e, ast.Name):
            # nested def or local alias first
            defs = self.reaching(fi, e.id, e) if not isinstance(fi.node, ast.Lambda) or True else []
            if defs:
                out: List[Target] = []
                how = "exact"
                for d in defs:
                    if d.kind == "def":
                        q = [f for f in ix.functions.values() if f.node is d.binder]
                        out += q
                    elif d.kind == "import":
                        r = ix.resolve_expr(mi, e, cls)
                        if r:
                            t = self._target_of_dotted(r)
                            out += t
                    elif d.kind in ("assign", "annassign", "walrus") and _depth < 4:
                        v, h = d.element()
                        if v is not None and h is None:
                            ts, hw = self.resolve_callee(fi, v, _depth + 1)
                            out += ts
                            if hw != "exact":
                                how = hw
                        else:
                            return [], "unresolved"
                    else:
                        return [], "unresolved"
                if out:
                    return _uniq(out), how
                return [], "unresolved"
            # enclosing function's locals (closures)
            p = fi.parent
            while p is not None:
                for n in A.body_nodes(p.node):
                    if isinstance(n, (ast.FunctionDef, ast.AsyncFunctionDef)) and n.name == e.id:
                        q = [f for f in ix.functions.values() if f.node is n]
                        if q:
                            return q, "exact"
                p = p.parent
            r = ix.resolve_expr(mi, e, cls)
            if r:
                t = self._target_of_dotted(r)
                if t:
                    return t, "external" if isinstance(t[0], str) else "exact"
            if e.id in _BUILTINS:
                return [f"builtins.{e.id}"], "external"
            return [], "unresolved"
        if isinstance(e, ast.Attribute):
            recv = e.value
            name = e.attr
            # super().m
            if isinstance(recv, ast.Call) and isinstance(recv.func, ast.Name) and recv.func.id == "super":
                if cls is not None:
                    m = ix.find_method(cls, name, after=cls)
                    if m is not None:
                        return [m], "exact"
                    return [f"<external-base>.{name}"], "external"
            if isinstance(recv, ast.Name) and recv.id in ("self", "cls") and cls is not None and not self.reaching_nonparam(fi, recv):
                ms = ix.overriders(cls, name)
                if ms:
                    return ms, "cha" if len(ms) > 1 else "exact"
                # attribute holding a class/function (dataclass field)
                return [], "unresolved"
            r = ix.resolve_expr(mi, e, cls)
            if r:
                t = self._target_of_dotted(r)
                if t:
                    return t, "external" if isinstance(t[0], str) else "exact"
            # BaseFeatureCompiler.__init__(self, ...) style handled by resolve_expr.
            cands = ix.methods_named(name)
            if cands:
                return cands, "by-name"
            return [], "unresolved"
        if isinstance(e, ast.Call):
            # e.g. _getNewGlyphFactory(g)(name) - result of a call
            return [], "unresolved"
        return [], "unresolved"

    def reaching_nonparam(self, fi: FuncInfo, name_node: ast.Name) -> bool:
        """True if `self`/`cls` has been rebound to something other than the
        first parameter at this point."""
        defs = self.reaching(fi, name_node.id, name_node)
        return any(d.kind != "param" for d in defs)

    def _class_ctx(self, fi: FuncInfo) -> Optional[ClassInfo]:
        f = fi
        while f is not None:
            if f.cls is not None:
                return f.cls
            f = f.parent
        return None

    def _target_of_dotted(self, dotted: str) -> List[Target]:
        obj = self.ix.lookup(dotted)
        if isinstance(obj, (FuncInfo, ClassInfo)):
            return [obj]
        if isinstance(obj, ModuleInfo):
            return []
        if obj is None:
            if dotted.startswith("ufo2ft."):
                return []
            return [dotted]
        return []

    def resolve_call(self, fi: FuncInfo, call: ast.Call) -> Tuple[List[Target], str]:
        ts, how = self.resolve_callee(fi, call.func)
        self.stats["calls"] += 1
        if how in ("exact", "cha"):
            self.stats["resolved"] += 1
        elif how == "by-name":
            self.stats["by_name"] += 1
        elif how == "external":
            self.stats["external"] += 1
        else:
            self.stats["unresolved"] += 1
        return ts, how

    def callee_dotted(self, fi: FuncInfo, call: ast.Call) -> Optional[str]:
        """Canonical dotted name of the callee when it is an imported / module
        level object (package or third-party): e.g.
        'fontTools.misc.roundTools.otRound', 'ufo2ft.util.quantize'."""
        return self.ix.resolve_expr(fi.module, call.func, self._class_ctx(fi))

    def is_call_to(self, fi: FuncInfo, node: ast.AST, *suffixes: str) -> bool:
        """node is a Call whose callee resolves (imports followed) to a dotted
        name ending with one of `suffixes` ('.otRound' matches any module)."""
        if not isinstance(node, ast.Call):
            return False
        d = self.callee_dotted(fi, node)
        if d is None:
            return False
        for s in suffixes:
            if d == s or d.endswith("." + s.lstrip(".")):
                return True
        return False

    # ------------------------------------------------------------ call graph
    def callees(self, fi: FuncInfo) -> List[Tuple[ast.Call, List[Target], str]]:
        out = []
        for c in A.calls_in(fi.node) if isinstance(fi.node, ast.Lambda) else self._calls(fi):
            ts, how = self.resolve_callee(fi, c.func)
            out.append((c, ts, how))
        return out

    def _calls(self, fi: FuncInfo):
        for n in A.body_nodes(fi.node):
            if isinstance(n, ast.Call):
                yield n

    def call_graph(self) -> Dict[str, Set[str]]:
        g: Dict[str, Set[str]] = {}
        for fi in self.ix.functions.values():
            s = g.setdefault(fi.qname, set())
            for _c, ts, how in self.callees(fi):
                for t in ts:
                    if isinstance(t, FuncInfo):
                        s.add(t.qname)
                    elif isinstance(t, ClassInfo):
                        init = self.ix.find_method(t, "__init__")
                        if init is not None:
                            s.add(init.qname)
                        post = self.ix.find_method(t, "__post_init__")
                        if post is not None:
                            s.add(post.qname)
            # nested defs are considered reachable from their parent
            for f2 in self.ix.functions.values():
                if f2.parent is fi:
                    s.add(f2.qname)
        return g

    def reachable_from(self, roots: Iterable[str], graph: Optional[Dict[str, Set[str]]] = None) -> Set[str]:
        g = graph or self.call_graph()
        seen = set()
        st = list(roots)
        while st:
            q = st.pop()
            if q in seen:
                continue
            seen.add(q)
            st.extend(g.get(q, ()))
        return seen


def _dec(d: ast.expr) -> str:
    if isinstance(d, ast.Call):
        d = d.func
    return d.attr if isinstance(d, ast.Attribute) else d.id if isinstance(d, ast.Name) else ""


class _Wrapped:
    """Marker leaf: value derived from `expr` by iteration / unpacking / aug."""

    def __init__(self, expr, how, d):
        self.expr, self.how, self.d = expr, how, d
        self.lineno = getattr(expr, "lineno", getattr(d.binder, "lineno", 0))


def _uniq(seq):
    out, seen = [], set()
    for x in seq:
        k = x.qname if hasattr(x, "qname") else x
        if k not in seen:
            seen.add(k)
            out.append(x)
    return out


_BUILTINS = {
    "round", "int", "float", "len", "sorted", "list", "tuple", "dict", "set", "frozenset", "min", "max",
    "any", "all", "sum", "abs", "zip", "enumerate", "range", "isinstance", "hasattr", "getattr", "setattr",
    "delattr", "callable", "iter", "next", "str", "repr", "type", "bool", "print", "map", "filter", "id",
    "hash", "reversed", "ord", "chr", "super", "vars", "dir", "format", "open", "eval", "issubclass", "bytes",
}
