"""E3 - ownership / effect analysis: "who may write through what".

Whole-package, flow-sensitive for locals (reaching definitions on a CFG that is
specialised for `inplace = False`), field-sensitive by (class family, attribute
name), one level of call-site specialisation on constant boolean arguments.

Abstract value  Val(own, elem, font):
    own   atoms the object itself may come from
    elem  atoms anything reachable *below* it (elements, attributes) may come from
    font  atoms reachable only through a `.font` attribute (deepcopyExceptFonts)
Atoms are symbolic: ('B',) borrowed from the caller, ('P', func, param),
('F', family, attr), ('R', func); the elem/font components of parameters, fields
and returns use the kinds 'PE','PF','FE','FF','RE','RF'.  A global graph of
"flows-to" edges between atoms is built from calls, returns and field stores;
an atom is BORROWED when it is reachable from ('B',).
"""

from __future__ import annotations

import ast
from dataclasses import dataclass, field
from typing import Dict, FrozenSet, Iterable, List, Optional, Sequence, Set, Tuple

from . import astutil as A
from .cfg import CFG, Def
from .index import AnalysisError, ClassInfo, FuncInfo
from .program import Program

Atom = Tuple
B = ("B",)
FS = frozenset


@dataclass(frozen=True)
class Val:
    own: FrozenSet[Atom] = FS()
    elem: FrozenSet[Atom] = FS()
    font: FrozenSet[Atom] = FS()
    flat: bool = False  # elements are flat records of scalars (anchors, components)

    def all(self) -> FrozenSet[Atom]:
        return self.own | self.elem

    def below(self) -> "Val":
        """Value of something reached through this object (attribute, element)."""
        return Val(self.own | self.elem, self.own | self.elem, self.font)

    def element(self) -> "Val":
        if self.flat:
            return Val(self.elem, FS(), FS())
        return Val(self.elem, self.elem, self.font)


EMPTY = Val()


def join(*vals: Val) -> Val:
    o, e, f = set(), set(), set()
    flat = True
    for v in vals:
        o |= v.own
        e |= v.elem
        f |= v.font
        if (v.own or v.elem) and not v.flat:
            flat = False
    return Val(FS(o), FS(e), FS(f), flat and bool(vals) and any(v.flat for v in vals))


MUTATORS = {
    "append", "extend", "insert", "remove", "pop", "popitem", "clear", "update", "setdefault", "sort", "reverse",
    "add", "discard", "difference_update", "intersection_update", "symmetric_difference_update",
    "clearContours", "clearComponents", "removeComponent", "appendAnchor", "appendContour", "appendComponent",
    "clearAnchors", "clearGuidelines", "getPen", "getPointPen", "removeOverlap", "move", "round",
    "newGlyph", "newLayer", "insertGlyph", "addGlyph", "renameGlyph", "addSource", "addSourceDescriptor",
}
# mutators whose argument ends up *inside* the receiver (weak update of elem)
INSERTERS = {"append": 0, "add": 0, "insert": 1, "extend": 0, "update": 0, "setdefault": 1}
# `.round()` is only a mutator on fontMath kerning objects; on glyph/info it returns a copy
ROUND_RECEIVERS = ("kerning",)

# third-party getters that return a part of their receiver
PART_METHODS = {"findDefault", "getAxis", "newGlyph", "newLayer", "getSourceDescriptor"}
ELEM_METHODS = {"get", "values", "items", "pop", "popitem", "setdefault", "__getitem__", "copy", "union", "intersection",
                "difference", "__iter__"}
CONTAINER_CTORS = {"list", "tuple", "dict", "set", "frozenset", "sorted", "reversed", "OrderedDict", "iter", "next",
                   "zip", "zip_strict", "enumerate", "chain", "zip_longest", "filter", "max", "min", "defaultdict", "cast", "ChainMap"}
DEEP_COPIES = {"deepcopy"}
SHALLOW_COPIES = {"copy"}
# third-party functions that mutate an argument: name -> index of the mutated argument
EXTERNAL_ARG_MUTATORS = {"fonts_to_quadratic": 0, "font_to_quadratic": 0, "glyphs_to_quadratic": 0, "glyph_to_quadratic": 0}
STOP_BY_NAME = {"get", "items", "keys", "values", "update", "pop", "append", "extend", "add", "remove", "clear", "copy",
                "insert", "index", "sort", "join", "split", "strip", "format", "startswith", "endswith", "replace",
                "lower", "upper", "title", "encode", "decode", "setdefault", "discard", "difference", "intersection",
                "union", "isdisjoint", "issuperset", "issubset", "ljust", "zfill", "rsplit", "rstrip", "lstrip", "count",
                "warning", "info", "debug", "error", "exception", "match", "sub", "group", "draw", "drawPoints", "write",
                "save", "read", "seek", "items", "most_common", "transform", "translate", "scale", "skew", "inverse",
                "transformPoint", "transformVector", "round"}
KEEP_BY_NAME = {"write", "process", "compile", "filter", "set_context", "setContext"}
# attributes that hold immutable scalars (str / number / bool / None): reading them
# yields nothing that can be written through
SCALAR_ATTRS = {"name", "width", "height", "x", "y", "unicode", "baseGlyph", "identifier", "text", "path", "layerName",
                "styleName", "familyName", "filename", "tag", "unitsPerEm", "ascender", "descender", "xHeight",
                "capHeight", "italicAngle", "formatType", "verticalOrigin", "dx", "dy", "xx", "xy", "yx", "yy",
                "minimum", "maximum", "default", "postscriptFontName", "styleMapStyleName", "styleMapFamilyName",
                "versionMajor", "versionMinor", "key", "number", "markClass", "isMark", "value", "side1", "side2",
                "mode", "tableTag", "pre", "inplace", "markAnchorName", "numberOfContours", "segmentType", "smooth"}
# attributes holding a list of flat records (objects whose own attributes are scalars)
FLAT_ELEM_ATTRS = {"anchors", "components", "guidelines"}
# attributes holding a container of immutable scalars: the container itself can be
# written through, its elements cannot
SCALAR_ELEM_ATTRS = {"glyphOrder", "unicodes", "fileNames", "transformation", "features", "skipExportGlyphs",
                     "firstGlyphs", "secondGlyphs", "glyphs"}


@dataclass
class WriteEvent:
    fi: FuncInfo
    variant: str
    node: ast.AST
    kind: str  # store | del | mutator | ext-mutator | setattr | escape
    recv: Val
    recv_text: str
    gs_recv: bool = False


class Variant:
    """One analysed instance of a function: (function, constant bindings)."""

    def __init__(self, fi: FuncInfo, bindings: Tuple[Tuple[str, object], ...]):
        self.fi = fi
        self.bindings = dict(bindings)
        self.key = fi.qname + ("[" + ",".join(f"{k}={v}" for k, v in bindings) + "]" if bindings else "")


class Ownership:
    def __init__(self, prog: Program, seeds: Dict[str, Dict[str, str]], fold_attrs: Optional[Dict[str, object]] = None,
                 assume_not_none: Iterable[Tuple[str, str]] = (), exempt_fresh: Iterable[Tuple[str, str]] = (),
                 cut: Iterable[Tuple[str, str]] = (), max_rounds: int = 8,
                 value_calls: Optional[Dict[Tuple[str, str], Tuple[str, Optional[str]]]] = None,
                 tag_returns: Optional[Dict[str, str]] = None, tag_calls: Optional[Dict[str, str]] = None,
                 escape_deep: Iterable[str] = (), assume_attr_not_none: Iterable[str] = ()):
        self.prog = prog
        self.ix = prog.ix
        self.seeds = seeds  # func qname -> {param: 'deep'}
        self.fold_attrs = {"inplace": False} if fold_attrs is None else fold_attrs
        self.assume_not_none = set(assume_not_none)
        self.exempt_fresh = set(exempt_fresh)  # (func short, stmt text): RHS treated as owned
        # (func short, stmt text) -> indices of the inserted tuple the exemption is limited to (others flow normally)
        self.exempt_fresh_elems: Dict[Tuple[str, str], Set[int]] = dict(exempt_fresh) if isinstance(exempt_fresh, dict) else {}
        self.exempt_fresh_elems = {k: v for k, v in self.exempt_fresh_elems.items() if isinstance(v, (set, frozenset))}
        self.cut = set(cut)
        # function short name -> (base class whose __call__ is meant by calls through local values, excluded sub-hierarchy)
        self.value_calls = dict(value_calls or {})
        self.used_value_calls: Set[Tuple[str, str]] = set()
        # function qname -> tag: the function's return value is a tagged working container
        self.tag_returns = dict(tag_returns or {})
        # (function short, call text) -> tag: the result of this (external) call is a tagged object
        self.tag_calls = dict(tag_calls or {})
        # tags for which a stored value must be fresh at every depth (own and elem), not only itself
        self.escape_deep = set(escape_deep)
        # attribute names whose value is assumed not None (e.g. context.compiler inside the compile pipeline)
        self.assume_attr_not_none = set(assume_attr_not_none)
        self.edges: Dict[Atom, Set[Atom]] = {}
        self.special: Dict[Atom, Set[Tuple]] = {}  # atom -> special tags carried ('SELF', fam) / ('CTX', fam) / ('GS',)
        self.writes: List[WriteEvent] = []
        self.variants: Dict[str, Variant] = {}
        self.evaluated: Set[str] = set()
        self.max_rounds = max_rounds
        self.stats = {"functions": 0, "variants": 0, "rounds": 0, "calls": 0, "calls_resolved": 0, "calls_by_name": 0,
                      "calls_external_or_unknown": 0}
        self._family_cache: Dict[str, str] = {}
        self._fam_fields: Dict[str, Set[str]] = {}
        self._cfg_cache: Dict[str, CFG] = {}
        self._tested_params: Dict[str, Set[str]] = {}
        self._changed = False
        self.used_exempt: Set[Tuple[str, str]] = set()
        self.used_cut: Set[Tuple[str, str]] = set()
        self._local_extra: Dict = {}
        self._local_attrs: Dict = {}
        self._frozen_special = False

    # ------------------------------------------------------------------ helpers
    def family(self, ci: ClassInfo) -> str:
        q = self._family_cache.get(ci.qname)
        if q is None:
            q = self.ix.mro(ci)[-1].qname
            self._family_cache[ci.qname] = q
        return q

    def family_fields(self, fam: str) -> Set[str]:
        """Attribute names instances of the class family are known to carry:
        class-level attributes / annotations and `self.<attr> = ...` stores."""
        c = self._fam_fields.get(fam)
        if c is None:
            c = set()
            for ci in self.ix.subclasses(fam):
                c |= set(ci.attrs) | set(ci.annotations)
                for m in ci.methods.values():
                    for n in A.body_nodes(m.node):
                        if isinstance(n, ast.Attribute) and isinstance(n.ctx, ast.Store) and isinstance(n.value, ast.Name) and n.value.id in ("self", "cls"):
                            c.add(n.attr)
                        # alternate constructors: `self = cls(...); self.x = ...`
                        if isinstance(n, ast.Attribute) and isinstance(n.ctx, ast.Store) and isinstance(n.value, ast.Name) and m.is_classmethod:
                            c.add(n.attr)
            self._fam_fields[fam] = c
        return c

    def add_edge(self, src: Atom, dst: Atom):
        if src == dst:
            return
        s = self.edges.setdefault(src, set())
        if dst not in s:
            s.add(dst)
            self._changed = True

    def flow(self, val: Val, own_atom: Atom):
        """val flows into the slot named by own_atom (kinds P/F/R); the elem and
        font components flow into the sibling slots."""
        kind = own_atom[0]
        e_atom = (kind + "E",) + own_atom[1:]
        f_atom = (kind + "F",) + own_atom[1:]
        for a in val.own:
            self.add_edge(a, own_atom)
        for a in val.elem:
            self.add_edge(a, e_atom)
        for a in val.font:
            self.add_edge(a, f_atom)

    def slot(self, own_atom: Atom) -> Val:
        kind = own_atom[0]
        return Val(FS([own_atom]), FS([(kind + "E",) + own_atom[1:]]), FS([(kind + "F",) + own_atom[1:]]))

    def add_special(self, atom: Atom, tag: Tuple):
        if getattr(self, "_frozen_special", False):
            return
        s = self.special.setdefault(atom, set())
        if tag not in s:
            s.add(tag)
            self._changed = True

    def specials_of(self, atoms: Iterable[Atom]) -> Set[Tuple]:
        """Special tags that may be carried by any of the atoms (closure over
        flows-to edges is maintained incrementally by propagate_specials)."""
        out = set()
        for a in atoms:
            if a and a[0] in ("SELF", "CTX", "GS", "INST"):
                out.add(a)
            tags = self.special.get(a, ())
            if a and a[0] in ("PE", "FE", "RE"):
                # the atom stands for "an element of ...": element types apply to the value itself
                out |= {("SELF", t[1]) if t[0] == "ESELF" else t for t in tags if t[0] != "SELF"}
            else:
                out |= {t for t in tags if t[0] != "ESELF"}
        return out

    def propagate_specials(self):
        work = [a for a in self.special]
        # direct special atoms act as their own carriers
        for src in list(self.edges):
            if src and src[0] in ("SELF", "CTX", "GS", "INST"):
                self.special.setdefault(src, set()).add(src)
                work.append(src)
        while work:
            a = work.pop()
            tags = self.special.get(a, set())
            for d in self.edges.get(a, ()):
                cur = self.special.setdefault(d, set())
                # "is an instance of family X" / "is the context namespace" describe the
                # object itself: they travel only between own-level slots
                src_own = a[0] in ("P", "F", "R", "SELF", "CTX", "GS", "INST")
                dst_own = d[0] in ("P", "F", "R")
                ok_tags = set()
                for t in tags:
                    if t[0] == "CTX":
                        if dst_own and src_own:
                            ok_tags.add(t)
                    elif t[0] == "SELF":
                        # becoming an element of a container: remember "elements are instances of ..."
                        ok_tags.add(t if dst_own and src_own else ("ESELF", t[1]) if (src_own and not dst_own) else None)
                    elif t[0] == "ESELF":
                        # element extracted again / container copied
                        ok_tags.add(("SELF", t[1]) if (dst_own and not src_own) else t if (not dst_own and not src_own) else None)
                    else:
                        ok_tags.add(t)
                ok_tags.discard(None)
                new = ok_tags - cur
                if new:
                    cur |= new
                    self._changed = True
                    work.append(d)

    # ------------------------------------------------------------------ driver
    def run(self, roots: Sequence[FuncInfo]):
        """Phase 1 discovers which slots can carry the special tags (SELF / CTX /
        GS) - with imprecise attribute reads; phase 2 restarts the flow graph
        with that knowledge fixed, so that attribute reads on context / compiler
        objects resolve to fields from the first round on."""
        self._roots = list(roots)
        self._phase(collect_special=True)
        frozen = {a: set(t) for a, t in self.special.items()}
        self.edges = {}
        self.variants = {}
        self._cfg_cache = {}
        self._local_extra = {}
        self._local_attrs = {}
        self.special = frozen
        self._frozen_special = True
        self._phase(collect_special=False)

    def _phase(self, collect_special: bool):
        for fi in self._roots:
            self.request(fi, ())
        rounds = 0
        while rounds < self.max_rounds:
            rounds += 1
            self._changed = False
            self.writes = []
            done = set()
            while True:
                todo = [v for k, v in list(self.variants.items()) if k not in done]
                if not todo:
                    break
                for v in todo:
                    done.add(v.key)
                    FuncEval(self, v).run()
            if collect_special:
                self.propagate_specials()
            if not self._changed:
                break
        self.stats["rounds"] = self.stats.get("rounds", 0) + rounds
        self.stats["variants"] = len(self.variants)
        self.stats["functions"] = len({v.fi.qname for v in self.variants.values()})

    def request(self, fi: FuncInfo, bindings: Tuple[Tuple[str, object], ...]) -> Variant:
        v = Variant(fi, bindings)
        if v.key not in self.variants:
            self.variants[v.key] = v
            self._changed = True
            tag = self.tag_returns.get(fi.qname.split("#")[0])
            if tag:
                self.add_special(("R", v.key), (tag,))
                self.edges.setdefault((tag,), set())
            seed = self.seeds.get(fi.qname)
            if seed:
                for p in seed:
                    self.flow(Val(FS([B]), FS([B]), FS([B])), ("P", v.key, p))
        return self.variants[v.key]

    def tested_params(self, fi: FuncInfo) -> Set[str]:
        """Parameters whose truthiness / None-ness is branched on directly."""
        s = self._tested_params.get(fi.qname)
        if s is None:
            s = set()
            params = set(p for p in fi.params() if not p.startswith("*"))
            for n in A.body_nodes(fi.node):
                t = None
                if isinstance(n, (ast.If, ast.While, ast.IfExp)):
                    t = n.test
                if t is None:
                    continue
                for sub in ast.walk(t):
                    if isinstance(sub, ast.Name) and sub.id in params:
                        s.add(sub.id)
            self._tested_params[fi.qname] = s
        return s

    # ------------------------------------------------------------------ results
    def borrowed_atoms(self) -> Dict[Atom, Atom]:
        """atom -> predecessor on a shortest flow path from B."""
        pred: Dict[Atom, Atom] = {B: B}
        work = [B]
        while work:
            nxt = []
            for a in work:
                for d in self.edges.get(a, ()):
                    if d not in pred:
                        pred[d] = a
                        nxt.append(d)
            work = nxt
        return pred

    def chain(self, atom: Atom, pred: Dict[Atom, Atom]) -> List[str]:
        out = []
        cur = atom
        guard = 0
        while cur != B and guard < 60:
            out.append(fmt_atom(cur))
            cur = pred[cur]
            guard += 1
        out.reverse()
        # collapse E/F twins that repeat the same slot
        dedup = []
        for s in out:
            if not dedup or dedup[-1] != s:
                dedup.append(s)
        return dedup

    def violations(self):
        pred = self.borrowed_atoms()
        out = []
        seen = set()
        for w in self.writes:
            hits = [a for a in w.recv.own if a in pred]
            if not hits:
                continue
            k = (w.variant.split("[")[0], A.text(w.node), w.kind)
            if k in seen:
                continue
            seen.add(k)
            out.append((w, self.chain(sorted(hits, key=str)[0], pred)))
        return out


def fmt_atom(a: Atom) -> str:
    k = a[0]
    if k in ("P", "PE", "PF"):
        return f"{a[1].split(':', 1)[-1]}({a[2]}{'[*]' if k == 'PE' else '.font' if k == 'PF' else ''})"
    if k in ("F", "FE", "FF"):
        return f"{a[1].rsplit('.', 1)[-1]}.{a[2]}{'[*]' if k == 'FE' else '.font' if k == 'FF' else ''}"
    if k in ("R", "RE", "RF"):
        return f"return of {a[1].split(':', 1)[-1]}{'[*]' if k == 'RE' else ''}"
    return str(a)


# =============================================================================
class FuncEval:
    def __init__(self, own: Ownership, variant: Variant):
        self.o = own
        self.v = variant
        self.fi = variant.fi
        self.prog = own.prog
        self.ix = own.ix
        self.cls = self.prog._class_ctx(self.fi)
        self.fam = own.family(self.cls) if self.cls is not None else None
        self.cfg = self._cfg()
        self.memo: Dict[Tuple[int, str], Val] = {}
        self.noattr_memo: Dict[Tuple[int, str], Val] = {}
        self.in_progress: Set[Tuple[int, str]] = set()
        self.expr_memo: Dict[int, Val] = {}

    # ---------------------------------------------------------------- folding
    def fold(self, e: ast.AST):
        """3-valued constant folding under the variant's bindings and the
        inplace=False specialisation.  Returns True / False / None(unknown) /
        the sentinel NONE for a known-None value."""
        b = self.v.bindings
        if isinstance(e, ast.Constant):
            return NONE if e.value is None else e.value
        if isinstance(e, ast.Name):
            if e.id in b:
                # only valid while the parameter has not been rebound
                if all(d.kind == "param" for d in self._raw_defs(e)):
                    return b[e.id]
                return None
            if e.id in self.o.fold_attrs and all(d.kind == "param" for d in self._raw_defs(e)):
                return self.o.fold_attrs[e.id]
            return None
        if isinstance(e, ast.Attribute) and e.attr in self.o.fold_attrs:
            return self.o.fold_attrs[e.attr]
        if isinstance(e, ast.UnaryOp) and isinstance(e.op, ast.Not):
            v = self.fold(e.operand)
            if v is None:
                return None
            return not (False if v is NONE else v)
        if isinstance(e, ast.BoolOp):
            vals = [self.fold(v) for v in e.values]
            tv = [None if v is None else bool(False if v is NONE else v) for v in vals]
            if isinstance(e.op, ast.And):
                if any(t is False for t in tv):
                    return False
                if all(t is True for t in tv):
                    return True
            else:
                if any(t is True for t in tv):
                    return True
                if all(t is False for t in tv):
                    return False
            return None
        if isinstance(e, ast.Compare) and len(e.ops) == 1 and isinstance(e.ops[0], (ast.Is, ast.IsNot)):
            l, r = self.fold(e.left), self.fold(e.comparators[0])
            if r is NONE and l is not None:
                res = l is NONE
                return res if isinstance(e.ops[0], ast.Is) else not res
            if r is NONE and isinstance(e.left, ast.Name) and (self.fi.qname.split("#")[0], e.left.id) in self.o.assume_not_none \
                    and all(d.kind == "param" for d in self._raw_defs(e.left)):
                return isinstance(e.ops[0], ast.IsNot)
            if r is NONE and self.o.assume_attr_not_none:
                src = e.left
                if isinstance(src, ast.Name):
                    ds = self._raw_defs(src)
                    vals = [d.element()[0] for d in ds] if ds and all(d.kind == "assign" for d in ds) else []
                    if vals and all(isinstance(v, ast.Attribute) and v.attr in self.o.assume_attr_not_none for v in vals):
                        return isinstance(e.ops[0], ast.IsNot)
                elif isinstance(src, ast.Attribute) and src.attr in self.o.assume_attr_not_none:
                    return isinstance(e.ops[0], ast.IsNot)
        return None

    def _raw_defs(self, name_node: ast.Name) -> List[Def]:
        try:
            return self._base_cfg().reaching_defs(name_node.id, name_node)
        except Exception:
            return []

    def _base_cfg(self) -> CFG:
        return self.prog.cfg(self.fi)

    def _cfg(self) -> CFG:
        c = self.o._cfg_cache.get(self.v.key)
        if c is None:
            def ft(test):
                v = self.fold(test)
                if v is None:
                    return None
                return bool(False if v is NONE else v)
            c = PrunedCFG(self.fi.node, self.ix.parent, ft)
            self.o._cfg_cache[self.v.key] = c
        return c

    # ------------------------------------------------------------------- run
    def run(self):
        fi = self.fi
        reach = self.cfg.reachable()
        ret_atom = ("R", self.v.key)
        is_gen = any(isinstance(n, (ast.Yield, ast.YieldFrom)) for n in A.body_nodes(fi.node))
        for node in self.cfg.nodes:
            if node.id not in reach or node.ast is None:
                continue
            a = node.ast
            if node.kind == "stmt":
                self.stmt(a)
            elif node.kind in ("test",):
                self.scan_expr(a)
            elif node.kind == "assert":
                self.scan_expr(a.test)
            elif node.kind == "for":
                self.scan_expr(a.iter)
            elif node.kind == "with":
                for it in a.items:
                    self.scan_expr(it.context_expr)
        # returns / yields
        for node in self.cfg.nodes:
            if node.id not in reach or node.ast is None or node.kind != "stmt":
                continue
            a = node.ast
            if isinstance(a, ast.Return) and a.value is not None:
                v = self.eval(a.value)
                if is_gen:
                    v = Val(FS(), v.all(), v.font)
                self.o.flow(v, ret_atom)
            for sub in A.walk_local(a):
                if isinstance(sub, ast.Yield) and sub.value is not None:
                    v = self.eval(sub.value)
                    self.o.flow(Val(FS(), v.all(), v.font), ret_atom)
                elif isinstance(sub, ast.YieldFrom):
                    v = self.eval(sub.value)
                    self.o.flow(Val(FS(), v.elem, v.font), ret_atom)

    # ------------------------------------------------------------- statements
    def stmt(self, st: ast.stmt):
        if isinstance(st, (ast.FunctionDef, ast.AsyncFunctionDef, ast.ClassDef, ast.Import, ast.ImportFrom, ast.Pass,
                           ast.Break, ast.Continue, ast.Global, ast.Nonlocal)):
            return
        if isinstance(st, ast.Assign):
            val = self.rhs(st, st.value)
            for t in st.targets:
                self.store(t, val, st, st.value)
            self.scan_expr(st.value)
            return
        if isinstance(st, ast.AnnAssign):
            if st.value is not None:
                val = self.rhs(st, st.value)
                self.store(st.target, val, st, st.value)
                self.scan_expr(st.value)
            return
        if isinstance(st, ast.AugAssign):
            val = self.eval(st.value)
            if isinstance(st.target, (ast.Attribute, ast.Subscript)):
                self.write(st, "store", st.target.value)
                self.store(st.target, val, st, st.value)
            elif isinstance(st.target, ast.Name) and isinstance(st.op, (ast.BitOr, ast.BitAnd, ast.BitXor, ast.Add, ast.Sub)):
                # x |= y / x += y mutate the object bound to x in place when it is a set / list;
                # numbers and strings are rebound instead: only flag when x is known to be a container
                if self.container_typed(st.target, st) or self.container_expr(st.value, st):
                    cur = self.name_val(st.target, st)
                    self.writes_val(st, "mutator", cur, A.text(st.target))
            self.scan_expr(st.value)
            return
        if isinstance(st, ast.Delete):
            for t in st.targets:
                if isinstance(t, (ast.Attribute, ast.Subscript)):
                    self.write(st, "del", t.value)
            return
        for sub in ast.iter_child_nodes(st):
            if isinstance(sub, ast.expr):
                self.scan_expr(sub)

    def container_expr(self, v: ast.AST, at: ast.AST) -> bool:
        """The right-hand side of `x += v` / `x |= v` is syntactically a list / set:
        then x is one too and the statement mutates it in place."""
        if isinstance(v, (ast.Set, ast.List, ast.SetComp, ast.ListComp)):
            return True
        if isinstance(v, ast.Call) and isinstance(v.func, ast.Name) and v.func.id in ("set", "list", "sorted"):
            return True
        if isinstance(v, ast.Call) and isinstance(v.func, ast.Attribute) and v.func.attr in ("get", "setdefault") and len(v.args) == 2 \
                and isinstance(v.args[1], (ast.Set, ast.List)):
            return True
        if isinstance(v, ast.Name):
            return self.container_typed(v, at)
        return False

    def container_typed(self, n: ast.Name, at: ast.AST, depth: int = 0) -> bool:
        """Some reaching definition of n is syntactically a set / list / dict (or an
        alias of a parameter / field / module constant whose type is unknown and
        the operator is a set operator)."""
        for d in self.cfg.reaching_defs(n.id, at):
            v, how = d.element()
            if d.kind == "augassign":
                continue
            if d.kind == "param":
                ann = getattr(d.binder, "annotation", None)
                if ann is not None and any(t in A.text(ann).lower() for t in ("set", "list", "dict")):
                    return True
                continue
            if v is None or how is not None:
                continue
            if isinstance(v, (ast.Set, ast.List, ast.Dict, ast.SetComp, ast.ListComp, ast.DictComp)):
                return True
            if isinstance(v, ast.Call) and A.callee_name(v) in ("set", "list", "dict", "frozenset", "defaultdict", "OrderedDict", "sorted", "union"):
                return True
            if isinstance(v, ast.Name) and depth < 3:
                if self.container_typed(v, v, depth + 1):
                    return True
                # alias of a module-level set constant
                c = self.fi.module.constants.get(v.id)
                if c is None and v.id in self.fi.module.imports:
                    obj = self.ix.lookup(self.fi.module.imports[v.id])
                    if isinstance(obj, tuple) and obj[0] == "const":
                        c = obj[1].constants[obj[2]]
                if isinstance(c, (ast.Set, ast.List, ast.Dict)) or (isinstance(c, ast.Call) and A.callee_name(c) in ("set", "list", "dict")) \
                        or isinstance(c, ast.BinOp):
                    return True
            if isinstance(v, (ast.Attribute, ast.Subscript)) or (isinstance(v, ast.Call) and A.callee_name(v) in ("get", "setdefault")):
                return True
        return False

    def kt(self, node) -> str:
        return A.keytext(self.fi.node, node)

    def rhs(self, st, value) -> Val:
        k = (self.fi.short, self.kt(st))
        if k in self.o.exempt_fresh:
            self.o.used_exempt.add(k)
            return EMPTY
        return self.eval(value)

    def store(self, target: ast.AST, val: Val, st: ast.stmt, value_expr: Optional[ast.AST]):
        if isinstance(target, (ast.Tuple, ast.List)):
            if isinstance(value_expr, (ast.Tuple, ast.List)) and len(value_expr.elts) == len(target.elts) \
                    and not any(isinstance(x, ast.Starred) for x in target.elts + value_expr.elts):
                for t, ve in zip(target.elts, value_expr.elts):
                    self.store(t, self.eval(ve), st, ve)
            else:
                for t in target.elts:
                    self.store(t.value if isinstance(t, ast.Starred) else t, val.element(), st, None)
            return
        if isinstance(target, ast.Name):
            return  # locals are resolved through reaching definitions
        if isinstance(target, ast.Attribute):
            recv = target.value
            # field store on self / context namespace
            fld = self.field_of(target)
            if fld is not None:
                if isinstance(value_expr, ast.Call) and A.callee_name(value_expr) in ("SimpleNamespace", "KernContext") and fld[2] == "context":
                    for kw in value_expr.keywords:
                        if kw.arg:
                            self.o.flow(self.eval(kw.value), ("F", fld[1], "context." + kw.arg))
                    self.o.add_special(fld, ("CTX", fld[1]))
                    self.o.flow(EMPTY, fld)
                    self.o.edges.setdefault(("CTX", fld[1]), set())
                    return
                self.o.flow(val, fld)
                return
            # attribute store on a local object: remember per (definition, attribute)
            if isinstance(recv, ast.Name):
                for d in self.cfg.reaching_defs(recv.id, recv):
                    k = (id(d.binder), d.name, target.attr)
                    prev = self.o_attrs().get(k)
                    new = join(prev, val) if prev is not None else val
                    if prev is None or new != prev:
                        self.o_attrs()[k] = new
                        self.o._changed = True
            self.write(st, "store", recv)
            self.contain(recv, val, st)
            return
        if isinstance(target, ast.Subscript):
            self.write(st, "store", target.value)
            self.contain(target.value, val, st)

    def contain(self, container: ast.AST, val: Val, st: ast.AST):
        """Weak update: `container` now holds `val` (container[k] = val, x.a = val,
        container.append(val)).  Inserting a borrowed object into the working glyph
        set is reported as an escape and not propagated."""
        cval = self.eval(container)
        tags = {t[0] for t in self.o.specials_of(cval.own) if t[0] in ("GS", "INST")}
        for tg in sorted(tags):
            stored = val.own | (val.elem if tg in self.o.escape_deep else FS())
            if stored:
                k = (self.fi.short, self.kt(st))
                self.o.writes.append(WriteEvent(self.fi, self.v.key, st, "escape:" + tg, Val(stored, FS(), FS()), A.text(container), True))
                if k in self.o.cut:
                    self.o.used_cut.add(k)
                    return
        targets = [a for a in cval.own if a[0] in ("P", "F", "R")]
        inner = Val(FS(), val.all(), val.font)
        for a in targets:
            self.o.flow(inner, a)
        # local containers: remember through a per-function side table keyed by defining stmt
        self._local_contains(container, inner, attr_store=isinstance(st, ast.Assign) and any(
            isinstance(t, ast.Attribute) and t.value is container for t in st.targets))

    def _local_contains(self, container: ast.AST, inner: Val, attr_store: bool = False):
        if isinstance(container, ast.Name):
            for d in self.cfg.reaching_defs(container.id, container):
                key = (id(d.binder), d.name, "attrs") if attr_store else (id(d.binder), d.name)
                prev = self.o_local().get(key, EMPTY)
                new = join(prev, inner)
                if new != prev:
                    self.o_local()[key] = new
                    self.o._changed = True

    def o_local(self) -> Dict:
        return self.o._local_extra.setdefault(self.v.key, {})

    def o_attrs(self) -> Dict:
        return self.o._local_attrs.setdefault(self.v.key, {})

    # -------------------------------------------------------------- writes
    def write(self, node: ast.AST, kind: str, recv_expr: ast.AST):
        if isinstance(recv_expr, ast.Name) and recv_expr.id == "self" and self.cls is not None:
            return
        self.writes_val(node, kind, self.eval(recv_expr), A.text(recv_expr))

    def writes_val(self, node, kind, val: Val, text: str):
        self.o.writes.append(WriteEvent(self.fi, self.v.key, node, kind, val, text))

    # ---------------------------------------------------------- expressions
    def scan_expr(self, e: ast.AST):
        """Find write events inside an expression (mutator calls, setattr...) and
        evaluate calls for their interprocedural effects."""
        for n in A.walk_local(e):
            if isinstance(n, ast.Call):
                self.call_effects(n)
            elif isinstance(n, ast.NamedExpr):
                pass

    def call_effects(self, c: ast.Call):
        name = A.callee_name(c)
        f = c.func
        if isinstance(f, ast.Attribute) and name in MUTATORS:
            if name == "round" and not any(r in A.text(f.value) for r in ROUND_RECEIVERS):
                pass
            elif name == "pop" and not c.args and False:
                pass
            else:
                ts, how = self.prog.resolve_callee(self.fi, f)
                pkg = [t for t in ts if isinstance(t, FuncInfo)] if how in ("exact", "cha") else []
                if not pkg:
                    self.write(c, "mutator", f.value)
                    if name in INSERTERS and len(c.args) > INSERTERS[name]:
                        k = (self.fi.short, self.kt(c))
                        if k in self.o.exempt_fresh:
                            self.o.used_exempt.add(k)
                            # an exemption can be limited to some elements of an inserted tuple: the others still flow
                            only = self.o.exempt_fresh_elems.get(k)
                            arg_ = c.args[INSERTERS[name]]
                            if only is not None and isinstance(arg_, ast.Tuple):
                                vs_ = [self.eval(x) for i_, x in enumerate(arg_.elts) if i_ not in only]
                                if vs_:
                                    j_ = join(*vs_)
                                    self.contain(f.value, Val(FS(), j_.all(), j_.font), c)
                        else:
                            self.contain(f.value, self.eval(c.args[INSERTERS[name]]), c)
        if isinstance(f, ast.Name) and name == "setattr" and len(c.args) >= 3:
            self.write(c, "setattr", c.args[0])
            self.contain(c.args[0], self.eval(c.args[2]), c)
        if name in EXTERNAL_ARG_MUTATORS and len(c.args) > EXTERNAL_ARG_MUTATORS[name]:
            ts, how = self.prog.resolve_callee(self.fi, f)
            if not any(isinstance(t, FuncInfo) for t in ts):
                v = self.eval(c.args[EXTERNAL_ARG_MUTATORS[name]])
                self.writes_val(c, "ext-mutator", Val(v.all(), FS(), FS()), A.text(c.args[EXTERNAL_ARG_MUTATORS[name]]))
        if isinstance(f, ast.Attribute) and name == "__set__" and len(c.args) >= 2:
            self.write(c, "setattr", c.args[0])
        self.eval(c)  # interprocedural flows

    def eval(self, e: ast.AST) -> Val:
        k = id(e)
        if k in self.expr_memo:
            return self.expr_memo[k]
        self.expr_memo[k] = EMPTY  # cycle guard
        v = self._eval(e)
        self.expr_memo[k] = v
        return v

    def name_val(self, n: ast.Name, at: ast.AST) -> Val:
        defs = self.cfg.reaching_defs(n.id, at)
        if not defs:
            # closure variable of the enclosing function, module global, builtin
            return self.global_val(n)
        out = []
        for d in defs:
            last = self._loop_var_after_literal_loop(d, at)
            out.append(self.eval(last) if last is not None else self.def_val(d))
        return join(*out)

    def _loop_var_after_literal_loop(self, d: Def, at: ast.AST) -> Optional[ast.AST]:
        """`for x in (a, b): ...` without break: after the loop x is b (not 'a or b')."""
        if d.kind != "for" or not isinstance(d.binder, ast.For) or not isinstance(d.target, ast.Name):
            return None
        it = d.binder.iter
        if not isinstance(it, (ast.Tuple, ast.List)) or not it.elts or any(isinstance(e, ast.Starred) for e in it.elts):
            return None
        inside = any(a is d.binder for a in self.ix.ancestors(at)) or at is d.binder
        if inside:
            return None
        for x in ast.walk(d.binder):
            if isinstance(x, ast.Break):
                return None
        return it.elts[-1]

    def global_val(self, n: ast.Name) -> Val:
        p = self.fi.parent
        if p is not None:
            # free variable of a nested function: evaluate in the parent variant with the same bindings
            pv = self.o.variants.get(p.qname)
            if pv is None:
                pv = self.o.request(p, ())
            pe = FuncEval(self.o, pv)
            # value at the point of the nested def
            return pe.name_val(ast.Name(id=n.id, ctx=ast.Load()), self.fi.node)
        return EMPTY

    def def_val(self, d: Def) -> Val:
        key = (id(d.binder), d.name)
        if key in self.memo:
            return self.memo[key]
        if key in self.in_progress:
            return EMPTY
        self.in_progress.add(key)
        v = self._def_val(d)
        extra = self.o_local().get(key)
        if extra is not None:
            v = join(v, extra)
        self.noattr_memo[key] = v
        extra2 = self.o_local().get(key + ("attrs",))
        if extra2 is not None:
            v = join(v, extra2)
        self.in_progress.discard(key)
        self.memo[key] = v
        return v

    def name_val_noattrs(self, n: ast.Name) -> Val:
        """Value of a local without what was stored into its *attributes* (those are
        tracked per attribute name)."""
        defs = self.cfg.reaching_defs(n.id, n)
        if not defs:
            return self.global_val(n)
        out = []
        for d in defs:
            self.def_val(d)
            out.append(self.noattr_memo.get((id(d.binder), d.name), EMPTY))
        return join(*out)

    def _def_val(self, d: Def) -> Val:
        if d.kind == "param":
            name = d.name
            if name in self.v.bindings:
                return EMPTY
            if name in ("self", "cls") and self.cls is not None and not self.fi.is_static and self.fi.parent is None:
                return Val(FS([("SELF", self.fam)]))
            if d.node == -1:  # lambda parameter
                return EMPTY
            slot = self.o.slot(("P", self.v.key, name))
            return slot
        if d.kind in ("assign", "annassign", "walrus"):
            st = d.binder
            if isinstance(st, ast.stmt) and (self.fi.short, self.kt(st)) in self.o.exempt_fresh:
                self.o.used_exempt.add((self.fi.short, self.kt(st)))
                return EMPTY
            v, how = d.element()
            if v is None:
                return EMPTY
            val = self.eval(v)
            if how is None:
                return val
            return val.element()
        if d.kind == "augassign":
            prev = join(*[self.def_val(x) for x in self.cfg.reaching_defs(d.name, d.binder) if x is not d]) \
                if True else EMPTY
            r = self.eval(d.value)
            return Val(prev.own, prev.elem | r.elem, prev.font | r.font)
        if d.kind in ("for", "comp"):
            return self.unpack(d.value, d.target, d.name)
        if d.kind == "with":
            return self.eval(d.value)
        return EMPTY

    def families_of(self, v: Val) -> List[str]:
        return sorted({t[1] for t in self.o.specials_of(v.own) if t[0] == "SELF"})

    def property_call(self, e: ast.Attribute) -> Optional[Val]:
        """`obj.attr` where attr is a @property / @cached_property of obj's class
        family: evaluate as a call of that method."""
        base = e.value
        if isinstance(base, ast.Name) and base.id in ("self", "cls") and self.cls is not None and not self.fi.is_static \
                and all(d.kind == "param" for d in self.cfg.reaching_defs(base.id, base)):
            fams = [self.fam]
        else:
            cands = [m for m in self.ix.methods_named(e.attr) if m.is_property]
            if not cands:
                return None
            fams = self.families_of(self.eval(base))
        out = []
        for fam in fams:
            for ci in self.ix.subclasses(fam):
                m = ci.methods.get(e.attr)
                if m is not None and m.is_property and not any(d.endswith(".setter") for d in m.decorators):
                    v = self.o.request(m, ())
                    out.append(self.o.slot(("R", v.key)))
        return join(*out) if out else None

    def dunder_call(self, recv: Val, name: str, args: List[Val]) -> Optional[Val]:
        out = []
        for fam in self.families_of(recv):
            for ci in self.ix.subclasses(fam):
                m = ci.methods.get(name)
                if m is not None:
                    v = self.o.request(m, ())
                    pos = [x.arg for x in m.node.args.args][1:]
                    for pn, av in zip(pos, args):
                        self.o.flow(av, ("P", v.key, pn))
                    out.append(self.o.slot(("R", v.key)))
        return join(*out) if out else None

    def unpack(self, it: ast.AST, target: ast.AST, name: str) -> Val:
        """Value bound to `name` when iterating `it` with `target`."""
        if isinstance(target, ast.Name):
            return self.eval(it).element()
        if isinstance(target, ast.Starred):
            return self.unpack(it, target.value, name)
        if not isinstance(target, (ast.Tuple, ast.List)):
            return EMPTY
        idx = next((i for i, t in enumerate(target.elts) if name in A.target_names(t)), None)
        if idx is None:
            return EMPTY
        sub = target.elts[idx]
        if isinstance(it, ast.Call):
            fn = A.callee_name(it)
            if fn in ("zip", "zip_strict", "zip_longest") and len(it.args) == len(target.elts) and not any(isinstance(a, ast.Starred) for a in it.args):
                return self.unpack(it.args[idx], sub, name)
            if fn == "enumerate" and it.args and len(target.elts) == 2:
                if idx == 0:
                    return EMPTY
                return self.unpack(it.args[0], sub, name)
            if fn == "items" and isinstance(it.func, ast.Attribute) and len(target.elts) == 2:
                if idx == 0:
                    return EMPTY  # keys: names / tuples of names
                base = self.eval(it.func.value)
                if isinstance(sub, ast.Name):
                    return base.element()
                return Val(base.elem, base.elem, base.font)
            if fn in ("sorted", "list", "tuple", "reversed") and it.args:
                return self.unpack(it.args[0], target, name)
            if fn == "product" and len(it.args) == len(target.elts):
                return self.unpack(it.args[idx], sub, name)
        if isinstance(it, (ast.Tuple, ast.List)) and it.elts and all(isinstance(x, (ast.Tuple, ast.List)) and len(x.elts) == len(target.elts) for x in it.elts):
            vals = [self.eval(x.elts[idx]) for x in it.elts]
            v = join(*vals)
            return v if isinstance(sub, ast.Name) else v.element()
        v = self.eval(it).element()
        return v.element() if not isinstance(sub, ast.Name) else Val(v.elem, v.elem, v.font)

    def field_of(self, e: ast.Attribute) -> Optional[Atom]:
        """Field atom for `self.attr`, `self.context.attr`, `<ctx value>.attr`,
        `<SELF-carrying value>.attr`."""
        base = e.value
        if isinstance(base, ast.Name) and base.id in ("self", "cls") and self.cls is not None:
            defs = self.cfg.reaching_defs(base.id, base)
            if all(d.kind == "param" for d in defs) and not self.fi.is_static:
                return ("F", self.fam, e.attr)
        bval = self.eval(base)
        sp = self.o.specials_of(bval.own)
        for tag in sorted(sp):
            if tag[0] == "CTX":
                return ("F", tag[1], "context." + e.attr)
        for tag in sorted(sp):
            if tag[0] == "SELF" and e.attr in self.o.family_fields(tag[1]):
                return ("F", tag[1], e.attr)
        return None

    def _eval(self, e: ast.AST) -> Val:
        if isinstance(e, ast.Constant):
            return EMPTY
        if isinstance(e, ast.Name):
            return self.name_val(e, e)
        if isinstance(e, ast.Attribute):
            if e.attr in SCALAR_ATTRS:
                self.eval(e.value)
                return EMPTY
            # flow-sensitive view of self.<attr> assigned earlier in this function
            if isinstance(e.value, ast.Name) and e.value.id == "self" and self.cls is not None:
                ds = self.cfg.reaching_defs("self." + e.attr, e)
                fld0 = ("F", self.fam, e.attr)
                if ds and all(d.kind == "assign" for d in ds) and not self.o.special.get(fld0) \
                        and not any(isinstance(d.value, ast.Call) and A.callee_name(d.value) in ("SimpleNamespace", "KernContext") for d in ds):
                    vals = []
                    for d in ds:
                        if isinstance(d.target, ast.Attribute):
                            vals.append(self.eval(d.value))
                        else:
                            vals.append(self.eval(d.value).element())
                    return join(*vals)
            # attribute stored on a local object in this function
            if isinstance(e.value, ast.Name) and e.value.id not in ("self", "cls"):
                ds = self.cfg.reaching_defs(e.value.id, e.value)
                if ds:
                    got = [self.o_attrs().get((id(d.binder), d.name, e.attr)) for d in ds]
                    if all(g is not None for g in got):
                        return join(*got)
            prop = self.property_call(e)
            if prop is not None:
                return prop
            fld = self.field_of(e)
            if fld is not None:
                v = self.o.slot(fld)
                # several families may be carried: join them all
                bval = self.eval(e.value) if not (isinstance(e.value, ast.Name) and e.value.id in ("self", "cls")) else EMPTY
                sp = self.o.specials_of(bval.own)
                for tag in sp:
                    if tag[0] == "CTX":
                        v = join(v, self.o.slot(("F", tag[1], "context." + e.attr)))
                    elif tag[0] == "SELF" and e.attr in self.o.family_fields(tag[1]):
                        v = join(v, self.o.slot(("F", tag[1], e.attr)))
                return v
            if isinstance(e.value, ast.Name) and e.value.id not in ("self", "cls") and self.cfg.reaching_defs(e.value.id, e.value):
                b = self.name_val_noattrs(e.value)
            else:
                b = self.eval(e.value)
            if e.attr == "font":
                allf = b.own | b.elem | b.font
                return Val(allf, allf, allf)
            if e.attr in SCALAR_ELEM_ATTRS:
                return Val(b.own | b.elem, FS(), FS())
            if e.attr in FLAT_ELEM_ATTRS:
                return Val(b.own | b.elem, b.own | b.elem, FS(), True)
            return b.below()
        if isinstance(e, ast.Subscript):
            b = self.eval(e.value)
            gi = self.dunder_call(b, "__getitem__", [self.eval(e.slice)] if not isinstance(e.slice, ast.Slice) else [])
            if gi is not None:
                return join(b.element(), gi)
            return b.element()
        if isinstance(e, ast.Starred):
            return self.eval(e.value)
        if isinstance(e, (ast.List, ast.Tuple, ast.Set)):
            vs = [self.eval(x) for x in e.elts]
            j = join(*vs) if vs else EMPTY
            return Val(FS(), j.all(), j.font)
        if isinstance(e, ast.Dict):
            vs = [self.eval(x) for x in e.values if x is not None]
            j = join(*vs) if vs else EMPTY
            return Val(FS(), j.all(), j.font)
        if isinstance(e, (ast.ListComp, ast.SetComp, ast.GeneratorExp)):
            j = self.eval(e.elt)
            return Val(FS(), j.all(), j.font)
        if isinstance(e, ast.DictComp):
            j = self.eval(e.value)
            return Val(FS(), j.all(), j.font)
        if isinstance(e, ast.IfExp):
            t = self.fold(e.test)
            if t is not None:
                return self.eval(e.body if (t is not NONE and t) else e.orelse)
            return join(self.eval(e.body), self.eval(e.orelse))
        if isinstance(e, ast.BoolOp):
            return join(*[self.eval(v) for v in e.values])
        if isinstance(e, ast.BinOp):
            l, r = self.eval(e.left), self.eval(e.right)
            return Val(FS(), l.elem | r.elem, l.font | r.font)
        if isinstance(e, ast.NamedExpr):
            return self.eval(e.value)
        if isinstance(e, ast.Await):
            return self.eval(e.value)
        if isinstance(e, ast.Call):
            return self.call(e)
        if isinstance(e, ast.Lambda):
            return EMPTY
        return EMPTY

    # ---------------------------------------------------------------- calls
    def call(self, c: ast.Call) -> Val:
        o = self.o
        tk = (self.fi.short, self.kt(c))
        if tk in o.tag_calls:
            tg = (o.tag_calls[tk],)
            o.edges.setdefault(tg, set())
            for a in c.args:
                self.eval(a)
            return Val(FS([tg]))
        name = A.callee_name(c)
        f = c.func
        o.stats["calls"] += 1
        args = self.eval_args(c)
        # builtin-ish value plumbing
        if isinstance(f, ast.Name) or (isinstance(f, ast.Attribute) and self.ix.resolve_expr(self.fi.module, f, self.cls)):
            if name in DEEP_COPIES:
                return EMPTY
            if name in SHALLOW_COPIES and args and isinstance(f, (ast.Name, ast.Attribute)) and A.text(f) in ("copy", "copy.copy"):
                return Val(FS(), args[0].elem, args[0].font)
            if name in CONTAINER_CTORS and isinstance(f, ast.Name) or name in ("chain", "zip_longest", "cast"):
                if name == "cast" and len(args) == 2:
                    return args[1]
                if name in ("next", "max", "min") and args:
                    return args[0].element()
                if name in ("zip", "zip_strict", "enumerate", "chain", "zip_longest", "filter"):
                    vals = args[1:] if name == "filter" and len(args) > 1 else args
                    j = join(*vals) if vals else EMPTY
                    return Val(FS(), j.elem, j.font)
                if name == "iter" and args:
                    return Val(FS(), args[0].elem, args[0].font)
                if args:
                    j = join(*args)
                    return Val(FS(), j.elem, j.font)
                kw = [self.eval(k.value) for k in c.keywords]
                if kw:
                    j = join(*kw)
                    return Val(FS(), j.all(), j.font)
                return EMPTY
            if name in ("splitInterpolable", "splitVariableFonts") and args:
                allf = args[0].own | args[0].elem | args[0].font
                return Val(FS(), FS(), allf)
            if name == "getattr" and isinstance(f, ast.Name) and args:
                if len(c.args) >= 2 and isinstance(c.args[1], ast.Constant) and isinstance(c.args[1].value, str):
                    synth = ast.Attribute(value=c.args[0], attr=c.args[1].value, ctx=ast.Load())
                    ast.copy_location(synth, c)
                    v = self._eval(synth)
                else:
                    v = args[0].below()
                if len(args) > 2:
                    v = join(v, args[2])
                return v
            if name in ("SimpleNamespace",) and isinstance(f, ast.Name):
                kw = [self.eval(k.value) for k in c.keywords]
                j = join(*kw) if kw else EMPTY
                return Val(FS(), j.all(), j.font)
        if isinstance(f, ast.Attribute):
            recv = self.eval(f.value)
            if name == "deepcopyExceptFonts" or name == "deepcopy":
                if name == "deepcopyExceptFonts":
                    allf = recv.own | recv.elem | recv.font
                    return Val(FS(), FS(), allf)
                return EMPTY
            ts, how = self.prog.resolve_callee(self.fi, f)
            pkg = [t for t in ts if isinstance(t, (FuncInfo, ClassInfo))]
            if how in ("by-name", "unresolved"):
                # receiver known to be an instance of a package class family
                fams = {t[1] for t in self.o.specials_of(recv.own) if t[0] == "SELF"}
                typed = []
                for fam in sorted(fams):
                    for ci in self.ix.subclasses(fam):
                        m = ci.methods.get(name)
                        if m is not None and m not in typed:
                            typed.append(m)
                if typed:
                    pkg, how = typed, "cha"
            if how == "by-name" and (name in STOP_BY_NAME and name not in KEEP_BY_NAME):
                pkg = []
            if not pkg or how in ("external", "unresolved"):
                if name in ELEM_METHODS:
                    v = recv.element()
                    if name in ("get", "__getitem__"):
                        gi = self.dunder_call(recv, "__getitem__", args[:1])
                        if gi is not None:
                            v = join(v, gi)
                    if name in ("get", "setdefault", "pop") and len(args) > 1:
                        v = join(v, args[1])
                    if name == "copy":
                        return Val(FS(), recv.elem, recv.font)
                    if name in ("values", "items"):
                        return Val(FS(), recv.elem, recv.font)
                    return v
                if name == "keys":
                    return EMPTY
                if name in PART_METHODS:
                    return recv.below()
                # dataclass field holding a class: self.outlineCompilerClass(...)
                cands = self.field_classes(f)
                if cands:
                    return self.call_targets(c, cands, args, "cha")
                o.stats["calls_external_or_unknown"] += 1
                return EMPTY
            return self.call_targets(c, pkg, args, how, recv)
        ts, how = self.prog.resolve_callee(self.fi, f)
        pkg = [t for t in ts if isinstance(t, (FuncInfo, ClassInfo))]
        if pkg:
            return self.call_targets(c, pkg, args, how)
        # call through a value: filter objects, writer objects, callbacks
        if isinstance(f, ast.Name):
            cands = self.value_callees(f)
            if cands:
                return self.call_targets(c, cands, args, "cha")
        if isinstance(f, ast.Call):
            # ClassName(...)(args): an instance of a package class is called
            inner, ihow = self.prog.resolve_callee(self.fi, f.func)
            klass = [t for t in inner if isinstance(t, ClassInfo)]
            self.eval(f)
            if klass:
                ms = []
                for k in klass:
                    ms += self.ix.overriders(k, "__call__")
                if ms:
                    return self.call_targets(c, ms, args, "cha")
        o.stats["calls_external_or_unknown"] += 1
        return EMPTY

    def eval_args(self, c: ast.Call) -> List[Val]:
        """Positional argument values; `*args` where args is this function's own
        vararg parameter expands positionally (pass-through wrappers)."""
        out = []
        va = self.fi.node.args.vararg
        for a in c.args:
            if isinstance(a, ast.Starred):
                if isinstance(a.value, ast.Name) and va is not None and a.value.id == va.arg \
                        and all(d.kind == "param" for d in self.cfg.reaching_defs(va.arg, a.value)):
                    for j in range(8):
                        out.append(self.o.slot(("P", self.v.key, f"{va.arg}#{j}")))
                    continue
                v = self.eval(a.value)
                out.append(Val(v.elem, v.elem, v.font))
            else:
                out.append(self.eval(a))
        return out

    def _is_self_dict_plumbing(self, e: ast.AST) -> bool:
        def is_prune(x):
            return isinstance(x, ast.Call) and A.callee_name(x) == "prune_unknown_kwargs" and x.args and A.text(x.args[0]) == "self.__dict__"
        if is_prune(e):
            return True
        if isinstance(e, ast.Name):
            ds = self.cfg.reaching_defs(e.id, e)
            return bool(ds) and all(d.kind == "assign" and is_prune(d.element()[0]) for d in ds)
        return False

    def field_classes(self, f: ast.Attribute) -> List[ClassInfo]:
        if not (isinstance(f.value, ast.Name) and f.value.id == "self" and self.cls is not None):
            return []
        out = []
        for ci in [self.cls] + self.ix.subclasses(self.cls.qname, strict=True) + self.ix.mro(self.cls):
            cands = []
            if f.attr in ci.attrs:
                cands.append((ci, ci.attrs[f.attr]))
            for m in ci.methods.values():
                for n in A.body_nodes(m.node):
                    if isinstance(n, ast.Assign) and any(isinstance(t, ast.Attribute) and t.attr == f.attr and isinstance(t.value, ast.Name)
                                                         and t.value.id == "self" for t in n.targets):
                        cands.append((ci, n.value))
            for owner, expr in cands:
                d = self.ix.resolve_expr(owner.module, expr, owner)
                obj = self.ix.lookup(d) if d else None
                if isinstance(obj, ClassInfo):
                    for sc in [obj] + self.ix.subclasses(obj.qname, strict=True):
                        if sc not in out:
                            out.append(sc)
        return out

    def value_callees(self, f: ast.Name) -> List[FuncInfo]:
        if f.id == "cls" and self.fi.is_classmethod and self.cls is not None:
            return [self.cls] + self.ix.subclasses(self.cls.qname, strict=True)
        """Candidates for calling a local value: by parameter annotation, else
        every package __call__ implementation (filter objects)."""
        defs = self.cfg.reaching_defs(f.id, f)
        out: List[FuncInfo] = []
        if not defs:
            return []  # builtin / global: not a call through a local value
        if self.fi.short in self.o.value_calls:
            defs = []
        for d in defs:
            if d.kind == "param" and isinstance(d.binder, ast.arg) and d.binder.annotation is not None:
                ann = d.binder.annotation
                names = [n for n in ast.walk(ann) if isinstance(n, (ast.Name, ast.Attribute))]
                for n in names:
                    r = self.ix.resolve_expr(self.fi.module, n, self.cls)
                    obj = self.ix.lookup(r) if r else None
                    if isinstance(obj, ClassInfo):
                        out += self.ix.overriders(obj, "__call__")
        vk = self.fi.short
        if not out and vk in self.o.value_calls:
            base, excl = self.o.value_calls[vk]
            self.o.used_value_calls.add(vk)
            for ci in self.ix.subclasses(base):
                if excl and self.ix.is_subclass(ci, excl):
                    continue
                m = ci.methods.get("__call__")
                if m is not None and m not in out:
                    out.append(m)
            return out
        if not out and defs and all(d.kind in ("for", "comp") for d in defs):
            # loop variable over a list of callable objects of unknown class
            out = [m for m in self.ix.methods_named("__call__")]
        return out

    def call_targets(self, c: ast.Call, targets, args: List[Val], how: str, recv: Optional[Val] = None) -> Val:
        o = self.o
        if how in ("exact", "cha"):
            o.stats["calls_resolved"] += 1
        else:
            o.stats["calls_by_name"] += 1
        results = []
        for t in targets:
            if isinstance(t, ClassInfo):
                fresh = Val(FS([("SELF", o.family(t))]))
                for mname in ("__init__", "__post_init__"):
                    m = self.ix.find_method(t, mname)
                    if m is not None and mname == "__init__":
                        self.bind(c, m, args, skip_self=True)
                    elif m is not None:
                        o.request(m, ())
                ext = {b.split(".")[-1] for b in self.ix.external_bases(t)}
                if ext & {"dict", "list", "set", "OrderedDict", "frozenset", "tuple"} and self.ix.find_method(t, "__init__") is None:
                    j = join(*args) if args else EMPTY
                    fresh = Val(fresh.own, j.elem, j.font)
                elif self.ix.find_method(t, "__init__") is None:
                    # dataclass / plain: keyword and positional arguments become fields
                    fam = o.family(t)
                    fields = [n for cc in reversed(self.ix.mro(t)) for n in cc.annotations]
                    for i, a in enumerate(args):
                        if i < len(fields):
                            o.flow(a, ("F", fam, fields[i]))
                    for kw in c.keywords:
                        if kw.arg:
                            o.flow(self.eval(kw.value), ("F", fam, kw.arg))
                results.append(fresh)
                continue
            m: FuncInfo = t
            skip_self = m.cls is not None and not m.is_static and m.parent is None
            # Class.method(self, ...) explicit-self call
            explicit_self = skip_self and isinstance(c.func, ast.Attribute) and self.ix.resolve_expr(self.fi.module, c.func, self.cls) is not None \
                and not m.is_classmethod and isinstance(self.ix.lookup(self.ix.resolve_expr(self.fi.module, c.func.value, self.cls) or ""), ClassInfo)
            vkey = self.bind(c, m, args[1:] if explicit_self else args, skip_self=skip_self, drop_first_ast=explicit_self)
            if m.is_property:
                continue
            results.append(o.slot(("R", vkey)))
        return join(*results) if results else EMPTY

    def bind(self, c: ast.Call, m: FuncInfo, args: List[Val], skip_self: bool, drop_first_ast: bool = False) -> str:
        """Create / reuse the callee variant for this call site and add
        actual -> formal flow edges.  Returns the variant key."""
        o = self.o
        a = m.node.args
        pos = [x.arg for x in a.posonlyargs + a.args]
        if skip_self and pos:
            pos = pos[1:]
        kwonly = [x.arg for x in a.kwonlyargs]
        call_args = list(c.args[1:] if drop_first_ast else c.args)
        # constant bindings for parameters the callee branches on
        tested = o.tested_params(m)
        bindings = []
        actual: Dict[str, Tuple[Val, Optional[ast.AST]]] = {}
        star = any(isinstance(x, ast.Starred) for x in call_args)
        # AST node of each positional value (None once a *star has been expanded)
        nodes: List[Optional[ast.AST]] = []
        for x in call_args:
            if isinstance(x, ast.Starred):
                break
            nodes.append(x)
        for i, av in enumerate(args):
            node = nodes[i] if i < len(nodes) else None
            if i < len(pos):
                actual[pos[i]] = (av, node)
            elif a.vararg:
                actual[f"{a.vararg.arg}#{i - len(pos)}"] = (av, None)
                prev = actual.get("*" + a.vararg.arg, (EMPTY, None))[0]
                actual["*" + a.vararg.arg] = (join(prev, Val(FS(), av.all(), av.font)), None)
        my_kwarg = self.fi.node.args.kwarg
        for kw in c.keywords:
            if kw.arg is None:
                # **kwargs pass-through of this function's own **kwargs parameter
                if isinstance(kw.value, ast.Name) and my_kwarg is not None and kw.value.id == my_kwarg.arg:
                    for pn in pos + kwonly:
                        if pn not in actual:
                            actual[pn] = (self.o.slot(("P", self.v.key, f"{my_kwarg.arg}:{pn}")), None)
                elif self.cls is not None and self._is_self_dict_plumbing(kw.value):
                    # **prune_unknown_kwargs(self.__dict__, consumer): every unbound parameter of the
                    # consumer receives the compiler field of the same name
                    for pn in pos + kwonly:
                        if pn not in actual:
                            actual[pn] = (self.o.slot(("F", self.fam, pn)), None)
                continue  # other **mappings: not source objects
            v = self.eval(kw.value)
            if kw.arg in pos or kw.arg in kwonly:
                actual[kw.arg] = (v, kw.value)
            elif a.kwarg:
                actual[f"{a.kwarg.arg}:{kw.arg}"] = (v, None)
                prev = actual.get("**" + a.kwarg.arg, (EMPTY, None))[0]
                actual["**" + a.kwarg.arg] = (join(prev, Val(FS(), v.all(), v.font)), None)
        # defaults for omitted, tested parameters
        defaults = {}
        dpos = a.posonlyargs + a.args
        for arg, dv in zip(dpos[len(dpos) - len(a.defaults):], a.defaults):
            defaults[arg.arg] = dv
        for arg, dv in zip(a.kwonlyargs, a.kw_defaults):
            if dv is not None:
                defaults[arg.arg] = dv
        for p in tested:
            node = actual[p][1] if p in actual else defaults.get(p) if not star else None
            if node is None:
                continue
            cv = self.fold(node) if p in actual else (NONE if isinstance(node, ast.Constant) and node.value is None else node.value if isinstance(node, ast.Constant) else None)
            if cv is True or cv is False or cv is NONE:
                bindings.append((p, cv))
        variant = o.request(m, tuple(sorted(bindings, key=lambda x: x[0])))
        for p, (v, _n) in actual.items():
            if p in dict(bindings):
                continue
            o.flow(v, ("P", variant.key, p.lstrip("*")))
        return variant.key


class _NoneType:
    def __repr__(self):
        return "None"

    def __bool__(self):
        return False


NONE = _NoneType()


class PrunedCFG(CFG):
    """CFG whose `if` / `while` / conditional-expression tests that fold to a
    constant under the specialisation only keep the taken branch."""

    def __init__(self, func_node, parent_of, fold_test):
        self._fold_test = fold_test
        super().__init__(func_node, parent_of)

    def _stmt(self, st, dangling, ctx):
        if isinstance(st, ast.If):
            tv = None
            try:
                tv = self._fold_test(st.test)
            except Exception:
                tv = None
            if tv is not None:
                # keep the test as a plain node so that its expressions are still evaluated
                t = self._new("test", st.test)
                self.owner[id(st)] = t
                self._connect(dangling, t)
                return self._seq(st.body if tv else st.orelse, [(t, True if tv else False)], ctx)
        return super()._stmt(st, dangling, ctx)
