"""vt - static verification toolkit for googlefonts/ufo2ft (pure stdlib, ast-based).

Nothing in this package imports or executes ufo2ft; every check re-parses the
sources under $VT_REPO (default /repo) on every run.
"""
