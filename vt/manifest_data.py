"""Single source for MANIFEST.json (see tools_manifest.py)."""

STATIC_NOTE = ("Trusted base: CPython's ast parser, this checker's resolver/CFG, and the documented behaviour of "
               "fontTools/fontMath/defcon/ufoLib2 (their sources are only parsed for signatures). Decides the named "
               "structural clauses on every path / call site of the current source; does NOT decide the runtime "
               "behaviour (numeric results, byte equality, shaping).")

CHECKS = {
    "C03": dict(
        text="Static, exhaustive over the code: every store into the code-point mapping is guarded by absence and the duplicate "
             "raises InvalidFontData which no handler on a compile path can swallow; one glyph order feeds all ordered emissions; "
             ".notdef precedes order computation on all paths; BMP split and UVS branch structure. Necessary structural clauses "
             "only; the ordering function itself is not evaluated. The compilers never fill in or override their glyphOrder option (a source is ordered by the caller's argument or its own public.glyphOrder). A glyph a filter copies from another layer under a new name loses its code points first; glyph copies keep every code point.",
        design_ref="DESIGN.md §5 C03", note=STATIC_NOTE,
        technique="static analysis: CFG control-dependence + dominance rules, call-graph exception-handler audit"),
    "C12": dict(
        text="Static: subroutiniser dispatch and version-default table are exhaustive over their enums; every unsupported combination "
             "reaches NotImplementedError (guard formulas checked by propositional entailment, form-independent); specialise/subroutinise "
             "thresholds agree with the IntEnum order; interpolatable masters are forced to NONE on every path; the four options reach "
             "their consumers by name. Does not decide that the drawn outlines are equal across combinations. The subroutiniser that runs is the requested one; the encoding options are invisible to pre-processing and layout code (not even as a parameter name).",
        design_ref="DESIGN.md §5 C12", note=STATIC_NOTE,
        technique="static analysis: enum/dispatch-table exhaustiveness, guard facts from control dependence, dominance, signature agreement"),
    "C16": dict(
        text="Static, exhaustive over all 141 getAttrWithFallback call sites (names folded by constant propagation with call-site "
             "specialisation): fallback lookup is total and terminates (acyclic dependency graph); the PostScript sanitiser's tests "
             "provably apply to the appended character (propositional entailment over the guards, stable reaching definitions); every CFF "
             "string sink is fed through the reducer (4 listed known findings); the VF info override forwards every info-derived field; "
             "every UFO3 fontinfo attribute is consumed or reviewed-unused. the object getAttrWithFallback returns is never modified in place; info values are compared with None, never tested by truthiness (reviewed string / list exceptions); styleMapStyleName is translated to the fsSelection / macStyle bits the OpenType spec assigns and the two tables agree. Other field values are not decided. A built name record is skipped only when a record with the same four keys exists; InfoCompiler copies a compiled override whenever the field exists.",
        design_ref="DESIGN.md §5 C16", note=STATIC_NOTE,
        technique="static analysis: constant propagation, fallback call-graph cycle check, value-flow sanitiser rule, taint of info-derived fields"),
    "C13": dict(
        text="Static: the skip-export stage precedes every other filter in all four pre-processors (dominance / path rules on the "
             "constructors); both sibling filters decompose with include=<skip set>, decomposeNested=False, delete every skipped glyph "
             "and report it; every lib-derived assignment of the compiler's skip list is guarded by 'is None' (argument wins); kerning "
             "groups, recorded pairs (guard formulas by propositional entailment, both kern writers, static and variable) and GDEF "
             "classes are restricted to the filtered glyph set. Rendering equality of remaining glyphs is not decided. The kern writers' mark filtering set only lists exported glyphs and the IgnoreMarks / filtering-set decision is made on its members; scripts are guessed from exported glyphs only. An instance generated from a designspace ends up with the designspace's skip list; the union of lib keys covers every UFO.",
        design_ref="DESIGN.md §5 C13", note=STATIC_NOTE,
        technique="static analysis: CFG dominance/path rules, sibling agreement, guard entailment over control-dependence facts"),
    "C07": dict(
        text="Static whole-package ownership / effect analysis on the inplace=False specialisation: 393 functions (416 call-site "
             "variants), ~650 write events (attribute / subscript stores, deletions, mutator calls, pen acquisitions, setattr, "
             "third-party in-place converters) each decided 'receiver owned' or 'receiver reachable from the ufo / ufos / "
             "designSpaceDoc argument'; plus escape of borrowed objects into the working glyph set, copy completeness of "
             "_copyGlyph/_copyLayer/from_layer, rememberCurveType-implies-inplace, and the linked obligations the analysis' "
             "assumptions rest on. 8 genuine instances are listed known findings. Does not decide equality of source snapshots at run time. Nothing writes into a designspace source's location dictionary; the value getAttrWithFallback returns is never modified in place; the explicit notdefGlyph option is the caller's object.",
        design_ref="DESIGN.md §5 C07, §3 E3", note=STATIC_NOTE + " Fields are keyed by (class family, attribute); two-level object abstraction; "
             "unresolved callees are assumed not to mutate their arguments (count reported in evidence).",
        technique="static analysis: interprocedural ownership/effect (taint) analysis with call-site specialisation, field sensitivity, flow-sensitive locals"),
    "C14": dict(
        text="Static over all 19 filter classes: include() guards every filter() call; no per-call state outside a fresh self.context; "
             "typestate 'context read only after set_context' on every __call__; mutation-then-constant-False-return paths excluded "
             "(CFG path rule with mutation summaries of helper functions and a flag-feasibility refinement); every glyph-set insertion / "
             "deletion is reported; ownership analysis seeded at the filters' font parameter shows no write to the font (6 listed known "
             "findings); include+exclude raise. Does not decide that reported/unreported glyphs really did/did not change. Memoising decorators on filter methods are violations (shared with C08). loadFilters forwards include / exclude exactly as stored in the lib.",
        design_ref="DESIGN.md §5 C14, §3 E3/E8", note=STATIC_NOTE,
        technique="static analysis: typestate via dominators, CFG path rules with interprocedural mutation summaries, ownership analysis, guard entailment"),
    "C20": dict(
        text="Static sibling-agreement rule over the GPOS writers of FeatureCompiler.defaultFeatureWriters: how each registers its lookups "
             "(explicit script/language statements from code-point-derived scripts vs. bare lookups that depend on languagesystem), "
             "derived from the statement kinds reachable from each writer's _write. All writers must share one mode unless something "
             "generates languagesystem statements. Today's mismatch (kern explicit, mark and curs implicit) is a genuine defect recorded "
             "as two known findings; any further writer or mode change is a new violation. Where scripts are registered explicitly the languages under a tag are those declared for that tag; writers keep no per-font state / memoised classification. The compiled ScriptList is not evaluated. getScriptLanguageSystems files every declared language under the statement's own OT script tag. The font's scripts are guessed from exported glyphs only; generated features are never spliced into a user's block (script / language context).",
        design_ref="DESIGN.md §5 C20", note=STATIC_NOTE,
        technique="static analysis: per-writer reachability over the call graph + sibling agreement on emitted statement kinds"),
    "C18": dict(
        text="Static: argument-role agreement of GlyphClassDefStatement / CursivePosStatement with the fontTools signatures (parsed from "
             "site-packages on every run) and of OpenTypeCategories.load with its tuple fields; user-GDEF suppression is exhaustive over "
             "every LigatureCaret*Statement class feaLib defines (guard formula entailment); carets sorted then otRound'ed, x for caret_, "
             "y for vcaret_; RightToLeft flag control-dependence with the .LTR/.RTL override ordered before it; LTR/RTL split by the LTR "
             "glyph set; cursive coordinates rounded. the LTR glyph set is classifyGlyphs(unicodeScriptDirection, whole cmap, compiled GSUB, extras); no caret / cursive coordinate tested by truthiness. The compiled GDEF/GPOS values are not read back.",
        design_ref="DESIGN.md §5 C18", note=STATIC_NOTE,
        technique="static analysis: signature/role agreement with third-party sources, control-dependence facts, exhaustiveness over parsed class list"),
    "C01": dict(
        text="Static plumbing clauses of the CFF path: every CFF pre-processor (static and interpolatable, resolved through the compilers' "
             "preProcessorClass fields) adds an unconditional DecomposeComponents filter on every path; flipped components are reversed "
             "(default, forwarding to the pen whose signature is parsed from fontTools, no call site switches it off); advance widths / "
             "heights / charstring widths flow through otRound on every reaching definition; roundTolerance reaches the pen; builtin "
             "round/int/floor/ceil only at 11 reviewed sites; negative advances raise before being stored; each glyph is drawn exactly once "
             "and directly into its T2CharStringPen. no rounding of glyph geometry inside the pre-processing filters / decomposition helper (reviewed exceptions); components are only resolved by util.decomposeCompositeGlyph. Equality of drawn coordinates with the source is not decided. The outline compilers generate a glyph only for a name the glyph set lacks (a source glyph is never replaced by a generated one).",
        design_ref="DESIGN.md §5 C01", note=STATIC_NOTE,
        technique="static analysis: value-flow (reaching definitions) sanitiser rule for otRound, CFG dominance/path rules, reviewed coercion whitelist"),
    "C02": dict(
        text="Static plumbing clauses of the TrueType path: the filter-pipeline decision table is checked for both sibling pre-processors by "
             "propositional evaluation of the guards over all option assignments (filter applied iff the options say so); option->keyword "
             "bindings; the absolute-error formula (structure, per-master UPM); cubic-in-glyf0 guard; glyphDataFormat tied to allQuadratic; "
             "cycle rejection reachable from maxp/glyf and not swallowed by any handler; depth-ordered glyf assembly; otRound/noRound "
             "selection; option plumbing by name. nested transformations composed as outer o inner with fontTools' Transform algebra, no hand-assembled Transform; components only resolved by util.decomposeCompositeGlyph. The cu2qu error bound and point equality are not decided. Per-run accumulators of interpolatable filters are per master; contours are only redrawn through the cu2qu conversion pen and layers already marked quadratic are left alone; the .notdef the compiler adds is drawn in the output flavour's direction and only when the source has none. Mixed glyphs are decomposed, unconditionally, before curves are converted.",
        design_ref="DESIGN.md §5 C02", note=STATIC_NOTE,
        technique="static analysis: exhaustive guard evaluation (decision table), sibling agreement, formula-shape matching after local inlining, call-graph handler audit"),
    "C08": dict(
        text="Static determinism clauses: every place in the package where the iteration order of a set can be observed (50 sites, found by "
             "a set-kind inference over locals, parameters, fields and returns) is classified order-free or order-sensitive; each of the "
             "order-sensitive ones is on a reviewed table whose linked sanitiser obligations (sorted()/sort() downstream, keyed-only "
             "dictionaries, order-neutral glyph-class sinks) are re-checked on every run, a new sensitive site is a violation; clock / "
             "environment / id() / temp-file sources only at reviewed sites; compiler attributes overwritten while compiling masters are "
             "restored in finally, cached options only filled when None; every public compile function builds its own compiler, no "
             "module-/class-level container is mutated at call time; member-adding/removing writes to the caller's sources (ownership "
             "analysis of C07) are history dependence (2 listed known findings); glyph copies use only the UFO glyph protocol. Byte "
             "identity itself and defcon/ufoLib2 behavioural differences are not decided. Filter objects keep no state outside the per-call context (shared with C14). The value getAttrWithFallback returns is never modified in place (shared with C16).",
        design_ref="DESIGN.md §5 C08, §3 E4", note=STATIC_NOTE + " Assumes dict iteration order is content (insertion order) and that glyph-class "
             "literals / coverage sets are order-neutral sinks.",
        technique="static analysis: set-kind inference + order-observation site classification with linked sanitiser obligations, nondeterminism-source whitelist, save/restore pairing in try/finally, shared-state mutation scan, ownership analysis"),
    "C05": dict(
        text="Static structural clauses of both kern writers: KerningPair ordering key (class-ness before names, same on both operands); every "
             "bucket sorted with the plain ordering before return and rules emitted one per pair in bucket order; value-record table of both "
             "pair-pos builders (xAdvance always, xPlacement iff rtl, enumerated = xor, sides/class tables not swapped, keywords exist in "
             "fontTools); every value reaching a KerningPair passes quantize(., options.quantization), variable values resolved with "
             "fontTools' lookupKerningValue per source, splitters copy the value unchanged, quantize = factor*otRound(n/factor); zero "
             "drop only for class-class; rtl flag formula and exclusion of ambiguous-bidi pairs; missing-glyph skips on both sides and "
             "v1/v2 sibling agreement; one bucket per split part (merge re-assignment breaks after the first match). What a shaper applies, "
             "and that common and script lookups never hold the same glyph pair, are not decided. Every kerning class is defined under the unique name computed for it, unchanged; a zero drop written as a truthiness test is seen as one.",
        design_ref="DESIGN.md §5 C05", note=STATIC_NOTE,
        technique="static analysis: reaching-definition value-flow (quantize sanitiser), keyword/role tables checked against parsed fontTools signatures, guard facts, sibling agreement, loop-shape rules"),
    "C06": dict(
        text="Static structural clauses of the mark writer: x/y role agreement and otRoundIgnoringVariable at every feaLib Anchor construction; "
             "_getAnchor returns (x, y) with the first only derived from .x and the second only from .y on the static (quantised) and "
             "variable (per-source otRound at the source's own location) paths, and NamedAnchor receives them in the same roles; an anchor "
             "pair is recorded only under membership of its mark counterpart (markPrefix + key) and never for mark anchors; mark classes "
             "written and read under anchor.key, argument roles of _defineMarkClass / MarkClassDefinition; ligature components "
             "range(1, max+1) with [] for gaps and numbering >= 1; statement-class table against fontTools; attachment filters "
             "(numbered / class-less / mark glyphs); parseAnchorName prefix logic. no coordinate tested by truthiness; abvm / not-abvm sets cover the glyph set; markGlyphNames filled under the same guards as the mark classes; class name carried over after a name clash. Resulting offsets, lookup grouping and abvm/blwm "
             "routing are not decided. A coordinate passes through at most one rounding step on its way out of _getAnchor; base / ligature attachments are entailed to be for non-mark glyphs inside the GDEF class when GDEF classes exist. The abvm / blwm anchor filters are complementary by construction; the ligature component number is the whole trailing run of digits (regex AST).",
        design_ref="DESIGN.md §5 C06", note=STATIC_NOTE,
        technique="static analysis: argument-role agreement against parsed fontTools signatures, coordinate leaf tracing through reaching definitions, guard facts from control dependence, class-attribute tables"),
    "C09": dict(
        text="Static structural clauses of the interpolatable paths: decisions are joint (mixed-glyph set over all glyph sets, 2x2 mismatch "
             "check over all layers before one interpolatable decomposition; one fonts_to_quadratic call over all masters with per-master "
             "errors; no per-master curve conversion / overlap removal / contour sorting; built-in steps only use I-filters or reviewed "
             "per-glyph-independent filters); every shipped filter has an interpolatable sibling by the package's own discovery convention "
             "or is on a reviewed list, sibling option tables agree; filters are merged only when class, options and pre agree; master "
             "TTFs keep float coordinates and implied on-curves; sparse table sets are subsets of the compilers' tables chosen by "
             "layerName, placeholders only for missing component bases of non-default masters with the 0xFFFF sentinel; every I-filter "
             "loops over all masters without early exit; location closure for decomposed components; the instantiator's cached glyph models are dropped after every modifying step; interpolatable OTF masters are forced to CFFOptimization.NONE. Point compatibility of the output "
             "and cu2qu's joint segment counts (fontTools) are not decided. Memoising decorators on the instantiator / filters / pre-processors are violations; the mixed-glyph set runs over all glyph sets.",
        design_ref="DESIGN.md §5 C09", note=STATIC_NOTE,
        technique="static analysis: dominance/ordering rules on the pipeline, sibling agreement over class tables, constant evaluation of table sets, loop-shape rules, guard facts"),
    "C10": dict(
        text="Only the repository-side hand-off to fontTools.varLib / feaLib is decided, statically: in both variable-kerning functions "
             "every full source contributes a value for every pair of the union of all sources' pairs, at its own location, from its "
             "own kerning via lookupKerningValue, with only sparse layers and unknown glyphs skipped and the default location filled; "
             "variable anchors take one value per source layer that has the glyph, from the right layer, without early exit; variable "
             "layout is chosen only under variableFeatures and _featuresCompatible for every interpolable sub-document, GSUB is excluded "
             "from the merge exactly then and feature variations are added back after compiling; masters skip features exactly then, "
             "UFOs are remembered before being replaced and restored source by source; collapse_varscalar / get_userspace_location "
             "shapes; _featuresCompatible compares every master with the default. The variation data and the numeric reproduction of "
             "masters are computed by fontTools on runtime data and are NOT decided.",
        design_ref="DESIGN.md §5 C10", note=STATIC_NOTE,
        technique="static analysis: loop-shape and skip-condition rules over the per-source loops, guard facts, dominance/ordering, value-origin rules"),
    "C11": dict(
        text="Static structural clauses of the post-processor's renaming: reload dominates rename (tables frozen to indices first), "
             "format 3 then reload when names are dropped; rename_glyphs maps every carrier element by element with one map (glyph "
             "order, post 2.0 names, CFF charset and CharStrings keys), the extraNames computations agree; every stored name passes the "
             "invalid-character filter and _unique_name, _unique_name records what it returns, names of glyphs that are not renamed "
             "are reserved first (a genuine defect here was fixed in /repo f6ec7ac); decision structure from argument / three lib keys; "
             "uni/u naming rule; the invalid-character pattern (regex AST) is exactly the complement of [0-9A-Za-z_.]. Byte identity "
             "of the other tables is produced by fontTools' compile/reload and is NOT decided. The CFF CharStrings are re-keyed iff the table is CFF or an already decompiled CFF2 (truth table of the guard).",
        design_ref="DESIGN.md §5 C11", note=STATIC_NOTE,
        technique="static analysis: dominance rules, element-wise mapping shape rules, value-origin sanitiser rule, guard facts, regex-AST evaluation of the character class"),
    "C15": dict(
        text="Static structural clauses: flipped components reversed by default and at every call site (shared with C01), every component "
             "drawn through the decomposing pen then removed; 'transformed' = 2x2 differs from fontTools' identity, both siblings "
             "decompose iff some component is transformed; nested transformations composed as outer o inner (shared with C02); anchor "
             "propagation only appends entries of to_add, an entry is created only when no existing anchor starts with the name, mark "
             "adjustment only rewrites existing entries, base and mark components partition the components, each position is the base anchor mapped through its own component's "
             "transformation; transformations filter transforms included bases before replaying the composite, compensates components "
             "of transformed bases with the inverse on the inner side, maps every anchor as a point and the advance as a vector, and "
             "builds its matrix in the documented order. components only resolved by util.decomposeCompositeGlyph (no second decomposer). Affine arithmetic and rendering equality are not decided. Inside the component loop the recursive anchor propagation is unconditional; the base of a mark ligature is chosen from the components as placed.",
        design_ref="DESIGN.md §5 C15", note=STATIC_NOTE,
        technique="static analysis: formula-shape matching after local inlining, guard facts from control dependence, dominance/order rules, mutation scan of the composite"),
    "C17": dict(
        text="Static structural clauses: every removal from / reassignment of a statement list in the writers package is one of the five "
             "reviewed marker sites of _insert, each with its linked obligation re-checked on every run (only the marker comment is "
             "deleted; a removed block holds only comments; the split moves the tail into a new block first; reassignments are "
             "concatenations containing the old list in order) - any new such operation is a violation; feature blocks are only created "
             "for tags in todo (locally or at every call site, or single-feature writers gated by shouldContinue), skip mode subtracts "
             "existing marker-less tags, overrides defer to the base test; GSUB writers run first; shipped writers declare GPOS/GDEF and "
             "construct none of feaLib's substitution statements (class list parsed from fontTools); user features parsed once and "
             "serialised from the same object; markers only in top-level blocks, first per tag. Marker index arithmetic and GSUB byte "
             "identity are not decided. include() resolves against the UFO's parent directory with and without writers; generated glyph classes never take a class name the feature file already defines. A generated feature is inserted as its own top-level block; a user's block only ever loses statements.",
        design_ref="DESIGN.md §5 C17", note=STATIC_NOTE,
        technique="static analysis: mutation scan with reviewed-site table and linked obligations, guard facts through call sites, class-attribute tables against parsed fontTools classes"),
    "C19": dict(
        text="Static structural clauses of the instantiator: Variator.instance_at returns a deep copy of the master stored under the "
             "requested location's key, else model.interpolateFromMasters(location, masters), with masters / locations / key table "
             "filled pairwise; every store of default-source data into the instance is a fresh copy (deepcopy / comprehension / list), "
             "reviewed scalar exceptions; swap_glyph_names exchanges outlines, widths and anchors through a temporary with destinations "
             "cleared, remaps components, both kerning sides and group members in both directions, drops the old kerning pairs before writing the remapped ones, never assigns code points, and is "
             "only applied to the freshly created instance font; the instance has one new glyph per name of the default source; "
             "master collection skips only non-default sparse layers, kerning groups from the default, default layer must hold every "
             "glyph; otRound installed as fontMath's rounding, .round() only under round_geometry with in-place / returning forms read "
             "from fontMath's source; one normalised location used for kerning, info and glyphs. Interpolation arithmetic is not decided.",
        design_ref="DESIGN.md §5 C19", note=STATIC_NOTE,
        technique="static analysis: return-path rules with guard facts, freshness of stored values, event-sequence matching for the swap, two-way remap shape rule, parsed third-party (fontMath) method shapes"),
    "C04": dict(
        text="Only the clauses whose truth is in the shape of the code: metrics tables are built before the headers that summarise them; "
             "hmtx / vmtx hold one (rounded advance, bearing-from-own-box) record per glyph of the compiled set; hhea / vhea count every "
             "glyph's advance (also glyphs without outline), take bearings / extents only from glyphs with a box, with the spec formulas "
             "(extent = bearing + box size, second bearing = advance - bearing - box size), and each header field is the max / min of "
             "its own list; the long-metric count is len(advances) minus the trailing run equal to the last, at least 1; font box = "
             "union of glyph boxes, head gets it rounded in its own roles; OS/2 first / last index = min / max code point (capped), "
             "maxp.numGlyphs, post 2.0 names and VORG default / records follow the glyph data. the metrics tables are written by their own builders only. The byte round trip save -> reload -> "
             "save, the bounding-box arithmetic of the pens and the values fontTools recalculates at compile time are NOT decided "
             "(runtime quantities; no static argument in reach). A glyph loses its box only when the compiled outline is empty; no advance / origin / box value is dropped by a truthiness test.",
        design_ref="DESIGN.md §5 C04", note=STATIC_NOTE,
        technique="static analysis: dominance/order rule, loop-shape and formula-shape matching, list-to-field role table, guard facts"),
}

# clauses added by later seed waves (kept apart so the base texts above stay readable)
ADDENDA = {
    "C04": "CFF glyph boxes: a value is rounded to nearest exactly where the charstring pen rounds that coordinate (guard entailment over numeric atoms, both directions), "
           "else floored / ceiled; pen and box share one tolerance.",
    "C10": "For a designspace the kerning groups are collected from every source's font (both kern writers).",
    "C19": "Master and instance locations are normalised by one function with nothing applied on top (sibling agreement over the instantiator module).",
    "C06": "The three contextual anchor tables are enumerated in full and every pair reaches the lookup builder.",
    "C16": "Name-record keys follow the (nameID, platform, encoding, language) tuple of the UFO record; InfoCompiler._set_attrs copies every listed "
           "attribute; every bit-list attribute is converted over the whole range of bits the UFO specification allows. Stem entries of the CFF Private dict depend on the stem attributes alone, blues entries on the blues attributes alone.",
    "C05": "Kerning class names pass through unchanged; a glyph's scripts are folded into Common exactly under `scripts & DFLT_SCRIPTS` (Zyyy, Zinh).",
    "C03": "Production-name renaming leaves order and cmap alone (shared with C11).",
    "C01": "Only the listed builders write advances (who-may-write table); only missing glyphs are generated. CFF FontMatrix = 1 / unitsPerEm; compileOutlines only overrides "
           "reviewed option-table entries; include / decomposeNested / reverseFlipped reach the decomposing pen as the untouched parameters.",
    "C12": "defaultWidthX / nominalWidthX are made integers by their one producer and used unchanged by both consumers (private dict and charstrings). In the constructor the optimisation level only determines the field that carries it.",
    "C17": "User GDEF definitions (classes and caret statements, read from fontTools.feaLib.ast) are kept; generated blocks are appended at the top level; "
           "the include directory of the source is forwarded.",
    "C11": "Post-processing is applied per font, on that font's own glyph-name map. _reloadFont writes nothing on the font and passes no other option to save / open.",
    "C18": "Every glyph of the set is a cursive candidate; anchors are read by their slot (entry / exit). The designspace-rule substitution table keeps every (left, right) of every rule.",
    "C14": "The include / exclude predicates of BaseFilter are installed under `is not None` facts (an empty include list selects nothing; "
           "callable(x) implies x given; an empty exclude list equals the default).",
    "C15": "The reverseFlipped flag forwarded to the decomposing pen is the untouched parameter; component recursion in anchor propagation is unconditional; "
           "base / mark components partition the components.",
    "C20": "Generated feature blocks are appended at the top level of the feature file; languages are filed per script tag.",
    "C09": "Per-master accumulators are never shared between masters (shared with C02 / C15). A composite is interpolated exactly into the masters at needLocations - haveLocations.",
    "C02": "Decomposition of mixed / transformed composites precedes curve conversion; the generated .notdef follows the outline type's contour direction. No package code edits the outline fields of a compiled glyph (empty who-may-write set, reviewed flag bits only); option overrides of compileOutlines are a reviewed table.",
    "C13": "The designspace's skip list has the last word in the lib of a generated instance; the union runs over every UFO. include / decomposeNested reach the decomposing pen as the untouched parameters.",
}
ADDENDA2 = {'C02': 'SortContours puts back a permutation of all contours; the reversing filter passes over contour-less glyphs only.', 'C03': "Only the production-name builder reads a glyph's primary code point (who-may-read).", 'C04': 'xAvgCharWidth is recalculated by fontTools from the font being built (after hmtx); final glyph names are unique.', 'C05': "The pair list handed to the lookup builders is the collector's result, unfiltered; kern writer objects keep no per-font state.", 'C06': 'Conflict graph symmetric and complete; a feature is dropped only when every lookup list written into it is empty; an existing mark class is reused only under field-by-field equality; no argument-dependent result is memoised in the context.', 'C08': 'One kind of bounds (exact / control) per measuring function; every field of the working glyph copy is copied whole.', 'C09': "The default-source flag is 'index == instantiator.default_source_idx'; the decomposition helper draws every component it removes; filter lists filled through helpers are followed.", 'C10': 'Composites with differing 2x2 are decomposed on the evidence of all masters; every source gets a unique name; per-master accumulators; variable anchors recorded for every source under the anchor-name test only.', 'C11': 'An explicit useProductionNames reaches the renaming step untouched; every master (sparse ones included) is post-processed.', 'C13': 'Who may call decomposeCompositeGlyph, and with which glyph set (reviewed table).', 'C14': 'After components were removed the verdict is not a comparison of contour counts; containers kept on a filter object are followed into callees that fill them; ChainMap views are modelled by the ownership engine.', 'C15': 'No built-in decomposition before the pre-filters; replay / anchors / advance of the transformations filter are unconditional; filters keep no state between calls.', 'C16': 'Derived OS/2 sub / superscript fallbacks read the resolved sibling field; head.created is the converted openTypeHeadCreated; all()/any() elements count as truthiness tests; values returned by getAttrWithFallback are followed into helpers that mutate them.', 'C17': 'The insertion marker is matched anchored at the start of the comment; after a mark-class name clash the renamed class is used; a glyph class defined directly gets a name checked against existing ones.', 'C18': 'getOpenTypeCategories hands out the categories as loaded; variable caret / cursive anchors are recorded for every source.', 'C19': 'Rule substitutions are recorded iff designspaceLib.evaluateRule holds; after extractGlyph nothing but the code points is written.', 'C20': 'addLookupReferences covers every language handed in; kern and dist partition the scripts with one and the same set.'}
for _k, _v in ADDENDA.items():
    CHECKS[_k]["text"] += " " + _v
for _k, _v in ADDENDA2.items():
    CHECKS[_k]["text"] += " " + _v

ADDENDA3 = {'C01': 'The default filters are exactly what initDefaultFilters returned (none dropped for a look-alike custom filter).', 'C02': 'The default filters are exactly what initDefaultFilters returned.', 'C04': 'A field the info-override pass copies onto the finished font is computed from glyph data only under a has-glyph-data guard (sibling agreement InfoCompiler / base builders).', 'C05': 'No memo keyed by a part of the arguments.', 'C18': 'compileGSUB only ever returns the GSUB feaLib built from the whole feature file (or that table, cached).', 'C20': 'Known scripts come only from single-script code points and declared language systems.'}
for _k, _v in ADDENDA3.items():
    CHECKS[_k]["text"] += " " + _v

ADDENDA4 = {'C09': 'The per-run memo of component locations holds the answer of the recursion for each base glyph.', 'C13': 'The per-run memo of component locations holds the answer of the recursion for each base glyph.', 'C11': 'No container defined on the post-processor class is written by its methods (names of one font do not depend on an earlier compile).', 'C19': 'No master is skipped or collected on the evidence of earlier iterations of the loop over the sources (order independence).'}
for _k, _v in ADDENDA4.items():
    CHECKS[_k]["text"] += " " + _v

ADDENDA5 = {'C02': 'A filter helper whose result the caller rewrites in place returns a fresh object and keeps no second reference (no corruptible memo).', 'C05': 'classifyGlyphs closes the neutral set over GSUB before taking it out of each class closure.', 'C18': 'classifyGlyphs closes the neutral set over GSUB before taking it out of each class closure.', 'C10': 'No function writes to module-level state.', 'C08': 'No function writes to module-level state.', 'C14': 'A copied glyph set owns a copy of the layer lib.'}
for _k, _v in ADDENDA5.items():
    CHECKS[_k]["text"] += " " + _v

_TODO = "check not built yet in this session (static rules designed in DESIGN.md §5; will be claimed when the rule set is armed)"
NOT_APPLICABLE = {}
for _p in ["C01", "C02", "C04", "C05", "C06", "C07", "C08", "C09", "C10", "C11", "C12", "C13", "C14", "C15", "C16", "C17", "C18", "C19", "C20"]:
    if _p not in CHECKS:
        NOT_APPLICABLE[_p] = _TODO

NOTES = ("All checks are static analysis of /repo/Lib/ufo2ft as it is on disk when the check runs (VT_REPO overrides the tree, used "
         "only by the thorough tier's self-validation on scratch copies). Exit 0 held / only KNOWN-FINDING lines; exit 1 unlisted "
         "VIOLATION; exit 2 ANALYSIS-ERROR (vanished anchor, uninterpretable shape, checker crash). Known findings: "
         "/verif/known_findings.json.")
