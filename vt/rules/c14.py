"""C14 - filters touch only what they are asked to and report what they changed."""

from __future__ import annotations

import ast
from typing import Dict, List, Optional, Set, Tuple

from ..core import astutil as A
from ..core.index import AnalysisError, FuncInfo
from ..selftest import M
from .common import (param_mutated, BASE_FILTER, BASE_IFILTER, T, attr_stores, calls_named, conds, entails, every_origin, facts, key, need,
                     subscript_stores, where)
from . import c07

GLYPH_MUTATORS = {"clearContours", "clearComponents", "removeComponent", "appendAnchor", "appendContour", "appendComponent",
                  "clearAnchors", "getPen", "getPointPen", "removeOverlap"}
CONTAINER_MUTATORS = {"append", "extend", "insert", "remove", "pop", "clear", "update", "setdefault", "add", "discard", "sort"}


def filter_classes(prog):
    return [c for c in prog.ix.subclasses(BASE_FILTER)]


def run(prog, chk):
    chk.decided += [
        "every call of a filter() method is guarded by include() of the same glyph(s) (R14.1)",
        "no per-call state on the filter object other than self.context; the context is a fresh namespace with a fresh `modified` set; overriding set_context methods chain to super first (R14.2)",
        "self.context is never read on a path of __call__ before set_context / super().__call__ ran (R14.3)",
        "a filter() path that has mutated a glyph cannot end in a constant False / None return (R14.4)",
        "every insertion into / deletion from a glyph set inside the filters package is reported in the modified set (R14.4b)",
        "the font argument is never written (ownership analysis seeded at the filters' font / fonts parameter) (R14.5)",
        "include and exclude together raise ValueError before any predicate is installed (R14.6)",
    ]
    chk.decided += ["a copied glyph set owns a copy of the layer lib (filters record the curve-type marker there): the layer's own lib is only handed out when no copy was asked for (R14.7)"]
    chk.not_decided += ["that a reported glyph really changed / an unreported one really did not (data dependent)",
                        "effects inside third-party pens and boolean operations"]
    chk.guard(r141, prog, chk)
    chk.guard(r142, prog, chk)
    chk.guard(r143, prog, chk)
    summaries = mutation_summaries(prog)
    chk.guard(r144, prog, chk, summaries)
    chk.guard(r144b, prog, chk)
    chk.guard(r144c, prog, chk)
    chk.guard(r145, prog, chk)
    chk.guard(r146, prog, chk)
    chk.guard(r147, prog, chk)


# ----------------------------------------------------------------------------- R14.1
def _is_filter_call(prog, fi: FuncInfo, c: ast.Call) -> bool:
    f = c.func
    if isinstance(f, ast.Attribute) and f.attr == "filter" and isinstance(f.value, ast.Name) and f.value.id == "self":
        return True
    if isinstance(f, ast.Name):
        for d in prog.reaching(fi, f.id, f):
            v, how = d.element()
            if how is None and isinstance(v, ast.Attribute) and v.attr == "filter" and T(v.value) == "self":
                return True
    return False


def _is_include_call(prog, fi: FuncInfo, e: ast.AST) -> Optional[ast.Call]:
    if not isinstance(e, ast.Call):
        return None
    f = e.func
    if isinstance(f, ast.Attribute) and f.attr == "include" and T(f.value) == "self":
        return e
    if isinstance(f, ast.Name):
        for d in prog.reaching(fi, f.id, f):
            v, how = d.element()
            if how is None and isinstance(v, ast.Attribute) and v.attr == "include" and T(v.value) == "self":
                return e
    return None


def r141(prog, chk):
    n = 0
    for ci in filter_classes(prog):
        for m in ci.methods.values():
            for c in A.body_nodes(m.node):
                if not (isinstance(c, ast.Call) and _is_filter_call(prog, m, c)):
                    continue
                n += 1
                args = c.args
                guards = [g for g in conds(prog, m, c) if g.polarity is True]
                ok = False
                how = ""
                for g in guards:
                    inc = _is_include_call(prog, m, g.test)
                    if inc is not None and args and inc.args and T(inc.args[0]) == T(args[0]):
                        ok, how = True, f"include({T(args[0])})"
                    # interpolatable form: any(include(g) for g in glyphs) and filter_(name, glyphs)
                    if isinstance(g.test, ast.Call) and A.callee_name(g.test) == "any" and g.test.args and isinstance(g.test.args[0], ast.GeneratorExp):
                        ge = g.test.args[0]
                        inc = _is_include_call(prog, m, ge.elt)
                        if inc is not None and len(args) >= 2 and T(ge.generators[0].iter) == T(args[1]) \
                                and inc.args and T(inc.args[0]) in A.target_names(ge.generators[0].target):
                            ok, how = True, f"any(include(g) for g in {T(args[1])})"
                chk.ob("R14.1", f"{m.short}|{A.keytext(m.node, c)}", ok, where(m, c), detail=f"guarded by {how}" if ok else "no include() guard",
                       message=f"{m.short} calls filter() on a glyph without testing include() for it: excluded glyphs can be modified")
    # super().filter(<own parameters>) is delegation on the same glyph
    chk.minimum("R14.1", 3)
    need(n >= 3, "filter() call sites not found")


# ----------------------------------------------------------------------------- R14.2
def check_no_filter_state(prog, chk, rule="R14.2"):
    """No per-call state on a filter object other than self.context (shared with C08 as R08.8: a filter object reused
    for another font must give what a fresh one gives)."""
    ix = prog.ix
    n = 0
    for ci in filter_classes(prog):
        for m in ci.methods.values():
            if m.name in ("__init__", "start") or m.is_property:
                continue
            for st in A.stmts_of(m.node):
                targets = []
                if isinstance(st, ast.Assign):
                    targets = st.targets
                elif isinstance(st, (ast.AugAssign, ast.AnnAssign)):
                    targets = [st.target]
                elif isinstance(st, ast.Delete):
                    targets = st.targets
                for t in targets:
                    for e in (t.elts if isinstance(t, (ast.Tuple, ast.List)) else [t]):
                        chain = _self_chain(e)
                        if chain is None:
                            continue
                        n += 1
                        ok = chain[0] == "context"
                        chk.ob(rule, f"{m.short}|{A.keytext(m.node, st)}", ok, where(m, st),
                               detail=f"write to self.{'.'.join(chain)}",
                               message=f"{m.short} keeps state on the filter object outside self.context (self.{'.'.join(chain)}): it survives into the next invocation")
            for c in A.body_nodes(m.node):
                if isinstance(c, ast.Call) and isinstance(c.func, ast.Attribute) and c.func.attr in CONTAINER_MUTATORS:
                    chain = _self_chain(c.func.value)
                    if chain is None or not chain:
                        continue
                    n += 1
                    ok = chain[0] == "context"
                    chk.ob(rule, f"{m.short}|{A.keytext(m.node, c)}", ok, where(m, c), detail=f"mutation of self.{'.'.join(chain)}",
                           message=f"{m.short} mutates self.{'.'.join(chain)}, state that is not reset per call")
            # a container kept on the filter object and handed to a function that fills it (a cache passed as an argument)
            for c in A.body_nodes(m.node):
                if not isinstance(c, ast.Call):
                    continue
                handed = [(i, a) for i, a in enumerate(c.args)] + [(k.arg, k.value) for k in c.keywords if k.arg]
                handed = [(pos, a) for pos, a in handed if _self_chain(a) and _self_chain(a)[0] not in ("context", "options")]
                if not handed:
                    continue
                try:
                    ts, how = prog.resolve_callee(m, c.func)
                except Exception:
                    continue
                if how != "exact" or len(ts) != 1 or not hasattr(ts[0], "params") or isinstance(ts[0].node, ast.Lambda):
                    continue
                t = ts[0]
                ps = t.params()
                if t.cls is not None and not t.is_static and isinstance(c.func, ast.Attribute):
                    ps = ps[1:]
                for pos, a in handed:
                    pn = ps[pos] if isinstance(pos, int) and pos < len(ps) else pos if isinstance(pos, str) and pos in ps else None
                    if pn is None:
                        continue
                    hit = param_mutated(prog, t, pn)
                    if hit is not None:
                        n += 1
                        chain = _self_chain(a)
                        chk.ob(rule, f"{m.short}|{A.keytext(m.node, c)}|self.{'.'.join(chain)} filled by {t.short}", False, where(m, c), detail=T(hit, 60),
                               message=f"{m.short} hands self.{'.'.join(chain)} to {t.short}, which fills it in place (`{T(hit, 50)}`): state kept on the filter object "
                                       f"that is not reset per call - a filter object reused for another font answers from what it saw in the previous one")
    from .c08 import check_memo_decorators
    n += check_memo_decorators(prog, chk, rule, only_modules=("ufo2ft.filters",))
    chk.minimum(rule, 5) if rule != "R14.2" else None
    return n


def r142(prog, chk):
    ix = prog.ix
    n = check_no_filter_state(prog, chk, "R14.2")
    # the context is fresh
    for cq in (BASE_FILTER, BASE_IFILTER):
        sc = ix.get_method(cq, "set_context", own=True)
        st = [(s, v) for s, t, v in attr_stores(sc, "context") if T(t.value) == "self"]
        ok = bool(st) and all(isinstance(v, ast.Call) and A.callee_name(v) == "SimpleNamespace" for s, v in st)
        chk.ob("R14.2", f"{sc.short}|new namespace", ok, where(sc), detail="self.context = SimpleNamespace(...)",
               message=f"{sc.short} does not create a new context namespace per call")
        ms = [(s, v) for s, t, v in attr_stores(sc, "modified")]
        ok = bool(ms) and all(isinstance(v, ast.Call) and A.callee_name(v) == "set" and not v.args for s, v in ms)
        chk.ob("R14.2", f"{sc.short}|fresh modified set", ok, where(sc), detail="context.modified = set()",
               message=f"{sc.short} does not start each call with an empty `modified` set")
        # __call__ returns that set
        call = ix.get_method(cq, "__call__", own=True)
        rets = A.returns_of(call.node)
        ok = bool(rets) and all(r.value is not None and every_origin(
            prog, call, r.value, lambda e, f: isinstance(e, ast.Attribute) and e.attr == "modified", allow_const=False)[0] for r in rets)
        chk.ob("R14.2", f"{call.short}|returns context.modified", ok, where(call), detail="the reported set is the per-call one",
               message=f"{call.short} does not return the per-call `modified` set")
    for ci in filter_classes(prog):
        m = ci.methods.get("set_context")
        if m is None or ci.qname in (BASE_FILTER, BASE_IFILTER):
            continue
        cfg = prog.cfg(m)
        sup = [c for c in calls_named(m, "set_context") if isinstance(c.func.value, ast.Call) and A.callee_name(c.func.value) == "super"]
        # the chained call is the first statement that touches the filter object or its arguments
        # (leading pass / logging statements do not count)
        params = set(m.params())
        first_st = None
        for st_ in m.node.body:
            if isinstance(st_, ast.Pass) or (isinstance(st_, ast.Expr) and isinstance(st_.value, ast.Constant)):
                continue
            if isinstance(st_, ast.Expr) and isinstance(st_.value, ast.Call) and not (A.names_in(st_.value) & params):
                continue
            first_st = st_
            break
        ok = bool(sup) and first_st is not None and prog.ix.enclosing_stmt(sup[0]) is first_st
        chk.ob("R14.2", f"{m.short}|chains to super first", ok, where(m), detail="ctx = super().set_context(...) is the first statement",
               message=f"{m.short} does not start by creating the fresh base context (stale data from the previous call can be read)")
    chk.minimum("R14.2", 20)


def _self_chain(e: ast.AST) -> Optional[List[str]]:
    """For self.a.b[...]... return ['a', 'b']; None if not rooted at self."""
    parts = []
    cur = e
    while isinstance(cur, (ast.Attribute, ast.Subscript)):
        if isinstance(cur, ast.Attribute):
            parts.append(cur.attr)
        cur = cur.value
    if isinstance(cur, ast.Name) and cur.id == "self":
        parts.reverse()
        return parts
    return None


# ----------------------------------------------------------------------------- R14.3
def r143(prog, chk):
    n = 0
    for ci in filter_classes(prog):
        m = ci.methods.get("__call__")
        if m is None:
            continue
        cfg = prog.cfg(m)
        setters = [c for c in A.body_nodes(m.node) if isinstance(c, ast.Call) and isinstance(c.func, ast.Attribute)
                   and ((c.func.attr == "set_context" and T(c.func.value) == "self")
                        or (c.func.attr == "__call__" and isinstance(c.func.value, ast.Call) and A.callee_name(c.func.value) == "super"))]
        sn = [cfg.node_of(c) for c in setters]
        for e in A.body_nodes(m.node):
            if isinstance(e, ast.Attribute) and e.attr == "context" and T(e.value) == "self" and isinstance(e.ctx, ast.Load):
                n += 1
                en = cfg.node_of(e)
                ok = any(cfg.dominates(s, en) and s != en for s in sn)
                chk.ob("R14.3", f"{m.short}|{A.keytext(m.node, prog.ix.enclosing_stmt(e))}", ok, where(m, e),
                       detail="read of self.context is dominated by set_context()/super().__call__()",
                       message=f"{m.short} reads self.context before any context exists for this call (AttributeError on a fresh filter, the previous call's data on a reused one)")
    need(n >= 3, "self.context reads in __call__ methods not found")
    chk.minimum("R14.3", 3)


# ----------------------------------------------------------------------------- R14.4
def mutation_summaries(prog) -> Dict[str, Set[str]]:
    """function qname -> set of parameter names whose object may be mutated."""
    funcs = [f for f in prog.ix.functions.values() if f.module.name.startswith("ufo2ft.filters") or f.module.name == "ufo2ft.util"]
    summ: Dict[str, Set[str]] = {f.qname: set() for f in funcs}
    changed = True
    while changed:
        changed = False
        for f in funcs:
            params = set(p for p in f.params() if not p.startswith("*"))
            for node, root in mutation_events(prog, f, summ):
                if root in params and root not in summ[f.qname]:
                    summ[f.qname].add(root)
                    changed = True
    return summ


def _root_params(prog, fi: FuncInfo, e: ast.AST, depth: int = 0) -> Set[str]:
    """Parameters the object denoted by e may be reached from (through attribute /
    subscript / iteration / local aliases)."""
    out: Set[str] = set()
    r = A.root_name(e)
    if r is None:
        return out
    if depth > 6:
        return out
    # find the Name node
    cur = e
    while not isinstance(cur, ast.Name):
        cur = cur.func if isinstance(cur, ast.Call) else cur.value
    defs = prog.reaching(fi, r, cur)
    for d in defs:
        if d.kind == "param":
            out.add(r)
        else:
            v, how = d.element()
            if v is not None:
                out |= _root_params(prog, fi, v, depth + 1)
    return out


def mutation_events(prog, fi: FuncInfo, summ: Dict[str, Set[str]]) -> List[Tuple[ast.AST, str]]:
    ev = []
    for n in A.body_nodes(fi.node):
        if isinstance(n, ast.Call) and isinstance(n.func, ast.Attribute) and n.func.attr in GLYPH_MUTATORS:
            for r in _root_params(prog, fi, n.func.value) or {"<local>"}:
                ev.append((n, r))
        elif isinstance(n, ast.Call) and isinstance(n.func, ast.Attribute) and n.func.attr in ("extend", "append") \
                and isinstance(n.func.value, ast.Attribute) and n.func.value.attr in ("contours", "components", "anchors"):
            for r in _root_params(prog, fi, n.func.value) or {"<local>"}:
                ev.append((n, r))
        elif isinstance(n, ast.Call):
            ts, how = prog.resolve_callee(fi, n.func)
            for t in ts:
                if isinstance(t, FuncInfo) and how in ("exact", "cha") and t.qname in summ and summ[t.qname]:
                    tparams = [p for p in t.params() if not p.startswith("*")]
                    if t.cls is not None and not t.is_static:
                        tparams = tparams[1:]
                    for i, a in enumerate(n.args):
                        if i < len(tparams) and tparams[i] in summ[t.qname]:
                            for r in _root_params(prog, fi, a) or {"<local>"}:
                                ev.append((n, r))
                    for kw in n.keywords:
                        if kw.arg in summ[t.qname]:
                            for r in _root_params(prog, fi, kw.value) or {"<local>"}:
                                ev.append((n, r))
        elif isinstance(n, (ast.Assign, ast.AugAssign)):
            targets = n.targets if isinstance(n, ast.Assign) else [n.target]
            for t in targets:
                for e in (t.elts if isinstance(t, (ast.Tuple, ast.List)) else [t]):
                    if isinstance(e, ast.Attribute) and _self_chain(e) is None:
                        base_roots = _root_params(prog, fi, e.value)
                        # stores into a context namespace (ctx.x = ...) are not glyph mutations
                        if isinstance(e.value, ast.Name) and any(
                                isinstance(d.element()[0], ast.Call) and A.callee_name(d.element()[0]) in ("set_context", "SimpleNamespace")
                                for d in prog.reaching(fi, e.value.id, e.value) if d.element()[0] is not None):
                            continue
                        for r in base_roots or {"<local>"}:
                            ev.append((n, r))
    return ev


def _const_false_return(r: ast.Return) -> bool:
    v = r.value
    return v is None or (isinstance(v, ast.Constant) and (v.value is False or v.value is None))


def r144(prog, chk, summ):
    n = 0
    for ci in filter_classes(prog):
        m = ci.methods.get("filter")
        if m is None or ci.qname in (BASE_FILTER, BASE_IFILTER):
            continue
        cfg = prog.cfg(m)
        glyph_params = set(p for p in m.params()[1:])
        evs = [(node, root) for node, root in mutation_events(prog, m, summ) if root != "<local>" or True]
        # only events that touch glyph data: roots are the glyph parameter(s) or the context's glyph sets
        mut_nodes = []
        for node, root in evs:
            if root in glyph_params or root in ("self", "<local>"):
                # <local>: objects fetched from self.context.glyphSets etc.
                if root == "<local>" and not _touches_glyph(prog, m, node):
                    continue
                mut_nodes.append((node, cfg.node_of(node)))
        n += 1
        bad = []
        for r in A.returns_of(m.node):
            if not _const_false_return(r):
                continue
            rn = cfg.node_of(r)
            for node, mn in mut_nodes:
                if mn is not None and (mn == rn or cfg.exists_path(mn, [rn])) and not _infeasible_false_return(prog, m, cfg, mn, r):
                    bad.append((node, r))
        # falling off the end after a mutation
        last = [p for p in cfg.normal_exit_preds() if not (cfg.nodes[p].kind == "stmt" and isinstance(cfg.nodes[p].ast, ast.Return))]
        for node, mn in mut_nodes:
            for p in last:
                if mn is not None and (mn == p or cfg.exists_path(mn, [p])):
                    bad.append((node, None))
        chk.ob("R14.4", f"{m.short}|mutating paths report", not bad, where(m),
               detail=f"{len(mut_nodes)} mutation event(s); none reaches a constant False/None return",
               message=f"{m.short}: after `{T(bad[0][0], 50) if bad else ''}` a path returns False/None: the glyph is changed but not reported as modified")
    # a verdict computed by comparing the glyph with itself before / after the change is a proxy: it misses changes the
    # comparison does not see (components removed although no contour was added)
    k = 0
    for fi in prog.ix.functions.values():
        if not fi.module.name.startswith("ufo2ft.filters") or isinstance(fi.node, ast.Lambda) or fi.parent is not None:
            continue
        if not (fi.name == "filter" or fi.cls is None):
            continue
        rets = [r for r in A.returns_of(fi.node) if r.value is not None and (isinstance(r.value, ast.Compare) or (isinstance(r.value, (ast.BoolOp, ast.UnaryOp)) and any(isinstance(x, ast.Compare) for x in ast.walk(r.value))))]
        if not rets:
            continue
        cfg = prog.cfg(fi)
        evs = [(node, cfg.node_of(node)) for node, root in mutation_events(prog, fi, summ) if root not in ("<local>",) or _touches_glyph(prog, fi, node)]
        for r in rets:
            rn = cfg.node_of(r)
            # the comparison has to measure what the change touches: a change that removes components is not seen by a count
            # of contours (a count of anchors does see appended anchors)
            hit = [node for node, mn in evs if mn is not None and (mn == rn or cfg.exists_path(mn, [rn]))
                   and isinstance(node, ast.Call) and A.callee_name(node) in ("decomposeCompositeGlyph", "removeComponent", "clearComponents")
                   and not any(isinstance(x, ast.Attribute) and x.attr == "components" for x in ast.walk(r.value))]
            k += 1
            chk.ob("R14.4", f"{fi.short}|{A.keytext(fi.node, r)}|a verdict is not a before / after comparison", not hit, where(fi, r), detail=T(r.value, 60),
                   message=f"{fi.short}: after `{T(hit[0], 50) if hit else ''}` the verdict is computed by a comparison (`{T(r.value, 50)}`) instead of being True: changes the comparison "
                           f"does not see (e.g. components removed without any contour being added) go unreported")
    need(n >= 10, "filter methods not found")
    chk.minimum("R14.4", 10)


def _touches_glyph(prog, fi, node) -> bool:
    """A mutation event on a local object: does the object come out of a glyph set
    (glyphSet.get / glyphSet[...] / zip over glyph sets)?"""
    if isinstance(node, ast.Call) and isinstance(node.func, ast.Attribute) and node.func.attr in GLYPH_MUTATORS:
        return True
    if isinstance(node, ast.Call):
        return True  # passing to a mutating package function
    return True


# ----------------------------------------------------------------------------- R14.4c
def r144c(prog, chk):
    """A verdict flag that starts False and is returned must only grow inside a
    loop: every in-loop assignment is `flag = True`, mentions the flag itself
    (flag = flag or x) or is `flag |= x`.  Otherwise a later iteration can
    overwrite the True of an earlier one (a changed glyph is not reported)."""
    from .common import loop_ancestors
    n = 0
    for fi in prog.ix.functions.values():
        if not fi.module.name.startswith("ufo2ft.filters"):
            continue
        flags = set()
        for r in A.returns_of(fi.node):
            if isinstance(r.value, ast.Name):
                defs = prog.reaching(fi, r.value.id, r.value)
                if any(d.kind == "assign" and isinstance(d.value, ast.Constant) and d.value.value is False and isinstance(d.target, ast.Name) for d in defs):
                    flags.add(r.value.id)
        for v in sorted(flags):
            for st in A.stmts_of(fi.node):
                tgt = None
                if isinstance(st, ast.Assign) and len(st.targets) == 1 and isinstance(st.targets[0], ast.Name) and st.targets[0].id == v:
                    tgt, val = st.targets[0], st.value
                elif isinstance(st, ast.AugAssign) and isinstance(st.target, ast.Name) and st.target.id == v:
                    n += 1
                    ok = isinstance(st.op, ast.BitOr)
                    chk.ob("R14.4c", f"{fi.short}|{A.keytext(fi.node, st)}", ok, where(fi, st), detail="accumulating |=",
                           message=f"{fi.short}: verdict flag `{v}` is combined with `{type(st.op).__name__}`: an earlier True can be lost")
                    continue
                if tgt is None or not loop_ancestors(prog, fi, st):
                    continue
                n += 1
                ok = (isinstance(val, ast.Constant) and val.value is True) or v in A.names_in(val)
                chk.ob("R14.4c", f"{fi.short}|{A.keytext(fi.node, st)}", ok, where(fi, st), detail=f"in-loop assignment of verdict flag `{v}` only grows",
                       message=f"{fi.short}: the returned verdict flag `{v}` is overwritten inside a loop (`{T(st, 60)}`): a later iteration can reset "
                               f"the True of an earlier one, so a changed glyph is not reported as modified")
    chk.minimum("R14.4c", 3)


# ----------------------------------------------------------------------------- R14.4b
def _is_modified_set(prog, fi, e: ast.AST) -> bool:
    if isinstance(e, ast.Attribute) and e.attr == "modified":
        return True
    if isinstance(e, ast.Name):
        ok, _ = every_origin(prog, fi, e, lambda x, f: (isinstance(x, ast.Attribute) and x.attr == "modified")
                             or (isinstance(x, ast.Call) and isinstance(x.func, ast.Attribute) and x.func.attr == "__call__"
                                 and isinstance(x.func.value, ast.Call) and A.callee_name(x.func.value) == "super"), allow_const=False)
        return ok
    return False


def _glyphset_expr(prog, fi, e: ast.AST) -> bool:
    """e denotes a working glyph set: a parameter / local / attribute named like the
    protocol's glyph set, or an element of context.glyphSets."""
    t = T(e)
    if isinstance(e, ast.Attribute) and e.attr in ("glyphSet",):
        return True
    if isinstance(e, ast.Name):
        if e.id in fi.params() and e.id.lower().startswith("glyphset"):
            return True
        for d in prog.reaching(fi, e.id, e):
            v, how = d.element()
            if v is None:
                continue
            vt = T(v)
            if "glyphSets" in vt or vt.endswith(".glyphSet") or "glyphSet" == vt:
                return True
            if isinstance(v, ast.Call) and A.callee_name(v) == "from_layer":
                return True
    return False


def _forced_true_flag(prog, fi, cfg, from_node: int, test, name: str) -> bool:
    """On every path from from_node to the test, `name` is made truthy (assigned
    constant True, or appended / added to) and not rebound afterwards."""
    tn = cfg.node_of(test)
    makers = set()
    for d in cfg.defs_of(name):
        if d.kind == "assign" and isinstance(d.value, ast.Constant) and d.value.value is True:
            makers.add(d.node)
    for c in A.body_nodes(fi.node):
        if isinstance(c, ast.Call) and isinstance(c.func, ast.Attribute) and c.func.attr in ("append", "add", "extend") \
                and isinstance(c.func.value, ast.Name) and c.func.value.id == name and c.args:
            makers.add(cfg.node_of(c))
    makers.discard(None)
    if not makers:
        return False
    if cfg.exists_path(from_node, [tn], avoid=makers) and from_node not in makers:
        return False
    # no rebinding of the name after a maker on the way to the test
    rebinds = [x.node for x in cfg.defs_of(name) if x.node not in makers and x.kind not in ("param", "entry")]
    for mk in makers:
        for rb in rebinds:
            if cfg.exists_path(from_node, [mk]) or mk == from_node:
                if cfg.exists_path(mk, [rb]) and cfg.exists_path(rb, [tn]):
                    return False
    return True


def _infeasible_false_return(prog, fi, cfg, from_node: int, r: ast.Return) -> bool:
    from .common import atoms_of
    for cd in conds(prog, fi, r):
        if cd.polarity not in (True, False):
            continue
        for o, l, rr in atoms_of(cd.test, cd.polarity):
            if o == "falsy" and l.isidentifier() and _forced_true_flag(prog, fi, cfg, from_node, cd.loc, l):
                return True
    return False


def r144b(prog, chk):
    ix = prog.ix
    n = 0
    for fi in ix.functions.values():
        if not fi.module.name.startswith("ufo2ft.filters"):
            continue
        sites = []
        for st, t, v in subscript_stores(fi):
            if isinstance(st, ast.Assign) and _glyphset_expr(prog, fi, t.value):
                sites.append((st, t.slice, "add", v))
        for st in A.stmts_of(fi.node):
            if isinstance(st, ast.Delete):
                for t in st.targets:
                    if isinstance(t, ast.Subscript) and _glyphset_expr(prog, fi, t.value):
                        sites.append((st, t.slice, "remove", None))
        for st, k, what, v in sites:
            n += 1
            ok, how = _reported(prog, fi, st, k, v)
            chk.ob("R14.4b", f"{fi.short}|{A.keytext(fi.node, st)}", ok, where(fi, st), detail=how,
                   message=f"{fi.short}: a glyph is {'added to' if what == 'add' else 'removed from'} the glyph set (`{T(st, 60)}`) without being reported in the returned `modified` set")
    need(n >= 5, "glyph-set insertions / deletions in the filters package not found")
    chk.minimum("R14.4b", 5)


def _reported(prog, fi: FuncInfo, st: ast.stmt, k: ast.AST, v: Optional[ast.AST]) -> Tuple[bool, str]:
    ix = prog.ix
    # 1. `<modified>.add(k)` in the same block
    blk_parent = ix.parent(st)
    for fld in ("body", "orelse", "finalbody"):
        blk = getattr(blk_parent, fld, [])
        if isinstance(blk, list) and st in blk:
            for s2 in blk:
                for c in A.calls_in(s2):
                    if A.callee_name(c) == "add" and c.args and T(c.args[0]) == T(k) and _is_modified_set(prog, fi, c.func.value):
                        return True, f"{T(c, 50)} in the same block"
    # 2. helper keyed by its own parameter: callers are filter() methods that cannot return False after the call
    if isinstance(k, ast.Name) and k.id in fi.params() and fi.name not in ("filter", "__call__"):
        callers = [(g, c) for g in ix.functions.values() if g.module.name.startswith("ufo2ft.filters")
                   for c in calls_named(g, fi.name) if isinstance(c.func, ast.Attribute) and T(c.func.value) == "self"]
        if callers:
            idx = [p for p in fi.params() if p != "self"].index(k.id)
            good = True
            for g, c in callers:
                if g.name != "filter":
                    good = False
                    break
                gname = g.params()[1] if len(g.params()) > 1 else None
                a = c.args[idx] if idx < len(c.args) else A.kwarg(c, k.id)
                if a is None or T(a) != gname:
                    good = False
                    break
                cfg = prog.cfg(g)
                cn = cfg.node_of(c)
                for r in A.returns_of(g.node):
                    if _const_false_return(r) and cfg.exists_path(cn, [cfg.node_of(r)]):
                        good = False
            if good:
                return True, f"helper keyed by the current glyph name; its {len(callers)} caller(s) return True afterwards"
    # 3. helper returns the new glyph; the caller returns {<it>.name} on every feasible path
    if v is not None and fi.name not in ("filter", "__call__"):
        rets = [r for r in A.returns_of(fi.node) if r.value is not None]
        if rets and all(T(r.value) == T(v) for r in rets):
            callers = [(g, c) for g in ix.functions.values() if g.module.name.startswith("ufo2ft.filters")
                       for c in calls_named(g, fi.name) if isinstance(c.func, ast.Attribute) and T(c.func.value) == "self"]
            good = bool(callers)
            for g, c in callers:
                cfg = prog.cfg(g)
                cn = cfg.node_of(c)
                tgt = ix.enclosing_stmt(c)
                res = A.target_names(tgt.targets[0])[0] if isinstance(tgt, ast.Assign) and A.target_names(tgt.targets[0]) else None
                for r in A.returns_of(g.node):
                    rn = cfg.node_of(r)
                    if not cfg.exists_path(cn, [rn]):
                        continue
                    names_res = res is not None and any(isinstance(x, ast.Attribute) and x.attr == "name" and T(x.value) == res for x in ast.walk(r.value)) \
                        if r.value is not None else False
                    if names_res:
                        continue
                    # an empty-set return: feasible only if no flag forces the reporting branch
                    infeasible = _infeasible_false_return(prog, g, cfg, cn, r)
                    if not infeasible:
                        good = False
            if good:
                return True, "helper returns the new glyph; every feasible path of the caller returns {glyph.name}"
    return False, "no report found"


# ----------------------------------------------------------------------------- R14.5
def r145(prog, chk):
    """Ownership analysis with the filters' own font / fonts parameter as the only
    borrowed root and the filter entry points as roots."""
    ix = prog.ix
    roots, seeds = [], {}
    for ci in filter_classes(prog):
        m = ci.methods.get("__call__")
        if m is not None:
            roots.append(m)
            seeds[m.qname] = {m.params()[1]: "deep"}
    o = c07.build(prog, seeds=seeds, roots=roots)
    viol = o.violations()
    seen = set()
    nviol = set()
    for w, chain in viol:
        if not w.fi.module.name.startswith("ufo2ft.filters") and not w.fi.module.name == "ufo2ft.util":
            continue
        k = (w.fi.short, A.keytext(w.fi.node, w.node))
        # C07's exemptions are about `inplace`; they do not carry over: a filter given a separate glyph set must not touch the font
        inst = f"{k[0]}|{k[1]}"
        if inst in nviol:
            continue
        nviol.add(inst)
        what = "borrowed glyph inserted into the glyph set" if w.kind.startswith("escape") else f"{w.kind} through `{w.recv_text}`"
        chk.ob("R14.5", inst, False, where(w.fi, w.node), message=f"the filter writes the source font: {what}; via " + " -> ".join(chain[-4:]), chain=chain)
    for w in o.writes:
        if not w.fi.module.name.startswith("ufo2ft.filters"):
            continue
        inst = f"{w.fi.short}|{A.keytext(w.fi.node, w.node)}"
        if inst in nviol or inst in seen:
            continue
        seen.add(inst)
        chk.ob("R14.5", inst, True, where(w.fi, w.node), detail=f"{w.kind}: receiver `{w.recv_text}` is not the font", nontrivial=bool(w.recv.own))
    chk.extra["r145_ownership_stats"] = dict(o.stats)
    chk.minimum("R14.5", 45)


# ----------------------------------------------------------------------------- R14.6
def r146(prog, chk):
    init = prog.ix.get_method(BASE_FILTER, "__init__", own=True)
    cfg = prog.cfg(init)
    # the two locals are identified by the option they are popped from, not by name
    role = {}
    for st in A.stmts_of(init.node):
        if isinstance(st, ast.Assign) and isinstance(st.targets[0], ast.Name) and isinstance(st.value, ast.Call) \
                and A.callee_name(st.value) in ("pop", "get") and st.value.args and isinstance(st.value.args[0], ast.Constant) \
                and st.value.args[0].value in ("include", "exclude"):
            role[st.targets[0].id] = st.value.args[0].value
    need(set(role.values()) == {"include", "exclude"}, f"cannot interpret {init.short}: include / exclude options not found")

    def atomize(e):
        p = A.compare_parts(e)
        if p and isinstance(p[1], (ast.Is, ast.IsNot)) and A.is_const(p[2], None) and isinstance(p[0], ast.Name) and p[0].id in role:
            return ((role[p[0].id], "given"), isinstance(p[1], ast.IsNot))
        return None

    both = lambda env: env[("include", "given")] and env[("exclude", "given")]
    atoms = (("include", "given"), ("exclude", "given"))
    rs = [r for r in A.raises_of(init.node) if A.raise_class(r) == "ValueError"]
    good = [r for r in rs if entails([c for c in conds(prog, init, r) if c.polarity in (True, False)], atomize, both, goal_atoms=atoms)]
    chk.ob("R14.6", f"{init.short}|include+exclude raises ValueError", bool(good), where(init),
           detail="raise ValueError under `include is not None and exclude is not None`",
           message="BaseFilter accepts include and exclude together (one of them is silently ignored)")
    stores = [s for s, t, v in attr_stores(init, "include") if T(t.value) == "self"]
    need(stores, f"cannot interpret {init.short}")
    for s in stores:
        ok = entails([c for c in conds(prog, init, s) if c.polarity in (True, False)], atomize,
                     lambda env: not both(env), goal_atoms=atoms)
        chk.ob("R14.6", f"{init.short}|{A.keytext(init.node, s)}", ok, where(init, s), detail="predicate installed only when not both were given",
               message="a predicate is installed although include and exclude were both given")
    # which predicate is installed is decided by *whether* an option was given (`is not None`), never by its truthiness:
    # an empty include list selects nothing, an empty exclude list excludes nothing -- neither is "no list"
    def atomize2(e):
        a = atomize(e)
        if a is not None:
            return a
        if isinstance(e, ast.Call) and A.callee_name(e) == "callable" and len(e.args) == 1 and isinstance(e.args[0], ast.Name) and e.args[0].id in role:
            return ((role[e.args[0].id], "callable"), True)
        if isinstance(e, ast.Name) and e.id in role:
            return ((role[e.id], "truthy"), True)
        return None

    def sane(env):  # a callable is not None and is truthy; None is falsy
        return all((env[(r, "given")] or not env[(r, "callable")]) and (env[(r, "given")] or not env[(r, "truthy")])
                   and (env[(r, "truthy")] or not env[(r, "callable")]) for r in ("include", "exclude"))

    assigned = {}
    for st in A.stmts_of(init.node):
        if isinstance(st, ast.Assign):
            for t in st.targets:
                for nm in A.target_names(t):
                    assigned.setdefault(nm, set()).update(n.id for n in ast.walk(st.value) if isinstance(n, ast.Name))

    def roles_of(expr):
        seen, todo = set(), [n.id for n in ast.walk(expr) if isinstance(n, ast.Name)]
        while todo:
            nm = todo.pop()
            if nm in seen:
                continue
            seen.add(nm)
            if nm not in role:
                todo.extend(assigned.get(nm, ()))
        return {role[nm] for nm in seen if nm in role}

    atoms2 = atoms + tuple((r, k) for r in ("include", "exclude") for k in ("callable", "truthy"))
    for s in stores:
        rs_ = roles_of(s.value)
        cl = [c for c in conds(prog, init, s) if c.polarity in (True, False)]
        if rs_:
            goal = lambda env, _r=tuple(rs_): all(env[(r, "given")] for r in _r)
            what = " and ".join(f"`{r} is not None`" for r in sorted(rs_))
            msg = (f"the predicate built from {'/'.join(sorted(rs_))} is not installed under {what}: whether the option was given is decided by "
                   f"something else (its truthiness?), so an empty list is taken for 'no list' and the filter runs on glyphs it was not asked to touch")
        else:
            # an empty exclude list excludes nothing, which is what the default does; an empty include list is not the default
            goal = lambda env: not env[("include", "given")] and not env[("exclude", "truthy")]
            what = "`include is None` and nothing to exclude"
            msg = ("the select-everything default is installed although include or exclude may have been given (an empty list is not 'no list'): "
                   "the filter runs on glyphs it was asked to leave alone")
        ok = entails(cl, atomize2, goal, constraints=sane, goal_atoms=atoms2)
        chk.ob("R14.6", f"{init.short}|{A.keytext(init.node, s)} installed under {what}", ok, where(init, s),
               detail="decided by `is None` / `is not None` tests on the popped options (callable(x) implies x is not None)", message=msg)
    # the selection stored in the lib reaches the filter as it is: an empty include list selects nothing, it is not "no list"
    lf = prog.ix.get_func("ufo2ft.filters:loadFilters")
    ctor = [c for c in A.body_nodes(lf.node) if isinstance(c, ast.Call) and any(k.arg in ("include", "exclude") for k in c.keywords) or (isinstance(c, ast.Call) and getattr(c, "_kwmoved", None) and
                                                                                                                                 {"include", "exclude"} & set(c._kwmoved))]
    need(len(ctor) == 1, f"cannot interpret {lf.short}: filter construction")
    for opt in ("include", "exclude"):
        v = A.kwarg(ctor[0], opt)
        ok = isinstance(v, ast.Call) and A.callee_name(v) == "get" and len(v.args) == 1 and A.is_const(v.args[0], opt)
        if isinstance(v, ast.Name):
            okn, _ = every_origin(prog, lf, v, lambda e, f_, _o=opt: isinstance(e, ast.Call) and A.callee_name(e) == "get" and len(e.args) == 1 and A.is_const(e.args[0], _o), allow_const=False)
            ok = okn
        chk.ob("R14.6", f"{lf.short}|{opt} is forwarded exactly as stored in the lib", ok, where(lf, ctor[0]), detail=T(v, 60) if v is not None else "missing",
               message=f"{lf.short}: the '{opt}' selection of a lib-declared filter is not forwarded as stored (`{T(v, 50) if v is not None else None}`): an empty list "
                       f"(select nothing) and a missing key (no selection) are no longer told apart, so the filter runs on glyphs it was not asked to touch")
    chk.minimum("R14.6", 10)


_CHAIN_SRC = """if callable(include):
    self.include = include
    self._include_repr = lambda: repr(include)
elif INC:
    included = set(include)
    self.include = lambda g: g.name in included
    self._include_repr = lambda: repr(include)
elif EXC:
    excluded = set(exclude)
    self.include = lambda g: g.name not in excluded
    self._exclude_repr = lambda: repr(exclude)
else:
    self.include = lambda g: True"""


def _CHAIN(inc, exc):
    return _CHAIN_SRC.replace("INC", inc).replace("EXC", exc)


# ----------------------------------------------------------------------------- R14.7
def r147(prog, chk):
    """A separate (copied) glyph set shares nothing with the source font that a filter writes to: filters record state in
    `glyphSet.lib` (the cu2qu curve-type marker), so the copy made by `_GlyphSet.from_layer(copy=True)` owns a copy of the
    layer lib - the layer's own lib is only handed out when no copy was asked for."""
    ix = prog.ix
    f = ix.get_method("ufo2ft.util._GlyphSet", "from_layer", own=True)
    need("copy" in f.params(), f"cannot interpret {f.short}: no copy parameter")
    stores = [(s_, t, v) for s_, t, v in attr_stores(f, "lib") if v is not None]
    need(stores, f"cannot interpret {f.short}: the glyph set's lib is never set")
    n = 0
    for s_, t, v in stores:
        fs = facts(prog, f, s_)
        only_without_copy = any(o == "falsy" and l == "copy" for o, l, r in fs)
        is_copy = every_origin(prog, f, v, lambda x, ff: isinstance(x, ast.Call) and (A.callee_name(x) in ("deepcopy", "copy", "dict") or T(x.func).endswith(".copy")), allow_const=False)[0]
        n += 1
        chk.ob("R14.7", f"{f.short}|{T(s_, 40)}|a copied glyph set owns its lib", bool(only_without_copy or is_copy), where(f, s_), detail=f"copy asked for: {'no' if only_without_copy else 'possibly'}; value is a copy: {bool(is_copy)}",
               message=f"{f.short}: `{T(s_, 60)}` can run when a copy was asked for and hands the copied glyph set the layer's own lib: a filter that records something in glyphSet.lib "
                       f"(the cu2qu curve-type marker) then writes into the source font although it was given a separate glyph set - and finds its own marker there on the next run")
    # and filters that write to the glyph set's lib do exist: keep the premise visible
    writers = [fi for fi in ix.functions.values() if not isinstance(fi.node, ast.Lambda) and fi.module.name.startswith("ufo2ft.filters.")
               and any(isinstance(x, ast.Subscript) and isinstance(x.ctx, ast.Store) and T(x.value).endswith(".lib") for x in ast.walk(fi.node))]
    chk.ob("R14.7", "filters write to the glyph set's lib (premise)", True, where(writers[0]) if writers else "", detail=f"{len(writers)} filter function(s) store into a .lib")
    chk.minimum("R14.7", 2)


MUTANTS = [
    M("copied glyph sets share the layer lib with the source font (seeded C14n)", "ufo2ft/util.py", "_GlyphSet.from_layer",
      "self.lib = deepcopy(layer.lib)", "self.lib = layer.lib", rule="R14.7"),
    M("layer lib copied with dict()", "ufo2ft/util.py", "_GlyphSet.from_layer",
      "self.lib = deepcopy(layer.lib)", "self.lib = deepcopy(dict(layer.lib))", kind="equiv"),
    M("decompose filter reports a change only when contours were added (seeded C14m)", "ufo2ft/filters/decomposeComponents.py", "DecomposeComponentsFilter.filter",
      "decomposeCompositeGlyph(glyph, self.context.glyphSet)\nreturn True", "numContours = len(glyph)\ndecomposeCompositeGlyph(glyph, self.context.glyphSet)\nreturn len(glyph) != numContours", rule="R14.4"),
    M("missing bases resolved from the source font's default layer through a ChainMap (seeded C14l)", "ufo2ft/filters/propagateAnchors.py", "PropagateAnchorsFilter.set_context",
      "ctx.processed = set()", "ctx.processed = set()\nctx.glyphSet = ChainMap(glyphSet, font.layers.defaultLayer)", rule="R14.5",
      also=(("ufo2ft/filters/propagateAnchors.py", "", "<append-module>", "from collections import ChainMap\n"),)),
    M("flattening memoised in a dict kept on the filter object and filled by the helper (seeded C15j)", "ufo2ft/filters/flattenComponents.py", "FlattenComponentsFilter.filter",
      "return _flattenGlyphComponents(glyph, self.context.glyphSet)", "return _note(_flattenGlyphComponents(glyph, self.context.glyphSet), glyph, self._flattened)", rule="R14.2",
      also=(("ufo2ft/filters/flattenComponents.py", "FlattenComponentsFilter", "<add-method>", "def start(self):\n    self._flattened = {}\n"),
            ("ufo2ft/filters/flattenComponents.py", "", "<append-module>", "def _note(result, glyph, cache):\n    cache[glyph.name] = result\n    return result\n"))),
    M("include list tested by truthiness: an empty include list means 'all glyphs' (seeded C14i)", "ufo2ft/filters/base.py", "BaseFilter.__init__",
      _CHAIN("include is not None", "exclude is not None"), _CHAIN("include", "exclude is not None"), rule="R14.6"),
    M("exclude list tested by truthiness", "ufo2ft/filters/base.py", "BaseFilter.__init__",
      _CHAIN("include is not None", "exclude is not None"), _CHAIN("include is not None", "exclude"), kind="equiv"),
    M("empty include list from the lib treated as 'not set' (seeded C14g)", "ufo2ft/filters/__init__.py", "loadFilters",
      "filterDict.get('include')", "filterDict.get('include') or None", rule="R14.6"),
    M("component-location memo moved to an lru_cache on the filter method (seeded C14f)", "ufo2ft/filters/base.py", "BaseIFilter.glyphSourceLocations",
      "<decorate>", "functools.lru_cache(maxsize=None)", rule="R14.2"),
    M("flatten verdict assigned per component (seeded C14b)", "ufo2ft/filters/flattenComponents.py", "_flattenGlyphComponents",
      "if flattened_tuples[0] != (comp.baseGlyph, comp.transformation):\n    flattened = True", "flattened = flattened_tuples[0] != (comp.baseGlyph, comp.transformation)", rule="R14.4c"),
    M("interpolatable flatten verdict of the last master only (fixed 9c7be88)", "ufo2ft/filters/flattenComponents.py", "FlattenComponentsIFilter.filter",
      "flattened |= _flattenGlyphComponents(glyph, interpolatedLayer or glyphSet)", "flattened = _flattenGlyphComponents(glyph, interpolatedLayer or glyphSet)", rule="R14.4c"),
    M("verdict accumulated with or", "ufo2ft/filters/flattenComponents.py", "FlattenComponentsIFilter.filter",
      "flattened |= _flattenGlyphComponents(glyph, interpolatedLayer or glyphSet)", "flattened = _flattenGlyphComponents(glyph, interpolatedLayer or glyphSet) or flattened", kind="equiv"),
    M("filter applied to every glyph regardless of include", "ufo2ft/filters/base.py", "BaseFilter.__call__",
      "include(glyph) and filter_(glyph)", "filter_(glyph)", rule="R14.1"),
    M("interpolatable filter ignores include", "ufo2ft/filters/base.py", "BaseIFilter.__call__",
      "any((include(g) for g in glyphs)) and filter_(glyphName, glyphs)", "filter_(glyphName, glyphs)", rule="R14.1"),
    M("transformations recurse into excluded bases", "ufo2ft/filters/transformations.py", "TransformationsFilter.filter",
      "self.include(base_glyph) and self.filter(base_glyph)", "self.filter(base_glyph)", rule="R14.1"),
    M("propagate-anchors keeps `processed` on the filter object", "ufo2ft/filters/propagateAnchors.py", "PropagateAnchorsFilter.set_context",
      "ctx.processed = set()", "self.processed = getattr(self, 'processed', set())\nctx.processed = self.processed", rule="R14.2"),
    M("modified set reused across calls", "ufo2ft/filters/base.py", "BaseFilter.set_context",
      "self.context.modified = set()", "self.context.modified = self.__dict__.setdefault('_modified', set())", rule="R14.2"),
    M("cu2qu statistics accumulate on the filter", "ufo2ft/filters/cubicToQuadratic.py", "CubicToQuadraticFilter.set_context",
      "ctx.stats = {}", "self.stats = ctx.stats = getattr(self, 'stats', {})", rule="R14.2"),
    M("explode filter sets its context fields before creating the base context", "ufo2ft/filters/explodeColorLayerGlyphs.py", "ExplodeColorLayerGlyphsFilter.set_context",
      "context = super().set_context(font, glyphSet)\ncontext.globalColorLayerMapping = font.lib.get(COLOR_LAYER_MAPPING_KEY)",
      "context = self.context\ncontext.globalColorLayerMapping = font.lib.get(COLOR_LAYER_MAPPING_KEY)\ncontext = super().set_context(font, glyphSet)", rule="R14.2"),
    M("skip-export returns the stale context's set when there is nothing to do", "ufo2ft/filters/skipExportGlyphs.py", "SkipExportGlyphsFilter.__call__",
      "if not self.options.skipExportGlyphs:\n    return set()", "if not self.options.skipExportGlyphs:\n    return self.context.modified", rule="R14.3"),
    M("interpolatable skip-export reads the context before it exists", "ufo2ft/filters/skipExportGlyphs.py", "SkipExportGlyphsIFilter.__call__",
      "if not self.options.skipExportGlyphs:\n    return set()", "if not self.options.skipExportGlyphs:\n    return self.context.modified", rule="R14.3"),
    M("flatten logs from the context before running", "ufo2ft/filters/flattenComponents.py", "FlattenComponentsFilter.__call__",
      "modified = super().__call__(font, glyphSet)", "logger.debug('%s', self.context.glyphSet)\nmodified = super().__call__(font, glyphSet)", rule="R14.3"),
    M("reverse-direction filter returns False after mutating", "ufo2ft/filters/reverseContourDirection.py", "ReverseContourDirectionFilter.filter",
      "return True", "return False", rule="R14.4"),
    M("remove-overlaps falls off the end", "ufo2ft/filters/removeOverlaps.py", "RemoveOverlapsFilter.filter",
      "return True", "pass", rule="R14.4"),
    M("decompose filter reports nothing", "ufo2ft/filters/decomposeComponents.py", "DecomposeComponentsFilter.filter",
      "decomposeCompositeGlyph(glyph, self.context.glyphSet)\nreturn True", "decomposeCompositeGlyph(glyph, self.context.glyphSet)\nreturn False", rule="R14.4"),
    M("skip-export: removed glyphs not reported", "ufo2ft/filters/skipExportGlyphs.py", "SkipExportGlyphsFilter.__call__",
      "del glyphSet[glyphName]\nmodified.add(glyphName)", "del glyphSet[glyphName]", rule="R14.4b"),
    M("colour-layer glyphs added without report", "ufo2ft/filters/explodeColorLayerGlyphs.py", "ExplodeColorLayerGlyphsFilter._copyGlyph",
      "self.context.modified.add(layerGlyphName)", "pass", rule="R14.4b"),
    M("dotted circle added but an empty set returned", "ufo2ft/filters/dottedCircle.py", "DottedCircleFilter.__call__",
      "added_glyph = True", "pass", rule="R14.4b"),
    M("decompose-ifilter may return False after interpolating the composite", "ufo2ft/filters/decomposeComponents.py", "DecomposeComponentsIFilter.filter",
      "return True", "return False", rule="R14"),
    M("sort-contours filter stamps the font lib", "ufo2ft/filters/sortContours.py", "SortContoursFilter.filter",
      "glyph.clearContours()", "glyph.clearContours()\nself.context.font.lib['sorted'] = True", rule="R14.5"),
    M("include and exclude both accepted", "ufo2ft/filters/base.py", "BaseFilter.__init__",
      "if include is not None and exclude is not None:\n    raise ValueError(\"'include' and 'exclude' arguments are mutually exclusive\")", "pass", rule="R14.6"),
    # equivalents
    M("include test hoisted into a local", "ufo2ft/filters/base.py", "BaseFilter.__call__",
      "if include(glyph) and filter_(glyph):\n    modified.add(glyphName)",
      "if include(glyph):\n    if filter_(glyph):\n        modified.add(glyphName)", kind="equiv"),
    M("context field renamed locally", "ufo2ft/filters/propagateAnchors.py", "PropagateAnchorsFilter.set_context",
      "ctx.processed = set()", "done = set()\nctx.processed = done", kind="equiv"),
]
