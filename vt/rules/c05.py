"""C05 - generated kerning applies the UFO kerning value to every pair, once (structural clauses)."""

from __future__ import annotations

import ast
from typing import Dict, List, Optional, Set, Tuple

from ..core import astutil as A
from ..core.index import AnalysisError, FuncInfo, external_init_signature
from ..selftest import M
from .common import subscript_stores, T, calls_named, conds, conjuncts, every_origin, facts, need, where
from .rounding import check_helper, is_otround
from . import c08

KERN1 = "ufo2ft.featureWriters.kernFeatureWriter"
KERN2 = "ufo2ft.featureWriters.kernFeatureWriter2"
KP = f"{KERN1}.KerningPair"


def run(prog, chk):
    chk.decided += [
        "KerningPair ordering key is (firstIsClass, secondIsClass, side1, side2) on both operands, with firstIsClass/secondIsClass = isinstance(side, tuple): glyph-glyph < glyph-class < class-glyph < class-class (R05.1)",
        "every bucket of splitKerning / split_kerning is sorted (plain .sort()) on every path before return, after base/mark splitting, and rules are emitted in that order, one rule per pair (R05.2)",
        "value-record table of both pair-pos builders: xAdvance = pair.value always, xPlacement = pair.value iff rtl, y components 0 iff rtl, enumerated = firstIsClass xor secondIsClass, glyphs1/glyphs2 from side1/side2 with their class tables; keyword names exist in fontTools (R05.3)",
        "every kerning value reaching a KerningPair in the four extraction functions has passed quantize(value, options.quantization); variable values are resolved per source with fontTools' lookupKerningValue (UFO precedence); splitting functions copy pair.value unchanged; quantize = factor * otRound(number / factor) (R05.4)",
        "zero-valued pairs are dropped only when both sides are classes (R05.5)",
        "the rtl flag of a rule is 'script/direction is RTL and no L bidi type in the pair'; pairs with both R and L bidi types never reach a rule (R05.6)",
        "pairs referencing glyphs outside the glyph set are skipped in all four extraction functions; v1 and v2 siblings agree on their skip conditions (R05.7)",
        "each split pair is stored into exactly one bucket: one append per yielded part, merged buckets are re-assigned with break after the first match, all four base/mark combinations are kept exactly once (R05.8)",
        "kerning lookups are registered, per OpenType tag, for exactly the languages the feature file declares for that tag (flat per-tag table over all declared language systems, default ['dflt']) (R05.9, shared with C20)",
    ]
    chk.decided += ["scripts are folded into Common exactly when a glyph has a neutral script, Zyyy or Zinh (R05.11)"]
    chk.decided += ["every kerning class is defined under the unique name makeFeaClassName computed for it, unchanged (R05.10)"]
    chk.decided += ["the pair list handed to the lookup builders is the collected list itself: between the collection (UFO pairs with unknown glyphs / groups removed) and the base / mark and script "
                    "splits no pair is filtered out or rewritten - an exception that 'restates' a class value still shields the pair from a more general exception (R05.12)"]
    chk.decided += ["feature-writer objects keep no per-font state outside self.context (no memoising decorators, no attributes written outside __init__): a kern writer object reused for a second font must not split base / mark pairs with the first font's mark set (R05.13 = R08.7)"]
    chk.decided += ["no kern-writer function answers from a dictionary it also fills under a key that is only one element of the collection the answer depends on (a class 'identified' by its first glyph: "
                    "a first-side and a second-side class may share it) (R05.14)"]
    chk.decided += ["the bidi classes the kern writers split pairs by are disjoint on alternates of neutral glyphs: classifyGlyphs closes the neutral set over GSUB before taking it out of each class closure (R05.15 = R18.11)"]
    chk.not_decided += ["what a shaper applies", "that common and script lookups never both hold the same glyph pair", "script / bidi classification of glyphs", "the kerning values themselves"]
    chk.guard(r051, prog, chk)
    chk.guard(r052, prog, chk)
    chk.guard(r053, prog, chk)
    chk.guard(r054, prog, chk)
    chk.guard(r055, prog, chk)
    chk.guard(r056, prog, chk)
    chk.guard(r057, prog, chk)
    chk.guard(r058, prog, chk)
    from .c20 import r202
    chk.guard(r202, prog, chk, "R05.9")
    chk.guard(r0510, prog, chk)
    chk.guard(r0511, prog, chk)
    chk.guard(r0512, prog, chk)
    from .c08 import r087
    chk.guard(r087, prog, chk, "R05.13")
    chk.guard(check_no_partial_key_memo, prog, chk, "R05.14")
    from .c18 import check_neutral_closure
    chk.guard(check_neutral_closure, prog, chk, "R05.15")


# ----------------------------------------------------------------------------- R05.1
def r051(prog, chk):
    ix = prog.ix
    kp = ix.get_class(KP)
    lt = kp.methods.get("__lt__")
    need(lt is not None, "KerningPair.__lt__ not found")
    ps = lt.params()
    need(len(ps) == 2, "cannot interpret KerningPair.__lt__")
    me, other = ps
    rets = [r for r in A.returns_of(lt.node) if not (isinstance(r.value, ast.Name) and r.value.id == "NotImplemented")]
    need(len(rets) == 1, "cannot interpret KerningPair.__lt__: returns")
    cmp_ = rets[0].value
    ok = isinstance(cmp_, ast.Compare) and len(cmp_.ops) == 1 and isinstance(cmp_.ops[0], ast.Lt)
    fields = {}
    if ok:
        for side, owner in ((cmp_.left, me), (cmp_.comparators[0], other)):
            v = side
            if isinstance(v, ast.Name):
                ds = prog.reaching(lt, v.id, v)
                v = ds[0].element()[0] if len(ds) == 1 else None
            if isinstance(v, ast.Tuple) and all(isinstance(e, ast.Attribute) and isinstance(e.value, ast.Name) and e.value.id == owner for e in v.elts):
                fields[owner] = [e.attr for e in v.elts]
    ok = ok and fields.get(me) == fields.get(other) and fields.get(me, [None, None])[:2] == ["firstIsClass", "secondIsClass"] and set(fields.get(me, [])[2:]) == {"side1", "side2"} \
        and fields[me][2:] == ["side1", "side2"]
    chk.ob("R05.1", f"{lt.short}|key = (firstIsClass, secondIsClass, side1, side2) on both operands, compared with <", ok, where(lt), detail=str(fields),
           message=f"KerningPair.__lt__ no longer orders glyph-glyph < glyph-class < class-glyph < class-class (keys {fields}): an exception pair can be "
                   f"emitted after the class pair it overrides and lose")
    for prop, side in (("firstIsClass", "side1"), ("secondIsClass", "side2"), ):
        m = kp.methods.get(prop)
        need(m is not None and m.is_property, f"KerningPair.{prop} is not a property")
        r = A.returns_of(m.node)
        ok = len(r) == 1 and isinstance(r[0].value, ast.Call) and A.callee_name(r[0].value) == "isinstance" and T(r[0].value.args[0]) == f"self.{side}" and T(r[0].value.args[1]) == "tuple"
        chk.ob("R05.1", f"{m.short}|isinstance(self.{side}, tuple)", ok, where(m), detail=T(r[0].value) if r else "",
               message=f"KerningPair.{prop} is no longer 'side {side[-1]} is a class (tuple)'")
    for prop, side in (("firstGlyphs", "side1"), ("secondGlyphs", "side2")):
        m = kp.methods.get(prop)
        need(m is not None, f"KerningPair.{prop} missing")
        rs = A.returns_of(m.node)
        ok = len(rs) == 2 and all(f"self.{side}" in T(r.value) for r in rs) and not any(f"self.{'side2' if side == 'side1' else 'side1'}" in T(r.value) for r in rs)
        chk.ob("R05.1", f"{m.short}|glyphs of {side}", ok, where(m), detail="; ".join(T(r.value) for r in rs), message=f"KerningPair.{prop} does not return the glyphs of {side}")
    # dataclass must not generate its own ordering
    decs = [d for d in kp.node.decorator_list]
    ok = all(not (isinstance(d, ast.Call) and any(k.arg == "order" and A.is_const(k.value, True) for k in d.keywords)) for d in decs)
    chk.ob("R05.1", f"{kp.name}|dataclass(order=False)", ok, where(lt), detail="hand-written __lt__ is the only ordering", nontrivial=False,
           message="KerningPair lets dataclass generate field-order comparison")
    chk.minimum("R05.1", 6)


# ----------------------------------------------------------------------------- R05.2
def _loop_over(fi: FuncInfo, pred) -> List[ast.For]:
    return [n for n in A.body_nodes(fi.node) if isinstance(n, ast.For) and pred(n)]


def r052(prog, chk):
    ix = prog.ix
    for q in (f"{KERN1}:splitKerning", f"{KERN2}:split_kerning"):
        f = ix.get_func(q)
        ok = c08.ob_lists_sorted_before_return(prog, f)
        chk.ob("R05.2", f"{f.short}|every bucket sorted before return", ok, where(f), detail="for ... in <result>: pairs.sort()",
               message=f"{f.short} no longer sorts every bucket before returning it: exceptions are not guaranteed to precede the class pairs they override")
        sorts = [c for c in calls_named(f, "sort") if isinstance(c.func, ast.Attribute)]
        ok = bool(sorts) and all(not c.args and not c.keywords for c in sorts)
        chk.ob("R05.2", f"{f.short}|plain sort (KerningPair.__lt__)", ok, where(f), detail="pairs.sort() without key/reverse",
               message=f"{f.short} sorts the buckets with a key / reversed: the KerningPair ordering is bypassed")
        # a single append per yielded part (R05.8 uses the same loop)
    # emission order = bucket order (v1)
    kw1 = ix.get_class(f"{KERN1}.KernFeatureWriter")
    ms = kw1.methods["_makeSplitScriptKernLookups"]
    _emission(prog, chk, ms, "splitKerning", "_makePairPosRule")
    f2 = ix.get_func(f"{KERN2}:make_split_kerning_lookups")
    _emission(prog, chk, f2, None, "make_pairpos_rule")
    # v2: the dicts handed to make_split_kerning_lookups are split_kerning results
    ek = ix.get_func(f"{KERN2}:extract_kerning_data")
    for c in [c for c in A.body_nodes(ek.node) if isinstance(c, ast.Call) and A.callee_name(c) == "SimpleNamespace"]:
        for kw in c.keywords:
            if kw.arg in ("base_pairs_by_direction", "mark_pairs_by_direction"):
                ok, bad = every_origin(prog, ek, kw.value, lambda x, f: isinstance(x, ast.Call) and A.callee_name(x) == "split_kerning", allow_const=False)
                chk.ob("R05.2", f"{ek.short}|{kw.arg} is a split_kerning result", ok, where(ek, c), detail=T(kw.value),
                       message=f"{kw.arg} no longer comes straight from split_kerning ({bad}): buckets may be unsorted")
    mk = ix.get_func(f"{KERN2}:make_kerning_lookups")
    for c in calls_named(mk, "make_split_kerning_lookups"):
        a = A.arg_at(c, 3, "kerning_per_direction")
        ok = isinstance(a, ast.Attribute) and a.attr in ("base_pairs_by_direction", "mark_pairs_by_direction")
        chk.ob("R05.2", f"{mk.short}|{A.keytext(mk.node, c)[:60]}", ok, where(mk, c), detail=T(a) if a is not None else "",
               message="make_split_kerning_lookups is not given the sorted per-direction buckets")
    # base/mark splitting happens before the sort (v1: inside _makeKerningLookups before _makeSplitScriptKernLookups)
    mkl = kw1.methods["_makeKerningLookups"]
    for c in calls_named(mkl, "_makeSplitScriptKernLookups"):
        a = A.arg_at(c, 1, "pairs")
        ok, bad = False, [T(a)]
        if isinstance(a, ast.Name):
            ds = prog.reaching(mkl, a.id, a)
            ok = bool(ds) and all((isinstance(d.value, ast.Call) and A.callee_name(d.value) == "_splitBaseAndMarkPairs") or (isinstance(d.value, ast.Attribute) and d.value.attr == "pairs") for d in ds)
            bad = [T(d.value, 50) for d in ds if d.value is not None]
        chk.ob("R05.2", f"{mkl.short}|{A.keytext(mkl.node, c)[:60]}", ok, where(mkl, c), detail="pairs / split pairs are sorted afterwards by splitKerning",
               message=f"unexpected pair list handed to the lookup builder ({bad})")
    chk.minimum("R05.2", 10)


def _emission(prog, chk, f: FuncInfo, split_name: Optional[str], rule_name: str):
    """for key, pairs in <buckets>.items(): for pair in pairs: rule = <rule>(pair, ...); lookup.statements.append(rule)"""
    ix = prog.ix
    outer = None
    for lp in _loop_over(f, lambda n: isinstance(n.iter, ast.Call) and isinstance(n.iter.func, ast.Attribute) and n.iter.func.attr == "items"):
        inner = [n for n in lp.body if isinstance(n, ast.For)]
        tn = A.target_names(lp.target)
        for il in inner:
            if isinstance(il.iter, ast.Name) and tn and il.iter.id == tn[-1] and any(A.callee_name(c) == rule_name for c in A.calls_in(il)):
                outer = (lp, il)
    need(outer is not None, f"cannot interpret {f.short}: bucket emission loop")
    lp, il = outer
    buckets = lp.iter.func.value
    if split_name is not None:
        ok, bad = every_origin(prog, f, buckets, lambda x, ff: isinstance(x, ast.Call) and A.callee_name(x) == split_name, allow_const=False)
    else:
        ps = f.params()
        ok, bad = isinstance(buckets, ast.Name) and buckets.id in ps and all(d.kind == "param" for d in prog.reaching(f, buckets.id, buckets)), []
    chk.ob("R05.2", f"{f.short}|rules are emitted from the sorted buckets", ok, where(f, lp), detail=T(lp.iter),
           message=f"{f.short} iterates something else than the sorted buckets ({bad})")
    pv = A.target_names(il.target)
    rules = [c for c in A.calls_in(il) if A.callee_name(c) == rule_name]
    ok = len(rules) == 1 and pv and isinstance(rules[0].args[0], ast.Name) and rules[0].args[0].id == pv[0]
    # appended once, in loop order, not inserted elsewhere
    apps = [c for c in A.calls_in(il) if isinstance(c.func, ast.Attribute) and c.func.attr in ("append", "insert", "extend") and "statements" in T(c.func.value)]
    ok2 = len(apps) == 1 and apps[0].func.attr == "append"
    if ok2:
        a = apps[0].args[0]
        ok2, _ = every_origin(prog, f, a, lambda x, ff: x is rules[0] if rules else False, allow_const=False)
    chk.ob("R05.2", f"{f.short}|one rule per pair, appended in bucket order", ok and ok2, where(f, il), detail="rule = make rule(pair); lookup.statements.append(rule)",
           message=f"{f.short} does not append exactly one rule per pair in bucket order")


# ----------------------------------------------------------------------------- R05.3
def r053(prog, chk):
    ix = prog.ix
    vr_sig = external_init_signature("fontTools.feaLib.ast", "ValueRecord")
    pp_sig = external_init_signature("fontTools.feaLib.ast", "PairPosStatement")
    for f in (ix.get_method(f"{KERN1}.KernFeatureWriter", "_makePairPosRule"), ix.get_func(f"{KERN2}:make_pairpos_rule")):
        ps = [p for p in f.params() if p != "self"]
        need(len(ps) == 4, f"cannot interpret {f.short}")
        pair, s1c, s2c, rtl = ps
        vrs = [c for c in calls_named(f, "ValueRecord")]
        need(len(vrs) == 1, f"cannot interpret {f.short}: ValueRecord")
        kws = {k.arg: k.value for k in vrs[0].keywords}
        chk.ob("R05.3", f"{f.short}|ValueRecord keywords exist in fontTools", not vrs[0].args and set(kws) <= set(vr_sig), where(f, vrs[0]), detail=str(sorted(kws)), nontrivial=False,
               message=f"ValueRecord is called with keywords fontTools does not define: {sorted(set(kws) - set(vr_sig))}")

        def is_val(e):
            return isinstance(e, ast.Attribute) and e.attr == "value" and isinstance(e.value, ast.Name) and e.value.id == pair

        def iff_rtl(e, body_pred):
            return isinstance(e, ast.IfExp) and isinstance(e.test, ast.Name) and e.test.id == rtl and body_pred(e.body) and A.is_const(e.orelse, None)

        tbl = [
            ("xAdvance = pair.value (always)", is_val(kws.get("xAdvance")), "the advance adjustment is not the pair's value on every path"),
            ("xPlacement = pair.value iff rtl", iff_rtl(kws.get("xPlacement"), is_val), "right-to-left pairs do not get the same amount as x-placement (or left-to-right ones do)"),
            ("yPlacement = 0 iff rtl", "yPlacement" not in kws or iff_rtl(kws.get("yPlacement"), lambda b: A.is_const(b, 0)) or A.is_const(kws.get("yPlacement"), None), "yPlacement is not 0/None"),
            ("yAdvance = 0 iff rtl", "yAdvance" not in kws or iff_rtl(kws.get("yAdvance"), lambda b: A.is_const(b, 0)) or A.is_const(kws.get("yAdvance"), None), "yAdvance is not 0/None"),
        ]
        for label, ok, msg in tbl:
            chk.ob("R05.3", f"{f.short}|{label}", bool(ok), where(f, vrs[0]), detail=T(vrs[0], 120), message=f"{f.short}: {msg}")
        pps = [c for c in calls_named(f, "PairPosStatement")]
        need(len(pps) == 1, f"cannot interpret {f.short}: PairPosStatement")
        pk = {k.arg: k.value for k in pps[0].keywords}
        for i, a in enumerate(pps[0].args):
            if i + 1 < len(pp_sig):
                pk[pp_sig[i + 1]] = a
        chk.ob("R05.3", f"{f.short}|PairPosStatement keywords exist in fontTools", set(pk) <= set(pp_sig), where(f, pps[0]), detail=str(sorted(pk)), nontrivial=False,
               message=f"PairPosStatement keywords unknown to fontTools: {sorted(set(pk) - set(pp_sig))}")
        ok, _ = every_origin(prog, f, pk.get("valuerecord1"), lambda x, ff: x is vrs[0], allow_const=False) if pk.get("valuerecord1") is not None else (False, [])
        chk.ob("R05.3", f"{f.short}|valuerecord1 is the value record, valuerecord2 is None", ok and A.is_const(pk.get("valuerecord2", ast.Constant(None)), None), where(f, pps[0]),
               detail="value on the first glyph only", message=f"{f.short}: the value record is not attached to the first glyph only (the amount would be applied twice or to the wrong glyph)")
        en = pk.get("enumerated")
        env = en
        if isinstance(en, ast.Name):
            ds = prog.reaching(f, en.id, en)
            env = ds[0].element()[0] if len(ds) == 1 else None
        ok = isinstance(env, ast.BinOp) and isinstance(env.op, ast.BitXor) and {T(env.left), T(env.right)} == {f"{pair}.firstIsClass", f"{pair}.secondIsClass"}
        chk.ob("R05.3", f"{f.short}|enumerated = firstIsClass xor secondIsClass", ok, where(f, pps[0]), detail=T(env) if env is not None else "",
               message=f"{f.short}: glyph-class / class-glyph pairs are not enumerated exactly (exceptions would be shadowed by class kerning, or class-class pairs exploded)")
        for slot, side, tblname, flag in (("glyphs1", "side1", s1c, "firstIsClass"), ("glyphs2", "side2", s2c, "secondIsClass")):
            g = pk.get(slot)
            need(isinstance(g, ast.Name), f"cannot interpret {f.short}: {slot}")
            ds = prog.reaching(f, g.id, g)
            ok = len(ds) == 2
            for d in ds:
                v = d.element()[0]
                fs = facts(prog, f, d.binder)
                is_cls = any(o == "truthy" and l == f"{pair}.{flag}" for o, l, r in fs)
                is_gl = any(o == "falsy" and l == f"{pair}.{flag}" for o, l, r in fs)
                if is_cls:
                    ok = ok and isinstance(v, ast.Call) and A.callee_name(v) == "GlyphClassName" and T(v.args[0]) == f"{tblname}[{pair}.{side}]"
                elif is_gl:
                    ok = ok and isinstance(v, ast.Call) and A.callee_name(v) == "GlyphName" and T(v.args[0]) == f"{pair}.{side}"
                else:
                    ok = False
            chk.ob("R05.3", f"{f.short}|{slot} from pair.{side} / its class table", ok, where(f, pps[0]), detail=f"GlyphClassName({tblname}[pair.{side}]) if {flag} else GlyphName(pair.{side})",
                   message=f"{f.short}: {slot} is not built from the pair's {side} (sides swapped or wrong class table)")
    chk.minimum("R05.3", 18)


# ----------------------------------------------------------------------------- R05.4
def _is_quantize(prog, f, x) -> bool:
    return isinstance(x, ast.Call) and prog.is_call_to(f, x, "ufo2ft.util.quantize")


def r054(prog, chk):
    ix = prog.ix
    q = ix.get_func("ufo2ft.util:quantize")
    check_helper(prog, chk, "R05.4", "ufo2ft.util:quantize")
    rets = [r for r in A.returns_of(q.node) if any(is_otround(prog, q, n) for n in ast.walk(r.value))]
    need(len(rets) == 1, "cannot interpret quantize")
    num, fac = q.params()[:2]
    v = rets[0].value
    ok = isinstance(v, ast.BinOp) and isinstance(v.op, ast.Mult)
    if ok:
        sides = [v.left, v.right]
        ot = [s for s in sides if is_otround(prog, q, s)]
        fs = [s for s in sides if isinstance(s, ast.Name) and s.id == fac]
        ok = len(ot) == 1 and len(fs) == 1 and isinstance(ot[0].args[0], ast.BinOp) and isinstance(ot[0].args[0].op, ast.Div) and T(ot[0].args[0].left) == num and T(ot[0].args[0].right) == fac
    chk.ob("R05.4", f"{q.short}|factor * otRound(number / factor)", ok, where(q, rets[0]), detail=T(v),
           message="quantize no longer rounds to the nearest multiple of the factor")
    static = [ix.get_method(f"{KERN1}.KernFeatureWriter", "getKerningPairs"), ix.get_func(f"{KERN2}:get_kerning_pairs")]
    for f in static:
        kps = [c for c in A.body_nodes(f.node) if isinstance(c, ast.Call) and A.callee_name(c) == "KerningPair"]
        need(kps, f"cannot interpret {f.short}: KerningPair construction")
        for c in kps:
            val = A.arg_at(c, 2, "value")
            ok, bad = every_origin(prog, f, val, lambda x, ff: _is_quantize(prog, ff, x), allow_const=False)
            chk.ob("R05.4", f"{f.short}|{A.keytext(f.node, c)}|value quantised", ok, where(f, c), detail="value = quantize(value, quantization)",
                   message=f"{f.short}: a kerning value reaches KerningPair without passing quantize ({bad})")
            for qc in [x for x in A.body_nodes(f.node) if _is_quantize(prog, f, x)]:
                a0, a1 = A.arg_at(qc, 0, "number"), A.arg_at(qc, 1, "factor")
                ok0, b0 = every_origin(prog, f, a0, lambda x, ff: isinstance(x, ast.Call) and A.callee_name(x) == "items" and "kerning" in T(x), allow_const=False) if isinstance(a0, ast.Name) else (False, [T(a0)])
                # loop variable unpacked from kerning.items(): origins report it as an element of the iterable
                okv = isinstance(a0, ast.Name) and any(d.kind == "for" for d in prog.reaching(f, a0.id, a0))
                ok1, b1 = every_origin(prog, f, a1, lambda x, ff: isinstance(x, ast.Attribute) and x.attr == "quantization", allow_const=False)
                chk.ob("R05.4", f"{f.short}|{A.keytext(f.node, qc)}|quantises the UFO value with options.quantization", okv and ok1, where(f, qc), detail=T(qc),
                       message=f"{f.short}: quantize is not applied to the UFO kerning value with the quantization option ({b1})")
    variable = [ix.get_method(f"{KERN1}.KernFeatureWriter", "getVariableKerningPairs"), ix.get_func(f"{KERN2}:get_variable_kerning_pairs")]
    for f in variable:
        stores = [n for n in A.body_nodes(f.node) if isinstance(n, ast.Assign) and isinstance(n.targets[0], ast.Subscript) and isinstance(n.targets[0].value, ast.Attribute)
                  and n.targets[0].value.attr == "values" and "location" in T(n.targets[0].slice).lower() and not A.is_const(n.value, 0)]
        need(stores, f"cannot interpret {f.short}: per-source value store")
        for st in stores:
            ok, bad = every_origin(prog, f, st.value, lambda x, ff: _is_quantize(prog, ff, x), allow_const=False)
            chk.ob("R05.4", f"{f.short}|{A.keytext(f.node, st)}|per-source value quantised", ok, where(f, st), detail="value = quantize(lookupKerningValue(...), quantization)",
                   message=f"{f.short}: a master's kerning value is stored without passing quantize ({bad})")
        for qc in [x for x in A.body_nodes(f.node) if _is_quantize(prog, f, x)]:
            a0, a1 = A.arg_at(qc, 0, "number"), A.arg_at(qc, 1, "factor")
            ok0 = isinstance(a0, ast.Call) and prog.is_call_to(f, a0, "fontTools.ufoLib.kerning.lookupKerningValue")
            ok1, b1 = every_origin(prog, f, a1, lambda x, ff: isinstance(x, ast.Attribute) and x.attr == "quantization", allow_const=False)
            chk.ob("R05.4", f"{f.short}|value resolved with fontTools lookupKerningValue (UFO precedence)", ok0 and ok1, where(f, qc), detail=T(a0, 60),
                   message=f"{f.short}: the per-master value is not resolved with fontTools.ufoLib.kerning.lookupKerningValue / not quantised with options.quantization")
            if ok0:
                lk = a0
                pr, kr = A.arg_at(lk, 0, "pair"), A.arg_at(lk, 1, "kerning")
                okk, bk = every_origin(prog, f, kr, lambda x, ff: isinstance(x, ast.Attribute) and x.attr == "kerning" and T(x).endswith("font.kerning"), allow_const=False)
                loops = [a for a in ix.ancestors(qc) if isinstance(a, ast.For)]
                okp = isinstance(pr, ast.Name) and any(pr.id in A.target_names(l.target) for l in loops)
                chk.ob("R05.4", f"{f.short}|lookupKerningValue(pair, <this source's kerning>, ...)", okk and okp, where(f, lk), detail=T(lk, 80),
                       message=f"{f.short}: lookupKerningValue is not asked about the current pair in the current source's kerning ({bk})")
        kps = [c for c in A.body_nodes(f.node) if isinstance(c, ast.Call) and A.callee_name(c) == "KerningPair"]
        for c in kps:
            val = A.arg_at(c, 2, "value")
            ok, bad = every_origin(prog, f, val, lambda x, ff: isinstance(x, ast.Call) and A.callee_name(x) in ("collapse_varscalar",), allow_const=False)
            chk.ob("R05.4", f"{f.short}|{A.keytext(f.node, c)}|value is the collapsed variable scalar", ok, where(f, c), detail="value = collapse_varscalar(value)",
                   message=f"{f.short}: KerningPair value is not the collected variable scalar ({bad})")
    # splitting copies the value unchanged
    splitters = [ix.get_func(f"{KERN1}:partitionByScript"), ix.get_method(f"{KERN1}.KernFeatureWriter", "_splitBaseAndMarkPairs"),
                 ix.get_func(f"{KERN2}:partition_by_direction"), ix.get_func(f"{KERN2}:split_base_and_mark_pairs")]
    for f in splitters:
        kps = [c for c in A.body_nodes(f.node) if isinstance(c, ast.Call) and A.callee_name(c) == "KerningPair"]
        need(kps, f"cannot interpret {f.short}: KerningPair construction")
        for c in kps:
            val = A.arg_at(c, 2, "value")
            ok = isinstance(val, ast.Attribute) and val.attr == "value" and isinstance(val.value, ast.Name)
            if ok:
                src = val.value
                ds = prog.reaching(f, src.id, src)
                ok = bool(ds) and all(d.kind in ("param", "for") for d in ds)
            chk.ob("R05.4", f"{f.short}|{A.keytext(f.node, c)}|value copied unchanged", ok, where(f, c), detail=T(val) if val is not None else "",
                   message=f"{f.short}: a split pair does not carry the original pair's value unchanged (`{T(val, 40) if val is not None else None}`)")
    chk.minimum("R05.4", 22)


# ----------------------------------------------------------------------------- R05.5
def r055(prog, chk):
    ix = prog.ix
    funcs = [ix.get_method(f"{KERN1}.KernFeatureWriter", "getKerningPairs"), ix.get_func(f"{KERN2}:get_kerning_pairs"),
             ix.get_method(f"{KERN1}.KernFeatureWriter", "getVariableKerningPairs"), ix.get_func(f"{KERN2}:get_variable_kerning_pairs")]
    n = 0
    for f in funcs:
        for st in A.stmts_of(f.node):
            if not isinstance(st, ast.Continue):
                continue
            cs = conds(prog, f, st)
            def is_value(e):
                return (isinstance(e, ast.Name) and e.id == "value") or (isinstance(e, ast.Attribute) and e.attr == "value")

            def zero_test(c):
                """the guard says something about the kerning value being zero / falsy"""
                for lit in (conjuncts(c) or [c.test]):
                    for x in ast.walk(lit):
                        if isinstance(x, ast.Compare) and isinstance(x.ops[0], ast.Eq) and A.is_const(x.comparators[0], 0):
                            return True
                    core = lit.operand if isinstance(lit, ast.UnaryOp) and isinstance(lit.op, ast.Not) else None
                    if core is not None and is_value(core):
                        return True  # `not value`: zero tested by truthiness
                return False
            zero = [c for c in cs if c.kind in ("if", "boolop") and zero_test(c)]
            if not zero:
                continue
            n += 1
            # the whole guard, as a conjunction of atoms: two class-ness tests and the zero test, nothing else
            zc = zero[0]
            vals = conjuncts(zc) or []
            classness = set()
            for v in vals:
                if isinstance(v, ast.Attribute) and v.attr in ("firstIsClass", "secondIsClass"):
                    classness.add(v.attr)
                elif isinstance(v, ast.Name):
                    for d in prog.reaching(f, v.id, v):
                        e, how = d.element()
                        if how is None and isinstance(e, ast.Compare) and isinstance(e.ops[0], ast.In):
                            classness.add(T(e.comparators[0]))
            ok = len(classness) == 2 and len(vals) == 3
            chk.ob("R05.5", f"{f.short}|zero value dropped only for class-class pairs", ok, where(f, st), detail="firstIsClass and secondIsClass and value == 0",
                   message=f"{f.short} drops a zero-valued pair although one side is a glyph: a zero exception no longer overrides the class kerning it excepts")
    need(n == 4, f"expected the zero-value drop in 4 extraction functions, found {n}")
    chk.minimum("R05.5", 4)


# ----------------------------------------------------------------------------- R05.6
def r056(prog, chk):
    ix = prog.ix
    ms = ix.get_method(f"{KERN1}.KernFeatureWriter", "_makeSplitScriptKernLookups")
    f2 = ix.get_func(f"{KERN2}:make_split_kerning_lookups")
    for f, rule_name, rtl_tok, l_tok in ((ms, "_makePairPosRule", "'RTL'", "'L'"), (f2, "make_pairpos_rule", "Direction.RightToLeft", "Direction.LeftToRight")):
        for c in [c for c in A.body_nodes(f.node) if isinstance(c, ast.Call) and A.callee_name(c) == rule_name]:
            a = A.arg_at(c, 3, "rtl")
            v = a
            if isinstance(v, ast.Name):
                ds = prog.reaching(f, v.id, v)
                v = ds[0].element()[0] if len(ds) == 1 else None
            ok = isinstance(v, ast.BoolOp) and isinstance(v.op, ast.And) and len(v.values) == 2
            if ok:
                parts = list(v.values)
                notl = [p for p in parts if isinstance(p, ast.Compare) and isinstance(p.ops[0], ast.NotIn) and T(p.left) == l_tok and "bidi" in T(p.comparators[0]).lower()]
                rest = [p for p in parts if p not in notl]
                ok = len(notl) == 1 and len(rest) == 1
                if ok:
                    r = rest[0]
                    if isinstance(r, ast.Name):
                        ds = prog.reaching(f, r.id, r)
                        r = ds[0].element()[0] if len(ds) == 1 else None
                    ok = isinstance(r, ast.Compare) and isinstance(r.ops[0], ast.Eq) and rtl_tok in T(r)
            chk.ob("R05.6", f"{f.short}|rtl = direction is RTL and no L bidi type", ok, where(f, c), detail=T(v, 90) if v is not None else "",
                   message=f"{f.short}: the right-to-left flag of a kerning rule is no longer 'RTL script and no left-to-right (number) glyph in the pair'")
            # ambiguous pairs never reach the rule
            cfg = prog.cfg(f)
            def is_amb(t):
                return isinstance(t, ast.Call) and isinstance(t.func, ast.Attribute) and t.func.attr == "issuperset" and len(t.args) == 1 and T(t.args[0]) == "AMBIGUOUS_BIDIS"
            amb = [s_ for s_ in A.stmts_of(f.node) if isinstance(s_, (ast.Continue, ast.Assert, ast.Raise)) and isinstance(ix.parent(s_), ast.If) and is_amb(ix.parent(s_).test)
                   and s_ in ix.parent(s_).body]
            amb = [s_ for s_ in amb if isinstance(s_, (ast.Continue, ast.Raise)) or (isinstance(s_, ast.Assert) and A.is_const(s_.test, None))]
            # the skip statement precedes the rule in the same loop body
            ok2 = bool(amb) and all(cfg.exists_path(cfg.node_of(ix.parent(s_)), [cfg.node_of(c)]) for s_ in amb) \
                and not any(g.polarity is True and is_amb(g.test) for g in conds(prog, f, c))
            fs = facts(prog, f, c)
            chk.ob("R05.6", f"{f.short}|pairs with both R and L bidi types never reach a rule", ok2, where(f, c), detail="continue / assert under bidiTypes.issuperset(AMBIGUOUS_BIDIS)",
                   message=f"{f.short}: a pair whose glyphs carry opposite strong bidi types can reach a kerning rule")
    # the ambiguity constant
    for mod in (KERN1, KERN2):
        mi = ix.get_module(mod)
        e = mi.constants.get("AMBIGUOUS_BIDIS")
        if e is None and "AMBIGUOUS_BIDIS" in mi.imports:
            continue
        need(e is not None, f"AMBIGUOUS_BIDIS not found in {mod}")
        elts = {T(x) for x in getattr(e, "elts", [])}
        ok = elts in ({"'R'", "'L'"}, {"Direction.LeftToRight", "Direction.RightToLeft"})
        chk.ob("R05.6", f"{mod.rsplit('.', 1)[-1]}|AMBIGUOUS_BIDIS = {{R, L}}", ok, f"Lib/{mod.replace('.', '/')}.py", detail=str(sorted(elts)), message="AMBIGUOUS_BIDIS is not the pair of strong directions")
    # v2 drops clashing directions / bidi classes in the splitter
    pd = ix.get_func(f"{KERN2}:partition_by_direction")
    conts = [s for s in A.stmts_of(pd.node) if isinstance(s, ast.Continue)]
    chk.ob("R05.6", f"{pd.short}|clashing direction and clashing bidi parts are skipped", len(conts) >= 2 and all(any(o == "ne" for o, l, r in facts(prog, pd, s)) for s in conts),
           where(pd), detail=f"{len(conts)} skip statements under != tests", message="partition_by_direction no longer skips parts with clashing direction or bidi class")
    pb = ix.get_func(f"{KERN1}:partitionByScript")
    conts = [s for s in A.stmts_of(pb.node) if isinstance(s, ast.Continue)]
    chk.ob("R05.6", f"{pb.short}|mixed-direction parts are skipped", len(conts) >= 1 and all(any(o == "ne" for o, l, r in facts(prog, pb, s)) for s in conts),
           where(pb), detail=f"{len(conts)} skip statement(s)", message="partitionByScript no longer skips parts with mixed direction")
    chk.minimum("R05.6", 7)


# ----------------------------------------------------------------------------- R05.7
def _skip_conditions(prog, f: FuncInfo) -> Set[str]:
    out = set()
    loc = sorted(A.local_names(f.node))
    for st in A.stmts_of(f.node):
        if isinstance(st, ast.Continue):
            par = prog.ix.parent(st)
            if isinstance(par, ast.If):
                out.add(A.keytext(f.node, par.test))
    return out


def r057(prog, chk):
    ix = prog.ix
    pairs = [(ix.get_method(f"{KERN1}.KernFeatureWriter", "getKerningPairs"), ix.get_func(f"{KERN2}:get_kerning_pairs")),
             (ix.get_method(f"{KERN1}.KernFeatureWriter", "getVariableKerningPairs"), ix.get_func(f"{KERN2}:get_variable_kerning_pairs"))]
    for a, b in pairs:
        for f in (a, b):
            tests = []
            for st in A.stmts_of(f.node):
                if isinstance(st, ast.Continue) and isinstance(ix.parent(st), ast.If):
                    # the guard as the rules see it (negations normalised: `not (A or b in gs)` reads `not A and b not in gs`)
                    tests += [conjuncts(g) for g in conds(prog, f, st) if (g.raw if g.raw is not None else g.test) is ix.parent(st).test]
            miss1 = [t for t in tests if t and len(t) >= 2 and any(isinstance(x, ast.Compare) and isinstance(x.ops[0], ast.NotIn) and "glyphSet" in T(x.comparators[0]) for x in t)]
            ok = len(miss1) == 2
            sides = set()
            for t in miss1:
                for x in t:
                    if isinstance(x, ast.Compare):
                        nm = T(x.left)
                        ds = prog.reaching(f, nm, x.left) if isinstance(x.left, ast.Name) else []
                        for d in ds:
                            if d.target is not None:
                                tn = A.target_names(d.target)
                                if nm in tn:
                                    sides.add(tn.index(nm))
            chk.ob("R05.7", f"{f.short}|pairs naming glyphs outside the glyph set are skipped (both sides)", ok and sides == {0, 1}, where(f),
                   detail="if not firstIsClass and side1 not in glyphSet: continue (and side 2)",
                   message=f"{f.short} no longer skips kerning pairs that name glyphs missing from the exported glyph set on both sides")
        sa, sb = _shape_conditions(prog, a), _shape_conditions(prog, b)
        chk.ob("R05.7", f"{a.short} ~ {b.short}|sibling writers skip the same pairs", sa == sb, where(b), detail=f"{len(sa)} skip conditions agree",
               message=f"the two kern writers disagree on which pairs they skip: only v1 {sorted(sa - sb)}; only v2 {sorted(sb - sa)}")
    # base/mark split siblings
    a = ix.get_method(f"{KERN1}.KernFeatureWriter", "_splitBaseAndMarkPairs")
    b = ix.get_func(f"{KERN2}:split_base_and_mark_pairs")
    for f in (a, b):
        combos = []
        for c in [c for c in A.body_nodes(f.node) if isinstance(c, ast.Call) and A.callee_name(c) == "KerningPair"]:
            app = ix.parent(c)
            lst = T(app.func.value) if isinstance(app, ast.Call) and isinstance(app.func, ast.Attribute) and app.func.attr == "append" else "?"
            iff = [a_ for a_ in ix.ancestors(c) if isinstance(a_, ast.If)]
            guard = T(iff[0].test) if iff else ""
            combos.append((_role(prog, f, c.args[0]), _role(prog, f, c.args[1]), _listrole(prog, f, app), guard))
        want = {("1B", "2B", "base"), ("1B", "2M", "mark"), ("1M", "2B", "mark"), ("1M", "2M", "mark")}
        got = {(x, y, z) for x, y, z, g in combos}
        okg = all(isinstance(ix.parent(ix.parent(c)), ast.Expr) for c in [])  # placeholder
        chk.ob("R05.7", f"{f.short}|base-base -> base list; the three mark combinations -> mark list, each once", got == want and len(combos) == 4, where(f), detail=str(sorted(got)),
               message=f"{f.short}: the base/mark split no longer keeps each of the four side combinations exactly once (got {sorted(got)}): pairs are lost or duplicated")
        for c in [c for c in A.body_nodes(f.node) if isinstance(c, ast.Call) and A.callee_name(c) == "KerningPair"]:
            fs_ = facts(prog, f, c)
            ok = all(any(o == "truthy" and l == T(a_) for o, l, r in fs_) for a_ in c.args[:2])
            chk.ob("R05.7", f"{f.short}|{A.keytext(f.node, c)}|guarded by both of its sides being non-empty", ok, where(f, c), detail=str(sorted(x for x in fs_ if x[0] == "truthy")),
                   message=f"{f.short}: a split pair is created although one of its sides may be empty / under the wrong guard")
    chk.minimum("R05.7", 14)


def _shape_conditions(prog, f: FuncInfo) -> Set[str]:
    """Skip conditions, locals normalised to $n in order of appearance (the same in both siblings)."""
    out = set()
    for st in A.stmts_of(f.node):
        if isinstance(st, ast.Continue) and isinstance(prog.ix.parent(st), ast.If):
            par = prog.ix.parent(st).test
            norm = [g for g in conds(prog, f, st) if (g.raw if g.raw is not None else g.test) is par]
            if norm and conjuncts(norm[0]) is not None:
                out.add(" and ".join(sorted(A.keytext(f.node, x) for x in conjuncts(norm[0]))))
            elif norm:
                out.add(("" if norm[0].polarity else "not ") + A.keytext(f.node, norm[0].test))
            else:
                out.add(A.keytext(f.node, par))
    return out


def _role(prog, f: FuncInfo, e: ast.AST) -> str:
    """side1Bases -> 1B etc., from the defining expressions: built from pair.side1 / pair.side2 with `not in marks` / `in marks`."""
    if not isinstance(e, ast.Name):
        return "?"
    side = set()
    kind = set()
    for d in prog.reaching(f, e.id, e):
        v = d.element()[0]
        if v is None or A.is_const(v, None):
            continue
        txt = T(v, 200)
        if ".side1" in txt:
            side.add("1")
        if ".side2" in txt:
            side.add("2")
        if isinstance(v, ast.Call):  # tuple(g for g in pair.sideN if g [not] in marks)
            for x in ast.walk(v):
                if isinstance(x, ast.Compare):
                    kind.add("B" if isinstance(x.ops[0], ast.NotIn) else "M")
        else:
            fs = facts(prog, f, d.binder)
            for o, l, r in fs:
                if o in ("in", "notin") and ".side" in l:
                    kind.add("M" if o == "in" else "B")
    if len(side) == 1 and len(kind) == 1:
        return side.pop() + kind.pop()
    return "?"


def _listrole(prog, f: FuncInfo, app: ast.AST) -> str:
    if not (isinstance(app, ast.Call) and isinstance(app.func, ast.Attribute) and app.func.attr == "append" and isinstance(app.func.value, ast.Name)):
        return "?"
    nm = app.func.value.id
    rets = [r for r in A.returns_of(f.node) if isinstance(r.value, ast.Tuple) and len(r.value.elts) == 2 and all(isinstance(x, ast.Name) for x in r.value.elts)]
    for r in rets:
        if r.value.elts[0].id == nm:
            return "base"
        if r.value.elts[1].id == nm:
            return "mark"
    return "?"


# ----------------------------------------------------------------------------- R05.8
def r058(prog, chk):
    ix = prog.ix
    for q, part in ((f"{KERN1}:splitKerning", "partitionByScript"), (f"{KERN2}:split_kerning", "partition_by_direction")):
        f = ix.get_func(q)
        loops = [n for n in A.body_nodes(f.node) if isinstance(n, ast.For) and isinstance(n.iter, ast.Call) and A.callee_name(n.iter) == part]
        need(len(loops) == 1, f"cannot interpret {f.short}: loop over {part}")
        lp = loops[0]
        apps = [c for c in A.calls_in(lp) if isinstance(c.func, ast.Attribute) and c.func.attr in ("append", "extend", "insert")]
        tn = A.target_names(lp.target)
        ok = len(apps) == 1 and apps[0].func.attr == "append" and isinstance(apps[0].args[0], ast.Name) and apps[0].args[0].id == tn[-1] \
            and isinstance(apps[0].func.value, ast.Call) and A.callee_name(apps[0].func.value) == "setdefault"
        chk.ob("R05.8", f"{f.short}|each part is stored once, in the bucket of its own key", ok, where(f, lp), detail=T(apps[0], 80) if apps else "",
               message=f"{f.short}: a split pair is not appended exactly once to the bucket of its key")
        a0 = A.arg_at(lp.iter, 0, "pair")
        outer = [a for a in ix.ancestors(lp) if isinstance(a, ast.For)]
        ok = isinstance(a0, ast.Name) and outer and a0.id in A.target_names(outer[0].target)
        ps = f.params()
        okp = outer and isinstance(outer[0].iter, ast.Name) and outer[0].iter.id in ps
        chk.ob("R05.8", f"{f.short}|every pair is partitioned", ok and okp, where(f, lp), detail="for pair in pairs: for ... in partition(pair)",
               message=f"{f.short}: not every incoming pair is partitioned")
    ms = ix.get_func(f"{KERN1}:mergeScripts")
    ext = [c for c in calls_named(ms, "extend")]
    need(len(ext) == 1, "cannot interpret mergeScripts")
    st = ix.enclosing_stmt(ext[0])
    par = ix.parent(st)
    ok = isinstance(par, ast.If) and any(isinstance(s, ast.Break) for s in par.body) and par.body.index(st) < [i for i, s in enumerate(par.body) if isinstance(s, ast.Break)][0]
    loop = [a for a in ix.ancestors(st) if isinstance(a, ast.For)][0]
    ok2 = bool(loop.orelse) and any(isinstance(s, ast.Raise) for s in loop.orelse)
    chk.ob("R05.8", f"{ms.short}|a bucket's pairs go to exactly one merged bucket (break after the first match; no match raises)", ok and ok2, where(ms, ext[0]),
           detail="result[...].extend(pairs); break / else: raise", message="mergeScripts can copy a bucket's pairs into several merged buckets (pair applied twice) or drop them silently")
    # mergeScripts computes the closure: the merging pass is repeated until a pass merges nothing
    unions = [n for n in A.body_nodes(ms.node) if isinstance(n, ast.AugAssign) and isinstance(n.op, ast.BitOr)]
    unions = [u for u in unions if any(isinstance(x, ast.Call) and A.callee_name(x) == "isdisjoint" for g in conds(prog, ms, u) for x in ast.walk(g.test))]
    need(len(unions) == 1, "cannot interpret mergeScripts: union of overlapping buckets")
    u = unions[0]
    whiles = [a for a in ix.ancestors(u) if isinstance(a, ast.While)]
    fix = None
    for w in whiles:
        if not isinstance(w.test, ast.Name):
            continue
        flag = w.test.id
        sets_true = [s_ for s_ in ast.walk(w) if isinstance(s_, ast.Assign) and isinstance(s_.targets[0], ast.Name) and s_.targets[0].id == flag and A.is_const(s_.value, True)]
        sets_false = [s_ for s_ in w.body if isinstance(s_, ast.Assign) and isinstance(s_.targets[0], ast.Name) and s_.targets[0].id == flag and A.is_const(s_.value, False)]
        same_branch = any(ix.parent(s_) is ix.parent(u) or s_ in getattr(ix.parent(u), "orelse", []) or s_ in getattr(ix.parent(u), "body", []) for s_ in sets_true)
        if sets_true and sets_false and same_branch:
            fix = w
    chk.ob("R05.8", f"{ms.short}|merging is repeated until a pass merges nothing (closure)", fix is not None, where(ms, u), detail="while merged: merged = False; ...; common |= scripts; merged = True",
           message="mergeScripts merges overlapping buckets in a single pass: a bucket skipped before its partner grew is never revisited, overlapping buckets survive "
                   "and a script's pairs end up in a lookup that is not registered for it")
    # yield sites of the partitioners: one yield per direction combination
    for q in (f"{KERN1}:partitionByScript", f"{KERN2}:partition_by_direction"):
        f = ix.get_func(q)
        ys = [n for n in A.body_nodes(f.node) if isinstance(n, ast.Yield)]
        prods = [n for n in A.body_nodes(f.node) if isinstance(n, ast.For) and isinstance(n.iter, ast.Call) and A.callee_name(n.iter) == "product"]
        ok = len(ys) == 1 and len(prods) == 1 and any(a is prods[0] for a in ix.ancestors(ys[0])) and ix.parent(ix.parent(ys[0])) is prods[0]
        chk.ob("R05.8", f"{f.short}|one part per (side-1 direction, side-2 direction) combination", ok, where(f), detail="single yield at the end of the product loop",
               message=f"{f.short}: a direction combination can yield more than one part (or none)")
    chk.minimum("R05.8", 7)



# ----------------------------------------------------------------------------- R05.10
def r0510(prog, chk):
    """Every kerning class is defined under the unique name makeFeaClassName computed for it: the name goes from there to
    the GlyphClassDefinition unchanged (the uniqueness check, the registry of taken names and the class table are all
    keyed by that name; a name edited afterwards can coincide with another class, and feaLib lets the later definition win)."""
    ix = prog.ix
    mk = ix.get_func("ufo2ft.featureWriters.ast:makeGlyphClassDefinition")
    defs = [c for c in A.body_nodes(mk.node) if isinstance(c, ast.Call) and A.callee_name(c) == "GlyphClassDefinition"]
    need(len(defs) == 1 and defs[0].args, f"cannot interpret {mk.short}")
    a0 = defs[0].args[0]
    p0 = mk.params()[0]
    ok = isinstance(a0, ast.Name) and a0.id == p0 and all(d.kind == "param" for d in prog.reaching(mk, a0.id, a0))
    chk.ob("R05.10", f"{mk.short}|the class is defined under the name it was given, unchanged", ok, where(mk, defs[0]), detail=T(defs[0], 70),
           message=f"{mk.short}: the class name is modified between the uniqueness check and the definition (`{T(a0, 40)}` is not the unmodified parameter): two classes can end up "
                   f"under one name and the later definition silently replaces the earlier one")
    n = 0
    for fi in ix.functions.values():
        if not fi.module.name.startswith("ufo2ft.featureWriters") or fi is mk:
            continue
        for c in calls_named(fi, "makeGlyphClassDefinition"):
            n += 1
            nm = c.args[0] if c.args else None
            okn, bad = every_origin(prog, fi, nm, lambda e, f_: isinstance(e, ast.Call) and A.callee_name(e) == "makeFeaClassName", allow_const=False) if nm is not None else (False, [])
            chk.ob("R05.10", f"{fi.short}|{A.keytext(fi.node, c)}|defined under the name makeFeaClassName returned", okn, where(fi, c), detail=T(c, 70),
                   message=f"{fi.short}: a glyph class is defined under a name that is not (only) the result of makeFeaClassName ({[str(b)[:40] for b in bad][:2]})")
    need(n >= 2, "makeGlyphClassDefinition call sites not found")
    chk.minimum("R05.10", 3)



# ----------------------------------------------------------------------------- R05.11
def r0511(prog, chk):
    """Script-neutral glyphs (Common AND Inherited) take part in the kerning of whatever script they stand next to: wherever
    the kern writer folds a glyph's scripts into `Common`, the test is an intersection with DFLT_SCRIPTS = {Zyyy, Zinh}
    (an Inherited-only glyph that keeps `Zinh` gets the direction of an unknown script - LTR - and its pairs with
    right-to-left letters are dropped as mixed-direction)."""
    ix = prog.ix
    um = ix.get_module("ufo2ft.util")
    dv = um.constants.get("DFLT_SCRIPTS")
    okc = isinstance(dv, ast.Set) and {getattr(e, "value", None) for e in dv.elts} == {"Zyyy", "Zinh"}
    chk.ob("R05.11", "DFLT_SCRIPTS = {Zyyy, Zinh}", okc, um.relpath, detail=T(dv) if dv is not None else "", message="DFLT_SCRIPTS is no longer the set of both script-neutral values (Common, Inherited)")
    n = 0
    for fi in ix.functions.values():
        if fi.module.name != KERN1:
            continue
        for st in A.stmts_of(fi.node):
            if isinstance(st, ast.Assign) and isinstance(st.value, ast.Name) and st.value.id == "COMMON_SCRIPTS_SET" and isinstance(st.targets[0], ast.Name):
                n += 1
                v = st.targets[0].id
                fs = facts(prog, fi, st)
                ok = any(o == "truthy" and "DFLT_SCRIPTS" in l and v in l and "&" in l for o, l, r in fs)
                chk.ob("R05.11", f"{fi.short}|{A.keytext(fi.node, st)}|folded into Common exactly when the glyph has a neutral script (Zyyy or Zinh)", ok, where(fi, st), detail=str(sorted(x[1] for x in fs if x[0] == "truthy")),
                       message=f"{fi.short}: scripts are folded into Common under another test than `{v} & DFLT_SCRIPTS`: Inherited-only glyphs (combining marks, variation selectors, "
                               f"ZWJ) are no longer script-neutral and lose their kerning against right-to-left letters")
    need(n >= 1, "no folding of neutral scripts found in the kern writer")
    chk.minimum("R05.11", 2)


# ----------------------------------------------------------------------------- R05.12
PAIR_COLLECTORS = ("getKerningPairs", "getVariableKerningPairs", "get_kerning_pairs", "get_variable_kerning_pairs")


def r0512(prog, chk):
    ix = prog.ix
    sites = []
    g1 = ix.get_method(f"{KERN1}.KernFeatureWriter", "getKerningData", own=True)
    for c in A.body_nodes(g1.node):
        if isinstance(c, ast.Call) and A.callee_name(c) == "SimpleNamespace":
            v = A.kwarg(c, "pairs")
            if v is not None:
                sites.append((g1, c, v, "pairs= of the kerning data"))
    g2 = ix.get_func(f"{KERN2}:extract_kerning_data")
    for c in A.body_nodes(g2.node):
        if isinstance(c, ast.Call) and A.callee_name(c) == "split_base_and_mark_pairs" and c.args:
            sites.append((g2, c, c.args[0], "pairs split into base / mark"))
    for s_ in A.stmts_of(g2.node):
        if isinstance(s_, ast.Assign) and len(s_.targets) == 1 and isinstance(s_.targets[0], ast.Name) and isinstance(s_.value, ast.Name) \
                and any(isinstance(c, ast.Call) and A.callee_name(c) == "split_kerning" and any(isinstance(a, ast.Name) and a.id == s_.targets[0].id for a in c.args) for c in A.body_nodes(g2.node)):
            sites.append((g2, s_, s_.value, "pairs used unsplit (no mark filtering)"))
    need(len(sites) >= 3, f"R05.12: hand-over sites of the collected pairs: {len(sites)}")

    def collected(x, ff):
        while isinstance(x, ast.Call) and isinstance(x.func, ast.Name) and x.func.id in ("sorted", "list", "tuple") and len(x.args) >= 1:
            x = x.args[0]  # order / container only
            if isinstance(x, ast.Name):
                okx, _ = every_origin(prog, ff, x, collected, allow_const=False)
                return okx
        return isinstance(x, ast.Call) and A.callee_name(x) in PAIR_COLLECTORS
    for f, node, v, what in sites:
        ok, bad = every_origin(prog, f, v, collected, allow_const=False)
        chk.ob("R05.12", f"{f.short}|{what}: the collected pair list, unfiltered", ok, where(f, node), detail=T(v, 60),
               message=f"{f.short}: the kerning pairs pass through {bad} between collection and lookup building: pairs are dropped or rewritten after the UFO "
                       f"precedence was already flattened into the list (a glyph-level exception that equals the class value still overrides a glyph-to-class exception; "
                       f"without it the pair gets the wrong value)")
    chk.minimum("R05.12", 3)


# ----------------------------------------------------------------------------- R05.14
def check_no_partial_key_memo(prog, chk, rule, modules=("ufo2ft.featureWriters",)):
    """Memo pattern `k = xs[0]; if k in D: return D[k]; D[k] = f(xs)`: correct only if xs[0] determines xs."""
    n, hits = 0, 0
    for fi in prog.ix.functions.values():
        if isinstance(fi.node, ast.Lambda) or not any(fi.module.name.startswith(m_) for m_ in modules):
            continue
        n += 1
        stores = [(s_, t, v) for s_, t, v in subscript_stores(fi) if isinstance(t.value, ast.Name)]
        for s_, t, v in stores:
            d = t.value.id
            key = t.slice

            def partial(k, depth=0):
                """k is one element of a collection: xs[0], next(iter(xs)), or a local bound to such"""
                if isinstance(k, ast.Subscript) and isinstance(k.slice, ast.Constant) and isinstance(k.slice.value, int):
                    return k.value
                if isinstance(k, ast.Call) and A.callee_name(k) == "next" and k.args and isinstance(k.args[0], ast.Call) and A.callee_name(k.args[0]) == "iter" and k.args[0].args:
                    return k.args[0].args[0]
                if isinstance(k, ast.Name) and depth < 2:
                    ds = prog.reaching(fi, k.id, k)
                    if len(ds) == 1 and ds[0].kind == "assign" and ds[0].value is not None and ds[0].element()[1] is None:
                        return partial(ds[0].value, depth + 1)
                return None
            coll = partial(key)
            if coll is None:
                continue
            # the stored value is computed from the whole collection, and the same dictionary is read under the same key
            uses_coll = any(T(x) == T(coll) for x in ast.walk(v))
            reads = [x for x in A.body_nodes(fi.node) if (isinstance(x, ast.Subscript) and isinstance(x.ctx, ast.Load) and isinstance(x.value, ast.Name) and x.value.id == d and T(x.slice) == T(key))
                     or (isinstance(x, ast.Call) and isinstance(x.func, ast.Attribute) and x.func.attr == "get" and isinstance(x.func.value, ast.Name) and x.func.value.id == d and x.args and T(x.args[0]) == T(key))]
            if uses_coll and reads:
                hits += 1
                chk.ob(rule, f"{fi.short}|{A.keytext(fi.node, s_)}|memo keyed by one element of the collection it summarises", False, where(fi, s_), detail=f"key {T(key)} of {T(coll)}",
                       message=f"{fi.short} remembers a result computed from all of `{T(coll)}` under the key `{T(key)}` (one element of it) and answers later calls from that entry: two "
                               f"different collections that share that element (a first-side and a second-side kerning class with the same first glyph) get each other's result")
    chk.ob(rule, "no memo keyed by a single element of the collection it summarises", hits == 0, "", detail=f"{n} functions examined", nontrivial=False)
    need(n >= 60, f"{rule}: functions examined: {n}")
    chk.minimum(rule, 1)


MUTANTS = [
    M("neutral glyphs no longer closed over GSUB on their own: their alternates land in both bidi classes (seeded C05o)", "ufo2ft/util.py", "classifyGlyphs",
      "if neutralGlyphs:\n    closeGlyphsOverGSUB(gsub, neutralGlyphs)", "pass", rule="R05.15"),
    M("class split cached under the class's first glyph, one cache for both sides (seeded C05n)", "ufo2ft/featureWriters/kernFeatureWriter.py", "", "<append-module>",
      "_SPLITS = {}\ndef splitClassByMarks(glyphs, marks, cache=_SPLITS):\n    key = glyphs[0]\n    if key in cache:\n        return cache[key]\n    cache[key] = (tuple(g for g in glyphs if g not in marks), tuple(g for g in glyphs if g in marks))\n    return cache[key]\n", rule="R05.14"),
    M("mark set of the kern writer memoised with cached_property (seeded C05m)", "ufo2ft/featureWriters/kernFeatureWriter.py", "KernFeatureWriter.getKerningData",
      "<decorate>", "functools.cached_property", rule="R05.13"),
    M("'redundant' exceptions dropped after collection (seeded C05j)", "ufo2ft/featureWriters/kernFeatureWriter.py", "KernFeatureWriter.getKerningData",
      "pairs = self.getKerningPairs(side1Groups, side2Groups)", "pairs = self.getKerningPairs(side1Groups, side2Groups)\npairs = [p for p in pairs if p.value != 0 or not (p.firstIsClass and p.secondIsClass)] if not self.context.isVariable else pairs", rule="R05.12"),
    M("collected pairs sorted before they are handed on", "ufo2ft/featureWriters/kernFeatureWriter.py", "KernFeatureWriter.getKerningData",
      "pairs = self.getKerningPairs(side1Groups, side2Groups)", "pairs = sorted(self.getKerningPairs(side1Groups, side2Groups))", kind="equiv"),
    M("Inherited-only glyphs are not folded into Common (seeded C05h)", "ufo2ft/featureWriters/kernFeatureWriter.py", "partitionByScript",
      "scripts & DFLT_SCRIPTS", "scripts & COMMON_SCRIPTS_SET", rule="R05.11", count=2),
    M("class names truncated after the uniqueness check (seeded C05g)", "ufo2ft/featureWriters/ast.py", "makeGlyphClassDefinition",
      "classDef = ast.GlyphClassDefinition(className, glyphClass)", "className = className[:63]\nclassDef = ast.GlyphClassDefinition(className, glyphClass)", rule="R05.10"),
    M("every zero-valued pair dropped by a truthiness test", "ufo2ft/featureWriters/kernFeatureWriter.py", "KernFeatureWriter.getKerningPairs",
      "firstIsClass and secondIsClass and value == 0", "not value", rule="R05.5"),
    M("bucket merging done in a single pass (seeded C05a)", "ufo2ft/featureWriters/kernFeatureWriter.py", "mergeScripts",
      "merged = True\ncommon |= scripts", "common |= scripts", rule="R05.8"),
    M("ordering key compares side names before class-ness", "ufo2ft/featureWriters/kernFeatureWriter.py", "KerningPair.__lt__",
      "selfTuple = (self.firstIsClass, self.secondIsClass, self.side1, self.side2)", "selfTuple = (self.side1, self.side2, self.firstIsClass, self.secondIsClass)", rule="R05.1"),
    M("ordering key swaps first/second class flag on one operand", "ufo2ft/featureWriters/kernFeatureWriter.py", "KerningPair.__lt__",
      "otherTuple = (other.firstIsClass, other.secondIsClass, other.side1, other.side2)", "otherTuple = (other.secondIsClass, other.firstIsClass, other.side1, other.side2)", rule="R05.1"),
    M("class-ness tested on list", "ufo2ft/featureWriters/kernFeatureWriter.py", "KerningPair.firstIsClass",
      "isinstance(self.side1, tuple)", "isinstance(self.side1, list)", rule="R05.1"),
    M("v1 buckets sorted in reverse", "ufo2ft/featureWriters/kernFeatureWriter.py", "splitKerning", "pairs.sort()", "pairs.sort(reverse=True)", rule="R05.2"),
    M("v2 buckets not sorted", "ufo2ft/featureWriters/kernFeatureWriter2.py", "split_kerning", "pairs.sort()", "pass", rule="R05.2"),
    M("v2 mark pairs bypass the splitter", "ufo2ft/featureWriters/kernFeatureWriter2.py", "extract_kerning_data",
      "mark_pairs_by_direction = split_kerning(context, mark_pairs)", "mark_pairs_by_direction = {Direction.LeftToRight: mark_pairs} if mark_pairs else {}", rule="R05.2"),
    M("rules inserted at the front", "ufo2ft/featureWriters/kernFeatureWriter.py", "KernFeatureWriter._makeSplitScriptKernLookups",
      "lookup.statements.append(rule)", "lookup.statements.insert(0, rule)", rule="R05.2"),
    M("xAdvance only for LTR", "ufo2ft/featureWriters/kernFeatureWriter.py", "KernFeatureWriter._makePairPosRule",
      'ast.ValueRecord(xPlacement=pair.value if rtl else None, yPlacement=0 if rtl else None, xAdvance=pair.value, yAdvance=0 if rtl else None)', 'ast.ValueRecord(xPlacement=pair.value if rtl else None, yPlacement=0 if rtl else None, xAdvance=None if rtl else pair.value, yAdvance=0 if rtl else None)', rule="R05.3"),
    M("xPlacement for every pair", "ufo2ft/featureWriters/kernFeatureWriter2.py", "make_pairpos_rule",
      'fea_ast.ValueRecord(xPlacement=pair.value if rtl else None, yPlacement=0 if rtl else None, xAdvance=pair.value, yAdvance=0 if rtl else None)', 'fea_ast.ValueRecord(xPlacement=pair.value, yPlacement=0 if rtl else None, xAdvance=pair.value, yAdvance=0 if rtl else None)', rule="R05.3"),
    M("rtl condition inverted for placement", "ufo2ft/featureWriters/kernFeatureWriter.py", "KernFeatureWriter._makePairPosRule",
      'ast.ValueRecord(xPlacement=pair.value if rtl else None, yPlacement=0 if rtl else None, xAdvance=pair.value, yAdvance=0 if rtl else None)', 'ast.ValueRecord(xPlacement=None if rtl else pair.value, yPlacement=0 if rtl else None, xAdvance=pair.value, yAdvance=0 if rtl else None)', rule="R05.3"),
    M("enumerate class-class too", "ufo2ft/featureWriters/kernFeatureWriter.py", "KernFeatureWriter._makePairPosRule",
      "pair.firstIsClass ^ pair.secondIsClass", "pair.firstIsClass or pair.secondIsClass", rule="R05.3"),
    M("glyphs2 built from side1", "ufo2ft/featureWriters/kernFeatureWriter2.py", "make_pairpos_rule",
      "glyphs2 = fea_ast.GlyphName(pair.side2)", "glyphs2 = fea_ast.GlyphName(pair.side1)", rule="R05.3"),
    M("value record on the second glyph as well", "ufo2ft/featureWriters/kernFeatureWriter.py", "KernFeatureWriter._makePairPosRule",
      'ast.PairPosStatement(glyphs1=glyphs1, valuerecord1=valuerecord, glyphs2=glyphs2, valuerecord2=None, enumerated=enumerated)', 'ast.PairPosStatement(glyphs1=glyphs1, valuerecord1=valuerecord, glyphs2=glyphs2, valuerecord2=valuerecord, enumerated=enumerated)', rule="R05.3"),
    M("static pairs not quantised", "ufo2ft/featureWriters/kernFeatureWriter.py", "KernFeatureWriter.getKerningPairs",
      "value = quantize(value, quantization)", "pass", rule="R05.4"),
    M("v2 quantises with a constant", "ufo2ft/featureWriters/kernFeatureWriter2.py", "get_kerning_pairs",
      "value = quantize(value, quantization)", "value = quantize(value, 1)", rule="R05.4"),
    M("variable value read directly from the master (no precedence resolution)", "ufo2ft/featureWriters/kernFeatureWriter2.py", "get_variable_kerning_pairs",
      "lookupKerningValue(pair, kerning, unified_groups, glyphToFirstGroup=glyphToFirstGroup, glyphToSecondGroup=glyphToSecondGroup)", "kerning.get(pair, 0)", rule="R05.4"),
    M("quantize truncates", "ufo2ft/util.py", "quantize", "factor * otRound(number / factor)", "factor * int(number / factor)", rule="R05.4"),
    M("quantize multiplies instead of dividing", "ufo2ft/util.py", "quantize", "factor * otRound(number / factor)", "factor * otRound(number * factor)", rule="R05.4"),
    M("mark split halves the value", "ufo2ft/featureWriters/kernFeatureWriter.py", "KernFeatureWriter._splitBaseAndMarkPairs",
      "markPairs.append(KerningPair(side1Marks, side2Marks, value=pair.value))", "markPairs.append(KerningPair(side1Marks, side2Marks, value=pair.value / 2))", rule="R05.4"),
    M("zero glyph exceptions dropped", "ufo2ft/featureWriters/kernFeatureWriter.py", "KernFeatureWriter.getKerningPairs",
      "firstIsClass and secondIsClass and value == 0", "(firstIsClass or secondIsClass) and value == 0", rule="R05.5"),
    M("v2 drops every zero pair", "ufo2ft/featureWriters/kernFeatureWriter2.py", "get_kerning_pairs",
      "firstIsClass and secondIsClass and value == 0", "value == 0", rule="R05.5"),
    M("numbers in RTL scripts treated as RTL", "ufo2ft/featureWriters/kernFeatureWriter.py", "KernFeatureWriter._makeSplitScriptKernLookups",
      "pairIsRtl = scriptIsRtl and 'L' not in bidiTypes", "pairIsRtl = scriptIsRtl", rule="R05.6"),
    M("v2 rtl flag from LTR direction", "ufo2ft/featureWriters/kernFeatureWriter2.py", "make_split_kerning_lookups",
      "direction == Direction.RightToLeft and Direction.LeftToRight not in bidiTypes", "direction == Direction.LeftToRight and Direction.LeftToRight not in bidiTypes", rule="R05.6"),
    M("ambiguous pairs kept", "ufo2ft/featureWriters/kernFeatureWriter.py", "KernFeatureWriter._makeSplitScriptKernLookups",
      "bidiTypes.issuperset(AMBIGUOUS_BIDIS)", "False and bidiTypes.issuperset(AMBIGUOUS_BIDIS)", rule="R05.6"),
    M("v2 keeps pairs naming missing second glyphs", "ufo2ft/featureWriters/kernFeatureWriter2.py", "get_kerning_pairs",
      "if not secondIsClass and side2 not in glyphSet:\n    continue", "pass", rule="R05.7"),
    M("mark-to-base pairs lost", "ufo2ft/featureWriters/kernFeatureWriter2.py", "split_base_and_mark_pairs",
      "if side1Marks and side2Bases:\n    markPairs.append(KerningPair(side1Marks, side2Bases, value=pair.value))", "pass", rule="R05.7"),
    M("base-to-mark pairs also in the base list", "ufo2ft/featureWriters/kernFeatureWriter.py", "KernFeatureWriter._splitBaseAndMarkPairs",
      "markPairs.append(KerningPair(side1Bases, side2Marks, value=pair.value))", "basePairs.append(KerningPair(side1Bases, side2Marks, value=pair.value))", rule="R05.7"),
    M("merged buckets receive a bucket twice", "ufo2ft/featureWriters/kernFeatureWriter.py", "mergeScripts",
      "result[tuple(sorted(scripts2))].extend(pairs)\nbreak", "result[tuple(sorted(scripts2))].extend(pairs)", rule="R05.8"),
    M("split part appended twice", "ufo2ft/featureWriters/kernFeatureWriter.py", "splitKerning",
      "kerningPerScript.setdefault(scripts, []).append(splitPair)", "kerningPerScript.setdefault(scripts, []).append(splitPair)\nkerningPerScript.setdefault(scripts[:1], []).append(splitPair)", rule="R05.8"),
    # equivalents
    M("sort via sorted slice assignment is not used; keep .sort() but rename", "ufo2ft/featureWriters/kernFeatureWriter2.py", "split_kerning",
      "for pairs in kerning_per_direction.values():\n    pairs.sort()", "for bucket in kerning_per_direction.values():\n    bucket.sort()", kind="equiv"),
    M("enumerated computed inline", "ufo2ft/featureWriters/kernFeatureWriter2.py", "make_pairpos_rule",
      'fea_ast.PairPosStatement(glyphs1=glyphs1, valuerecord1=valuerecord, glyphs2=glyphs2, valuerecord2=None, enumerated=enumerated)', 'fea_ast.PairPosStatement(glyphs1=glyphs1, valuerecord1=valuerecord, glyphs2=glyphs2, valuerecord2=None, enumerated=pair.firstIsClass ^ pair.secondIsClass)', kind="equiv"),
]
