"""Helpers shared by the per-property rule modules."""

from __future__ import annotations

import ast
from typing import Callable, Iterable, Iterator, List, Optional, Sequence, Set, Tuple

from ..core import astutil as A
from ..core.cfg import Cond
from ..core.index import AnalysisError, ClassInfo, FuncInfo
from ..core.program import Program, _Wrapped

T = A.text

# ---- anchors ---------------------------------------------------------------

ENTRY_POINTS = [
    "compileTTF", "compileOTF", "compileInterpolatableTTFs", "compileVariableTTFs",
    "compileInterpolatableTTFsFromDS", "compileInterpolatableOTFsFromDS",
    "compileVariableTTF", "compileVariableCFF2", "compileVariableCFF2s",
]

BASE_FILTER = "ufo2ft.filters.base.BaseFilter"
BASE_IFILTER = "ufo2ft.filters.base.BaseIFilter"
BASE_WRITER = "ufo2ft.featureWriters.baseFeatureWriter.BaseFeatureWriter"
BASE_OUTLINE = "ufo2ft.outlineCompiler.BaseOutlineCompiler"
OTF_OUTLINE = "ufo2ft.outlineCompiler.OutlineOTFCompiler"
TTF_OUTLINE = "ufo2ft.outlineCompiler.OutlineTTFCompiler"
BASE_COMPILER = "ufo2ft._compilers.baseCompiler.BaseCompiler"
BASE_ICOMPILER = "ufo2ft._compilers.baseCompiler.BaseInterpolatableCompiler"


def entry_funcs(prog: Program) -> List[FuncInfo]:
    return [prog.ix.get_func(f"ufo2ft:{n}") for n in ENTRY_POINTS]


def key(fi: FuncInfo, node_or_text) -> str:
    s = node_or_text if isinstance(node_or_text, str) else T(node_or_text)
    return f"{fi.short}|{s}"


def where(fi: FuncInfo, node: Optional[ast.AST] = None) -> str:
    return fi.loc(node)


# ---- call finding ------------------------------------------------------------

def calls_named(fi: FuncInfo, *names: str) -> List[ast.Call]:
    return [c for c in A.body_nodes(fi.node) if isinstance(c, ast.Call) and A.callee_name(c) in names]


def calls_to(prog: Program, fi: FuncInfo, *suffixes: str) -> List[ast.Call]:
    return [c for c in A.body_nodes(fi.node) if isinstance(c, ast.Call) and prog.is_call_to(fi, c, *suffixes)]


def all_calls_named(prog: Program, *names: str) -> List[Tuple[FuncInfo, ast.Call]]:
    out = []
    for fi in prog.ix.functions.values():
        for c in calls_named(fi, *names):
            out.append((fi, c))
    return out


def all_calls_to(prog: Program, *suffixes: str) -> List[Tuple[FuncInfo, ast.Call]]:
    out = []
    for fi in prog.ix.functions.values():
        for c in calls_to(prog, fi, *suffixes):
            out.append((fi, c))
    return out


def is_self_attr(node: ast.AST, attr: Optional[str] = None) -> bool:
    return (isinstance(node, ast.Attribute) and isinstance(node.value, ast.Name)
            and node.value.id == "self" and (attr is None or node.attr == attr))


def attr_stores(fi: FuncInfo, attr: str) -> List[Tuple[ast.stmt, ast.Attribute, Optional[ast.expr]]]:
    """(stmt, target, value) for every `<x>.attr = value` / augmented store in fi."""
    out = []
    for st in A.stmts_of(fi.node):
        targets, value = [], None
        if isinstance(st, ast.Assign):
            targets, value = st.targets, st.value
        elif isinstance(st, (ast.AugAssign, ast.AnnAssign)):
            targets, value = [st.target], st.value
        for t in targets:
            elts = t.elts if isinstance(t, (ast.Tuple, ast.List)) else [t]
            for i, e in enumerate(elts):
                if isinstance(e, ast.Attribute) and e.attr == attr:
                    v = value
                    if isinstance(t, (ast.Tuple, ast.List)) and isinstance(value, (ast.Tuple, ast.List)) and len(value.elts) == len(elts):
                        v = value.elts[i]
                    out.append((st, e, v))
    return out


def subscript_stores(fi: FuncInfo) -> List[Tuple[ast.stmt, ast.Subscript, Optional[ast.expr]]]:
    out = []
    for st in A.stmts_of(fi.node):
        targets, value = [], None
        if isinstance(st, ast.Assign):
            targets, value = st.targets, st.value
        elif isinstance(st, (ast.AugAssign, ast.AnnAssign)):
            targets, value = [st.target], st.value
        for t in targets:
            elts = t.elts if isinstance(t, (ast.Tuple, ast.List)) else [t]
            for e in elts:
                if isinstance(e, ast.Subscript):
                    out.append((st, e, value))
    return out


# ---- guards -----------------------------------------------------------------

def conds(prog: Program, fi: FuncInfo, node: ast.AST) -> List[Cond]:
    return [c.normalised() for c in prog.conditions(fi, node) if c.kind not in ("for", "try", "with", "handler")]


def may_conds(prog: Program, fi: FuncInfo, node: ast.AST) -> List[Cond]:
    """Every branch decision the execution of `node` depends on (transitive control
    dependence), whether or not it holds on all paths: empty means the node runs
    whenever the function runs to completion.  Use this for 'unconditional' rules;
    use conds() for facts that must hold when the node executes."""
    return [c.normalised() for c in prog.conditions(fi, node, universal=False)]


def conjuncts(c: Cond) -> Optional[List[ast.AST]]:
    """The literals of a guard when it reads as a conjunction (`a and b` taken, or `a or b` not taken, whatever
    De Morgan variant the source uses), each in negation normal form; None when the guard is a disjunction."""
    from ..core.cfg import nnf
    if c.polarity not in (True, False):
        return None
    t = c.test
    if isinstance(t, ast.BoolOp):
        if isinstance(t.op, ast.And) and c.polarity is True:
            return [nnf(v) for v in t.values]
        if isinstance(t.op, ast.Or) and c.polarity is False:
            return [nnf(v, negate=True) for v in t.values]
        return None
    return [nnf(t, negate=not c.polarity)]


def is_early_exit_guard(prog: Program, fi: FuncInfo, c: Cond) -> bool:
    """c is the test of an `if <test>: return/raise/continue` guard (the node runs when
    the guard does NOT fire): such a condition restricts when the function / loop body
    does anything at all, not what it does."""
    for n in A.body_nodes(fi.node):
        if isinstance(n, ast.If) and n.test is (c.raw if c.raw is not None else c.test) and not n.orelse and n.body and isinstance(n.body[-1], (ast.Return, ast.Raise, ast.Continue)):
            return (c.raw_polarity if c.raw is not None else c.polarity) is False
    if c.kind == "assert":
        return True
    return False


def cond_texts(prog: Program, fi: FuncInfo, node: ast.AST) -> List[str]:
    return [f"{'' if c.polarity is True else 'not ' if c.polarity is False else str(c.polarity) + ' '}{T(c.test, 60)}" for c in conds(prog, fi, node)]


def membership_guard(c: Cond, key_pred: Callable[[ast.AST], bool], container_pred: Callable[[ast.AST], bool]) -> Optional[bool]:
    """If cond `c` is a membership test of key in container, return True when it
    asserts 'key IS in container', False when it asserts 'key is NOT in container';
    None if c is not such a test."""
    t = c.test
    neg = False
    while isinstance(t, ast.UnaryOp) and isinstance(t.op, ast.Not):
        t = t.operand
        neg = not neg
    p = A.compare_parts(t)
    if p is None:
        return None
    left, op, right = p
    if not isinstance(op, (ast.In, ast.NotIn)):
        return None
    if not (key_pred(left) and container_pred(right)):
        return None
    is_in = isinstance(op, ast.In)
    if neg:
        is_in = not is_in
    if c.polarity is True:
        return is_in
    if c.polarity is False:
        return not is_in
    return None


def truthiness_guard(c: Cond, pred: Callable[[ast.AST], bool]) -> Optional[bool]:
    """If cond c tests the truthiness of an expression satisfying pred, return
    the asserted truth value."""
    t = c.test
    neg = False
    while isinstance(t, ast.UnaryOp) and isinstance(t.op, ast.Not):
        t = t.operand
        neg = not neg
    if not pred(t):
        return None
    if c.polarity not in (True, False):
        return None
    return (not c.polarity) if neg else c.polarity


def name_is(n: str) -> Callable[[ast.AST], bool]:
    return lambda e: isinstance(e, ast.Name) and e.id == n


def same_as(x: ast.AST) -> Callable[[ast.AST], bool]:
    d = ast.dump(x)
    return lambda e: ast.dump(e) == d


# ---- value flow ---------------------------------------------------------------

def leaves(prog: Program, fi: FuncInfo, expr: ast.AST):
    return prog.origins(fi, expr)


def every_origin(prog: Program, fi: FuncInfo, expr: ast.AST, ok: Callable[[ast.AST, FuncInfo], bool],
                 allow_const: bool = True, falsy_ok: bool = False) -> Tuple[bool, List[str]]:
    """True iff every origin (backward slice through local assignments and
    conditional expressions) of `expr` satisfies ok(leaf).  Returns offending
    leaf texts."""
    bad = []
    for leaf, _path in prog.origins(fi, expr, prune_falsy=falsy_ok, through=lambda e: isinstance(e, ast.AST) and not isinstance(e, (ast.Name, ast.IfExp, ast.NamedExpr)) and ok(e, fi)):
        if isinstance(leaf, _Wrapped):
            bad.append(f"{leaf.how} of {T(leaf.expr, 60)}")
            continue
        if allow_const and isinstance(leaf, ast.Constant):
            continue
        if isinstance(leaf, ast.AST) and not isinstance(leaf, ast.arg) and ok(leaf, fi):
            continue
        bad.append(T(leaf, 60) if isinstance(leaf, ast.AST) else str(leaf))
    return (not bad), bad


# ---- misc ---------------------------------------------------------------------

def need(cond: bool, msg: str) -> None:
    if not cond:
        raise AnalysisError(msg)


def single(items: Sequence, what: str):
    if len(items) != 1:
        raise AnalysisError(f"cannot interpret: expected exactly one {what}, found {len(items)}")
    return items[0]


def class_methods_in_hierarchy(prog: Program, base_qname: str, name: str) -> List[FuncInfo]:
    out = []
    for ci in prog.ix.subclasses(base_qname):
        if name in ci.methods:
            out.append(ci.methods[name])
    return out


def loop_ancestors(prog: Program, fi: FuncInfo, node: ast.AST) -> List[ast.AST]:
    out = []
    for a in prog.ix.ancestors(node):
        if a is fi.node:
            break
        if isinstance(a, (ast.For, ast.While, ast.AsyncFor)):
            out.append(a)
    return out


# ---- facts: conjunctive atoms known to hold where a node executes ---------------

_NEG = {"eq": "ne", "ne": "eq", "in": "notin", "notin": "in", "is": "isnot", "isnot": "is",
        "lt": "ge", "ge": "lt", "gt": "le", "le": "gt", "truthy": "falsy", "falsy": "truthy"}
_OPS = {ast.Eq: "eq", ast.NotEq: "ne", ast.In: "in", ast.NotIn: "notin", ast.Is: "is", ast.IsNot: "isnot",
        ast.Lt: "lt", ast.GtE: "ge", ast.Gt: "gt", ast.LtE: "le"}


def atoms_of(test: ast.AST, truth: bool) -> List[Tuple[str, str, str]]:
    """Decompose `test == truth` into a conjunction of atoms (op, left, right).
    Disjunctions that cannot be decomposed are returned as one opaque atom
    ('truthy'/'falsy', text, '')."""
    t = test
    if isinstance(t, ast.UnaryOp) and isinstance(t.op, ast.Not):
        return atoms_of(t.operand, not truth)
    if isinstance(t, ast.BoolOp):
        conj = isinstance(t.op, ast.And)
        if conj == truth:
            # (a and b) is True  /  (a or b) is False  -> every operand decided
            out = []
            for v in t.values:
                out += atoms_of(v, truth)
            return out
        return [("truthy" if truth else "falsy", T(t), "")]
    if isinstance(t, ast.Compare) and len(t.ops) == 1:
        op = _OPS.get(type(t.ops[0]))
        if op:
            if not truth:
                op = _NEG[op]
            return [(op, T(t.left), T(t.comparators[0]))]
    if isinstance(t, ast.NamedExpr):
        return atoms_of(t.value, truth) + [("truthy" if truth else "falsy", T(t.target), "")]
    return [("truthy" if truth else "falsy", T(t), "")]


def facts(prog: Program, fi: FuncInfo, node: ast.AST) -> Set[Tuple[str, str, str]]:
    out = set()
    for c in conds(prog, fi, node):
        if c.polarity in (True, False):
            out.update(atoms_of(c.test, c.polarity))
    return out


def branch_values(prog: Program, fi: FuncInfo, e: ast.AST) -> List[Tuple[ast.AST, Set[Tuple[str, str, str]]]]:
    """The values `e` can stand for, each with the facts that select it: a conditional expression contributes its two arms
    (with the atoms of its test), a local name every reaching definition (with the facts in force at the assignment).
    `x = a if c else b` and `if c: x = a` / `else: x = b` give the same answer."""
    out: List[Tuple[ast.AST, Set[Tuple[str, str, str]]]] = []

    def expand(v, fs, depth):
        if isinstance(v, ast.IfExp) and depth < 6:
            expand(v.body, fs | set(atoms_of(v.test, True)), depth + 1)
            expand(v.orelse, fs | set(atoms_of(v.test, False)), depth + 1)
        elif isinstance(v, ast.Name) and depth < 6:
            ds = [d for d in prog.reaching(fi, v.id, v) if d.kind in ("assign", "annassign") and d.value is not None and d.element()[1] is None]
            if ds and len(ds) == len(prog.reaching(fi, v.id, v)):
                for d in ds:
                    expand(d.element()[0], fs | set(facts(prog, fi, d.binder)), depth + 1)
            else:
                out.append((v, fs))
        else:
            out.append((v, fs))
    expand(e, set(), 0)
    return out


def ext_name(prog: Program, where_, e: ast.AST) -> str:
    """Dotted name an expression resolves to through the module's imports ('' when it does not): `Transform`,
    `transform.Transform` and `fontTools.misc.transform.Transform` are the same thing to a rule that asks this way."""
    mi = where_.module if isinstance(where_, FuncInfo) else where_
    cls = prog._class_ctx(where_) if isinstance(where_, FuncInfo) else None
    try:
        return prog.ix.resolve_expr(mi, e, cls) or ""
    except Exception:
        return ""


_PARAM_MUTATORS = {"append", "extend", "insert", "remove", "pop", "clear", "sort", "reverse", "update", "add", "discard", "setdefault", "popitem", "__setitem__", "__delitem__"}


def param_mutated(prog: Program, callee: FuncInfo, pname: str, depth: int = 0) -> Optional[ast.AST]:
    """A statement / call of `callee` that changes the object its parameter `pname` is bound to in place (item store,
    mutator method, hand-over to another package function that does), or None."""
    if isinstance(callee.node, ast.Lambda):
        return None

    def is_param(n):
        ds = prog.reaching(callee, pname, n)  # may still be the caller's object (`if x is None: x = {}` keeps it otherwise)
        return any(d.kind == "param" for d in ds)
    for node in A.body_nodes(callee.node):
        if isinstance(node, ast.Call) and isinstance(node.func, ast.Attribute) and node.func.attr in _PARAM_MUTATORS and isinstance(node.func.value, ast.Name) and node.func.value.id == pname:
            if is_param(node.func.value):
                return node
        elif isinstance(node, (ast.Assign, ast.Delete)):
            for t in node.targets:
                for el in (t.elts if isinstance(t, (ast.Tuple, ast.List)) else [t]):
                    if isinstance(el, ast.Subscript) and isinstance(el.value, ast.Name) and el.value.id == pname and is_param(el.value):
                        return node
                    if isinstance(el, ast.Assign):
                        pass
        elif isinstance(node, ast.Assign):
            pass
        if isinstance(node, ast.Assign):
            # `x = cache[key] = value` style chained stores
            for t in node.targets:
                if isinstance(t, ast.Subscript) and isinstance(t.value, ast.Name) and t.value.id == pname and is_param(t.value):
                    return node
        if depth < 1 and isinstance(node, ast.Call):
            try:
                ts, how = prog.resolve_callee(callee, node.func)
            except Exception:
                continue
            if how != "exact" or len(ts) != 1 or not isinstance(ts[0], FuncInfo) or isinstance(ts[0].node, ast.Lambda):
                continue
            t = ts[0]
            ps = t.params()
            if t.cls is not None and not t.is_static and isinstance(node.func, ast.Attribute):
                ps = ps[1:]
            for i, a in enumerate(node.args):
                if i < len(ps) and isinstance(a, ast.Name) and a.id == pname and is_param(a):
                    m = param_mutated(prog, t, ps[i], depth + 1)
                    if m is not None:
                        return m
            for k in node.keywords:
                if k.arg in ps and isinstance(k.value, ast.Name) and k.value.id == pname and is_param(k.value):
                    m = param_mutated(prog, t, k.arg, depth + 1)
                    if m is not None:
                        return m
    return None


def has_fact(fs, op: str, left_contains: str = "", right_contains: str = "") -> bool:
    """Symmetric for eq/ne."""
    for o, l, r in fs:
        if o != op:
            continue
        if left_contains in l and right_contains in r:
            return True
        if op in ("eq", "ne") and left_contains in r and right_contains in l:
            return True
    return False


# ---- option plumbing (E6) --------------------------------------------------------

def compiler_field_classes(prog: Program, compiler_q: str, fld: str) -> List[ClassInfo]:
    """Package classes a dataclass field defaults to, for the compiler class (MRO)."""
    ci = prog.ix.get_class(compiler_q)
    ca = prog.ix.class_attr(ci, fld)
    if ca is None:
        raise AnalysisError(f"{compiler_q} has no field {fld}")
    owner, expr = ca
    d = prog.ix.resolve_expr(owner.module, expr, owner)
    obj = prog.ix.lookup(d) if d else None
    if not isinstance(obj, ClassInfo):
        raise AnalysisError(f"{compiler_q}.{fld} does not default to a package class ({T(expr)})")
    return [obj]


def has_field(prog: Program, compiler_q: str, fld: str) -> bool:
    ci = prog.ix.get_class(compiler_q)
    return any(fld in c.annotations for c in prog.ix.mro(ci))


def consumer_params(prog: Program, compiler_q: str, stage: str) -> Set[str]:
    ix = prog.ix
    if stage == "pre":
        out = set()
        for pc in compiler_field_classes(prog, compiler_q, "preProcessorClass"):
            for name in ("__init__", "initDefaultFilters"):
                m = ix.find_method(pc, name)
                if m is not None:
                    out.update(p for p in m.params() if not p.startswith("*"))
        return out
    if stage == "outline":
        out = set()
        for oc in compiler_field_classes(prog, compiler_q, "outlineCompilerClass"):
            m = ix.find_method(oc, "__init__")
            out.update(p for p in m.params() if not p.startswith("*"))
        return out
    if stage == "post":
        out = set()
        for pc in compiler_field_classes(prog, compiler_q, "postProcessorClass"):
            m = ix.find_method(pc, "process")
            out.update(p for p in m.params() if not p.startswith("*"))
        return out
    if stage == "feature":
        m = ix.get_method("ufo2ft.featureCompiler.FeatureCompiler", "__init__")
        return {p for p in m.params() if not p.startswith("*")}
    raise AnalysisError(f"unknown stage {stage}")


RENAMES = {("pre", "cubicConversionError"): "conversionError"}


def check_plumbing(prog: Program, chk, rule: str, table: Sequence[Tuple[str, str, str]]) -> None:
    """table rows: (compiler class qname, option, stage)."""
    ix = prog.ix
    for compiler_q, option, stage in table:
        short = compiler_q.rsplit(".", 1)[1]
        inst = f"{short}.{option}->{stage}"
        if not has_field(prog, compiler_q, option):
            chk.ob(rule, inst, False, "", message=f"{short} has no dataclass field '{option}': the public option is not accepted any more")
            continue
        want = RENAMES.get((stage, option), option)
        params = consumer_params(prog, compiler_q, stage)
        ok = want in params
        if ok and (stage, option) in RENAMES:
            # the documented rename must still be performed in BaseCompiler.preprocess
            pre = ix.get_method(BASE_COMPILER, "preprocess", own=True)
            ok = any(isinstance(t, ast.Subscript) and A.is_const(t.slice, want) and isinstance(v, ast.Attribute) and v.attr == option
                     for _st, t, v in subscript_stores(pre))
        chk.ob(rule, inst, ok, ix.get_class(compiler_q).module.relpath,
               detail=f"consumer of stage '{stage}' accepts parameter '{want}'",
               message=f"option '{option}' of {short} is silently dropped: no parameter '{want}' in the {stage}-stage consumer "
                       f"(options are forwarded by name through prune_unknown_kwargs)")


def check_forwarding(prog: Program, chk, rule: str) -> None:
    """The by-name forwarding mechanism itself: each stage builds its kwargs with
    prune_unknown_kwargs(self.__dict__, <consumer>) and passes them with **."""
    ix = prog.ix
    sites = [
        (BASE_COMPILER, "preprocess", "preProcessorClass"),
        (BASE_COMPILER, "compileOutlines", "outlineCompilerClass"),
        (BASE_COMPILER, "compileFeatures", "featureCompilerClass"),
        (BASE_COMPILER, "postprocess", "process"),
        ("ufo2ft._compilers.ttfCompiler.TTFCompiler", "compileOutlines", "outlineCompilerClass"),
        ("ufo2ft._compilers.interpolatableTTFCompiler.InterpolatableTTFCompiler", "compileOutlines", "outlineCompilerClass"),
        ("ufo2ft._compilers.interpolatableOTFCompiler.InterpolatableOTFCompiler", "compileOutlines", "outlineCompilerClass"),
    ]
    for cq, mname, consumer in sites:
        m = ix.get_method(cq, mname, own=True)
        calls = [c for c in A.body_nodes(m.node) if isinstance(c, ast.Call) and isinstance(c.func, ast.Attribute) and c.func.attr == consumer]
        ok = False
        for c in calls:
            for k in c.keywords:
                if k.arg is None:
                    good, _bad = every_origin(prog, m, k.value, lambda e, f: isinstance(e, ast.Call) and A.callee_name(e) == "prune_unknown_kwargs"
                                              and e.args and T(e.args[0]) == "self.__dict__", allow_const=False)
                    ok = ok or good
        chk.ob(rule, f"{m.short}|forwards self.__dict__ through prune_unknown_kwargs", ok, where(m),
               detail=f"{consumer}(..., **prune_unknown_kwargs(self.__dict__, ...))",
               message=f"{m.short} no longer forwards the compiler's options to {consumer} by name")


# ---- propositional entailment over guard conditions ------------------------------

def _eval_bool(e: ast.AST, atomize, env: dict):
    """Evaluate expression e to a bool under env (atom key -> bool).  Leaves that
    atomize() does not know are looked up as opaque atoms keyed by their text."""
    if isinstance(e, ast.BoolOp):
        vals = [_eval_bool(v, atomize, env) for v in e.values]
        return all(vals) if isinstance(e.op, ast.And) else any(vals)
    if isinstance(e, ast.UnaryOp) and isinstance(e.op, ast.Not):
        return not _eval_bool(e.operand, atomize, env)
    if isinstance(e, ast.Constant):
        return bool(e.value)
    a = atomize(e)
    if a is not None:
        k, pos = a
        return env[k] if pos else not env[k]
    return env[("opaque", T(e))]


def _collect_atoms(e: ast.AST, atomize, out: set):
    if isinstance(e, ast.BoolOp):
        for v in e.values:
            _collect_atoms(v, atomize, out)
    elif isinstance(e, ast.UnaryOp) and isinstance(e.op, ast.Not):
        _collect_atoms(e.operand, atomize, out)
    elif isinstance(e, ast.Constant):
        pass
    else:
        a = atomize(e)
        out.add(a[0] if a is not None else ("opaque", T(e)))


def entails(cond_list: Sequence[Cond], atomize, goal, constraints=None, max_atoms: int = 14, goal_atoms=()) -> bool:
    """Do the guards (each `test == polarity`) propositionally entail goal(env)?
    atomize(expr) -> (atom_key, positive) | None names the atoms the rule knows;
    constraints(env) -> bool excludes impossible assignments.  Exhaustive over
    all assignments of the atoms that occur (unknown leaves are free atoms)."""
    import itertools
    atoms: set = set()
    for c in cond_list:
        _collect_atoms(c.test, atomize, atoms)
    atoms.update(goal_atoms)  # atoms the goal talks about are never left implicit
    atoms = sorted(atoms, key=str)
    if len(atoms) > max_atoms:
        raise AnalysisError("too many atoms in guard formula")
    for vals in itertools.product([False, True], repeat=len(atoms)):
        env = _Env(dict(zip(atoms, vals)))
        if constraints is not None and not constraints(env):
            continue
        if all(_eval_bool(c.test, atomize, env) == bool(c.polarity) for c in cond_list):
            if not goal(env):
                return False
    return True


class _Env(dict):
    """Atoms that do not occur in the guards are unconstrained: goal() sees them
    as False *and* the entailment must hold either way, so rules should only
    query atoms via .get(name, default)."""

    def __missing__(self, k):
        return False


# ---- call-site specialisation: constant propagation through a function prefix -----

def fold_body(prog: Program, fi: FuncInfo, env: dict, stop_at: Optional[ast.AST] = None) -> dict:
    """Propagate constants through the straight-line / foldable-branch prefix of
    fi's body starting from env (parameter bindings).  Names whose assignment
    cannot be folded are dropped from the environment.  Returns the environment
    in force when `stop_at` (a statement) is reached, or at the end."""
    env = dict(env)
    done = [False]

    def run(stmts):
        for st in stmts:
            if done[0]:
                return
            if st is stop_at:
                done[0] = True
                return
            if isinstance(st, ast.Assign):
                try:
                    v = prog.ix.const_eval(fi.module, st.value, prog._class_ctx(fi), env)
                    ok = True
                except (ValueError, TypeError, KeyError, AttributeError, IndexError):
                    ok = False
                for t in st.targets:
                    for nm in A.target_names(t):
                        if ok and isinstance(t, ast.Name):
                            env[nm] = v
                        else:
                            env.pop(nm, None)
            elif isinstance(st, (ast.AugAssign, ast.AnnAssign)):
                for nm in A.target_names(st.target):
                    env.pop(nm, None)
            elif isinstance(st, ast.If):
                try:
                    tv = prog.ix.const_eval(fi.module, st.test, prog._class_ctx(fi), env)
                    run(st.body if tv else st.orelse)
                except (ValueError, TypeError, KeyError, AttributeError, IndexError):
                    # unknown branch: names assigned in either arm become unknown
                    if stop_at is not None and any(n is stop_at for b in (st.body, st.orelse) for s in b for n in ast.walk(s)):
                        run(st.body if any(n is stop_at for s in st.body for n in ast.walk(s)) else st.orelse)
                        continue
                    for s in st.body + st.orelse:
                        for n in ast.walk(s):
                            if isinstance(n, ast.Name) and isinstance(n.ctx, ast.Store):
                                env.pop(n.id, None)
            elif isinstance(st, (ast.For, ast.While, ast.With, ast.Try)):
                if stop_at is not None and any(n is stop_at for n in ast.walk(st)):
                    if isinstance(st, ast.For):
                        for nm in A.target_names(st.target):
                            env.pop(nm, None)
                    run(getattr(st, "body", []))
                    if not done[0]:
                        run(getattr(st, "orelse", []))
                    continue
                for n in ast.walk(st):
                    if isinstance(n, ast.Name) and isinstance(n.ctx, ast.Store):
                        env.pop(n.id, None)

    run(fi.node.body)
    return env


def reached_under(cond_list: Sequence[Cond], atomize, premise: dict) -> bool:
    """Is the guarded statement executed whenever the atoms in `premise` have the
    given values - for every value of all other atoms?  (Exhaustive.)"""
    import itertools
    atoms: set = set()
    for c in cond_list:
        _collect_atoms(c.test, atomize, atoms)
    free = sorted((a for a in atoms if a not in premise), key=str)
    if len(free) > 12:
        raise AnalysisError("too many atoms in guard formula")
    for vals in itertools.product([False, True], repeat=len(free)):
        env = _Env(dict(zip(free, vals)))
        env.update(premise)
        if not all(_eval_bool(c.test, atomize, env) == bool(c.polarity) for c in cond_list):
            return False
    return True
