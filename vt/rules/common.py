"""Helpers shared by the per-property rule modules."""

from __future__ import annotations

import ast
from typing import Callable, Iterable, Iterator, List, Optional, Sequence, Set, Tuple

from ..core import astutil as A
from ..core.cfg import Cond
from ..core.index import AnalysisError, ClassInfo, FuncInfo
from ..core.program import Program, _Wrapped

T = A.text

# ---- anchors ---------------------------------------------------------------

ENTRY_POINTS = [
    "compileTTF", "compileOTF", "compileInterpolatableTTFs", "compileVariableTTFs",
    "compileInterpolatableTTFsFromDS", "compileInterpolatableOTFsFromDS",
    "compileVariableTTF", "compileVariableCFF2", "compileVariableCFF2s",
]

BASE_FILTER = "ufo2ft.filters.base.BaseFilter"
BASE_IFILTER = "ufo2ft.filters.base.BaseIFilter"
BASE_WRITER = "ufo2ft.featureWriters.baseFeatureWriter.BaseFeatureWriter"
BASE_OUTLINE = "ufo2ft.outlineCompiler.BaseOutlineCompiler"
OTF_OUTLINE = "ufo2ft.outlineCompiler.OutlineOTFCompiler"
TTF_OUTLINE = "ufo2ft.outlineCompiler.OutlineTTFCompiler"
BASE_COMPILER = "ufo2ft._compilers.baseCompiler.BaseCompiler"
BASE_ICOMPILER = "ufo2ft._compilers.baseCompiler.BaseInterpolatableCompiler"


def entry_funcs(prog: Program) -> List[FuncInfo]:
    return [prog.ix.get_func(f"ufo2ft:{n}") for n in ENTRY_POINTS]


def key(fi: FuncInfo, node_or_text) -> str:
    s = node_or_text if isinstance(node_or_text, str) else T(node_or_text)
    return f"{fi.short}|{s}"


def where(fi: FuncInfo, node: Optional[ast.AST] = None) -> str:
    return fi.loc(node)


# ---- call finding ------------------------------------------------------------

def calls_named(fi: FuncInfo, *names: str) -> List[ast.Call]:
    return [c for c in A.body_nodes(fi.node) if isinstance(c, ast.Call) and A.callee_name(c) in names]


def calls_to(prog: Program, fi: FuncInfo, *suffixes: str) -> List[ast.Call]:
    return [c for c in A.body_nodes(fi.node) if isinstance(c, ast.Call) and prog.is_call_to(fi, c, *suffixes)]


def all_calls_named(prog: Program, *names: str) -> List[Tuple[FuncInfo, ast.Call]]:
    out = []
    for fi in prog.ix.functions.values():
        for c in calls_named(fi, *names):
            out.append((fi, c))
    return out


def all_calls_to(prog: Program, *suffixes: str) -> List[Tuple[FuncInfo, ast.Call]]:
    out = []
    for fi in prog.ix.functions.values():
        for c in calls_to(prog, fi, *suffixes):
            out.append((fi, c))
    return out


def is_self_attr(node: ast.AST, attr: Optional[str] = None) -> bool:
    return (isinstance(node, ast.Attribute) and isinstance(node.value, ast.Name)
            and node.value.id == "self" and (attr is None or node.attr == attr))


def attr_stores(fi: FuncInfo, attr: str) -> List[Tuple[ast.stmt, ast.Attribute, Optional[ast.expr]]]:
    """(stmt, target, value) for every `<x>.attr = value` / augmented store in fi."""
    out = []
    for st in A.stmts_of(fi.node):
        targets, value = [], None
        if isinstance(st, ast.Assign):
            targets, value = st.targets, st.value
        elif isinstance(st, (ast.AugAssign, ast.AnnAssign)):
            targets, value = [st.target], st.value
        for t in targets:
            elts = t.elts if isinstance(t, (ast.Tuple, ast.List)) else [t]
            for i, e in enumerate(elts):
                if isinstance(e, ast.Attribute) and e.attr == attr:
                    v = value
                    if isinstance(t, (ast.Tuple, ast.List)) and isinstance(value, (ast.Tuple, ast.List)) and len(value.elts) == len(elts):
                        v = value.elts[i]
                    out.append((st, e, v))
    return out


def subscript_stores(fi: FuncInfo) -> List[Tuple[ast.stmt, ast.Subscript, Optional[ast.expr]]]:
    out = []
    for st in A.stmts_of(fi.node):
        targets, value = [], None
        if isinstance(st, ast.Assign):
            targets, value = st.targets, st.value
        elif isinstance(st, (ast.AugAssign, ast.AnnAssign)):
            targets, value = [st.target], st.value
        for t in targets:
            elts = t.elts if isinstance(t, (ast.Tuple, ast.List)) else [t]
            for e in elts:
                if isinstance(e, ast.Subscript):
                    out.append((st, e, value))
    return out


# ---- guards -----------------------------------------------------------------

def conds(prog: Program, fi: FuncInfo, node: ast.AST) -> List[Cond]:
    return [c for c in prog.conditions(fi, node) if c.kind not in ("for", "try", "with", "handler")]


def cond_texts(prog: Program, fi: FuncInfo, node: ast.AST) -> List[str]:
    return [f"{'' if c.polarity is True else 'not ' if c.polarity is False else str(c.polarity) + ' '}{T(c.test, 60)}" for c in conds(prog, fi, node)]


def membership_guard(c: Cond, key_pred: Callable[[ast.AST], bool], container_pred: Callable[[ast.AST], bool]) -> Optional[bool]:
    """If cond `c` is a membership test of key in container, return True when it
    asserts 'key IS in container', False when it asserts 'key is NOT in container';
    None if c is not such a test."""
    t = c.test
    neg = False
    while isinstance(t, ast.UnaryOp) and isinstance(t.op, ast.Not):
        t = t.operand
        neg = not neg
    p = A.compare_parts(t)
    if p is None:
        return None
    left, op, right = p
    if not isinstance(op, (ast.In, ast.NotIn)):
        return None
    if not (key_pred(left) and container_pred(right)):
        return None
    is_in = isinstance(op, ast.In)
    if neg:
        is_in = not is_in
    if c.polarity is True:
        return is_in
    if c.polarity is False:
        return not is_in
    return None


def truthiness_guard(c: Cond, pred: Callable[[ast.AST], bool]) -> Optional[bool]:
    """If cond c tests the truthiness of an expression satisfying pred, return
    the asserted truth value."""
    t = c.test
    neg = False
    while isinstance(t, ast.UnaryOp) and isinstance(t.op, ast.Not):
        t = t.operand
        neg = not neg
    if not pred(t):
        return None
    if c.polarity not in (True, False):
        return None
    return (not c.polarity) if neg else c.polarity


def name_is(n: str) -> Callable[[ast.AST], bool]:
    return lambda e: isinstance(e, ast.Name) and e.id == n


def same_as(x: ast.AST) -> Callable[[ast.AST], bool]:
    d = ast.dump(x)
    return lambda e: ast.dump(e) == d


# ---- value flow ---------------------------------------------------------------

def leaves(prog: Program, fi: FuncInfo, expr: ast.AST):
    return prog.origins(fi, expr)


def every_origin(prog: Program, fi: FuncInfo, expr: ast.AST, ok: Callable[[ast.AST, FuncInfo], bool],
                 allow_const: bool = True) -> Tuple[bool, List[str]]:
    """True iff every origin (backward slice through local assignments and
    conditional expressions) of `expr` satisfies ok(leaf).  Returns offending
    leaf texts."""
    bad = []
    for leaf, _path in prog.origins(fi, expr, through=lambda e: isinstance(e, ast.AST) and not isinstance(e, (ast.Name, ast.IfExp, ast.NamedExpr)) and ok(e, fi)):
        if isinstance(leaf, _Wrapped):
            bad.append(f"{leaf.how} of {T(leaf.expr, 60)}")
            continue
        if allow_const and isinstance(leaf, ast.Constant):
            continue
        if isinstance(leaf, ast.AST) and not isinstance(leaf, ast.arg) and ok(leaf, fi):
            continue
        bad.append(T(leaf, 60) if isinstance(leaf, ast.AST) else str(leaf))
    return (not bad), bad


# ---- misc ---------------------------------------------------------------------

def need(cond: bool, msg: str) -> None:
    if not cond:
        raise AnalysisError(msg)


def single(items: Sequence, what: str):
    if len(items) != 1:
        raise AnalysisError(f"cannot interpret: expected exactly one {what}, found {len(items)}")
    return items[0]


def class_methods_in_hierarchy(prog: Program, base_qname: str, name: str) -> List[FuncInfo]:
    out = []
    for ci in prog.ix.subclasses(base_qname):
        if name in ci.methods:
            out.append(ci.methods[name])
    return out


def loop_ancestors(prog: Program, fi: FuncInfo, node: ast.AST) -> List[ast.AST]:
    out = []
    for a in prog.ix.ancestors(node):
        if a is fi.node:
            break
        if isinstance(a, (ast.For, ast.While, ast.AsyncFor)):
            out.append(a)
    return out
