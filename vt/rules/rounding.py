"""Shared rounding-discipline rules (E5): fontTools' otRound is the only integeriser
on advance / coordinate / anchor / kerning values; builtin coercions are banned
unless reviewed."""

from __future__ import annotations

import ast
from typing import Dict, Iterable, List, Optional, Tuple

from ..core import astutil as A
from ..core.index import AnalysisError, FuncInfo
from .common import T, every_origin, where

OTROUND = ("fontTools.misc.fixedTools.otRound", "fontTools.misc.roundTools.otRound")

# (function short name, rename-robust text of the call) -> reason.  Reviewed 2026-10-02.
REVIEWED_COERCIONS: Dict[Tuple[str, str], str] = {
    ("openTypeHeadCreatedFallback", "int(os.environ['SOURCE_DATE_EPOCH'])"): "parses an environment string (timestamp)",
    ("openTypeOS2TypoLineGapFallback", "int(getAttrWithFallback($1, 'unitsPerEm') * 1.2)"): "UPM-derived fallback constant, documented as UPM*1.2 truncated",
    ("InstructionCompiler.setupTable_cvt", "int($1)"): "plist keys are strings: cvt index parsing",
    ("BaseOutlineCompiler.setupTable_head", "round($1, 3)"): "fontRevision is a 16.16 fixed decimal: rounds the version number to 3 digits, not a coordinate",
    ("BaseOutlineCompiler.setupTable_cmap", "int($1, 16)"): "parses hexadecimal code points of public.unicodeVariationSequences",
    ("BaseOutlineCompiler.setupTable_post", "int(getAttrWithFallback($1.info, 'postscriptIsFixedPitch'))"): "bool -> 0/1",
    ("OutlineOTFCompiler.makeGlyphsBoundingBoxes.<locals>.toInt", "int($1($2))"): "bbox enclosure: floor/ceil of values outside the rounding tolerance (must enclose, not round)",
    ("OutlineOTFCompiler.setupTable_CFF", "int(getAttrWithFallback($1, 'postscriptIsFixedPitch'))"): "bool -> 0/1",
    ("colrClipBoxQuantization", "int(round($1 / 10, -1))"): "COLR clip-box quantisation step derived from UPM (not a glyph coordinate)",
    ("colrClipBoxQuantization", "round($1 / 10, -1)"): "COLR clip-box quantisation step derived from UPM (not a glyph coordinate)",
    ("parseAnchorName", "int($1)"): "parses the ligature component number out of an anchor name",
}
COERCIONS = {"round", "int", "floor", "ceil", "trunc"}


def is_otround(prog, fi: FuncInfo, e: ast.AST) -> bool:
    return isinstance(e, ast.Call) and prog.is_call_to(fi, e, *OTROUND)


def coercion_calls(prog, fi: FuncInfo) -> List[ast.Call]:
    out = []
    for c in A.body_nodes(fi.node):
        if not isinstance(c, ast.Call):
            continue
        f = c.func
        if isinstance(f, ast.Name) and f.id in COERCIONS:
            # a local named e.g. `round` bound to otRound/noRound is not the builtin
            if prog.reaching(fi, f.id, f):
                continue
            d = prog.ix.resolve_expr(fi.module, f, prog._class_ctx(fi))
            if d is not None and not d.startswith("math."):
                continue
            out.append(c)
        elif isinstance(f, ast.Attribute) and f.attr in ("floor", "ceil", "trunc") and T(f.value) == "math":
            # math.floor / math.ceil used as a callback value are handled at the call that invokes them
            out.append(c)
    return out


def check_banned_coercions(prog, chk, rule: str, modules: Iterable[str]) -> int:
    n = 0
    mods = set(modules)
    for fi in prog.ix.functions.values():
        if fi.module.name not in mods:
            continue
        for c in coercion_calls(prog, fi):
            n += 1
            k = (fi.short, A.keytext(fi.node, c))
            ok = k in REVIEWED_COERCIONS
            if ok:
                chk.exempt(rule, f"{k[0]}|{k[1]}", REVIEWED_COERCIONS[k])
            chk.ob(rule, f"{k[0]}|{k[1]}", ok, where(fi, c), detail=REVIEWED_COERCIONS.get(k, ""), nontrivial=False,
                   message=f"builtin coercion `{T(c, 50)}` in {fi.short}: round() rounds halves to even and int() truncates towards zero, "
                           f"unlike OpenType rounding (otRound: halves up); not on the reviewed list")
    return n


def check_helper(prog, chk, rule: str, qname: str, passthrough_ok: bool = True):
    """A package rounding helper integerises through fontTools' otRound."""
    fi = prog.ix.get_func(qname)
    rets = [r for r in A.returns_of(fi.node) if r.value is not None]
    if not rets:
        raise AnalysisError(f"cannot interpret {fi.short}: no return value")
    params = [p for p in fi.params()]
    rounded = 0
    for r in rets:
        v = r.value
        if passthrough_ok and isinstance(v, ast.Name) and v.id in params:
            # returned unchanged only for non-numeric (variable scalar) values
            from .common import conds
            guards = [c for c in conds(prog, fi, r) if "isinstance" in T(c.test)]
            ok = bool(guards)
            chk.ob(rule, f"{fi.short}|pass-through only for non-numbers", ok, where(fi, r), detail="guarded by an isinstance test",
                   message=f"{fi.short} can return a plain number un-rounded")
            continue
        has_ot = any(is_otround(prog, fi, n) for n in ast.walk(v))
        bad = [n for n in ast.walk(v) if isinstance(n, ast.Call) and isinstance(n.func, ast.Name) and n.func.id in COERCIONS]
        rounded += 1
        chk.ob(rule, f"{fi.short}|{A.keytext(fi.node, r)}", has_ot and not bad, where(fi, r), detail="integerises with fontTools otRound",
               message=f"{fi.short} no longer rounds with fontTools' otRound (halves up): `{T(v, 60)}`")
    if not rounded:
        chk.ob(rule, f"{fi.short}|rounds at all", False, where(fi), message=f"{fi.short} has no rounding return path")


def flows_through_otround(prog, fi: FuncInfo, e: ast.AST, extra_ok=None) -> Tuple[bool, List[str]]:
    def ok(x, f):
        if is_otround(prog, f, x):
            return True
        if extra_ok is not None and extra_ok(x, f):
            return True
        return False
    return every_origin(prog, fi, e, ok)


# ------------------------------------------------------------------ coordinates vs truthiness
def coordinate_valued(prog, fi: FuncInfo, e: ast.AST, depth: int = 0, _seen=None) -> bool:
    """e may hold an anchor coordinate (a number for which 0 is a legitimate value):
    <anchor>.x / .y, self._getAnchor(...)[i], a local / helper return / generator
    element derived from those."""
    if depth > 6:
        return False
    if isinstance(e, ast.Attribute) and e.attr in ("x", "y") and not isinstance(e.value, ast.Call):
        return True
    if isinstance(e, ast.Subscript) and isinstance(e.value, ast.Call) and A.callee_name(e.value) == "_getAnchor":
        return True
    if isinstance(e, ast.Subscript) and isinstance(e.value, ast.Name) and isinstance(e.slice, ast.Constant):
        return any(isinstance(d.value, ast.Call) and A.callee_name(d.value) == "_getAnchor" and d.element()[1] is None for d in prog.reaching(fi, e.value.id, e.value))
    if isinstance(e, ast.Call) and A.callee_name(e) in ("otRound", "otRoundIgnoringVariable", "quantize", "round") and e.args:
        return coordinate_valued(prog, fi, e.args[0], depth + 1, _seen)
    if isinstance(e, (ast.GeneratorExp, ast.ListComp, ast.SetComp)):
        return coordinate_valued(prog, fi, e.elt, depth + 1, _seen)
    if isinstance(e, ast.IfExp):
        return coordinate_valued(prog, fi, e.body, depth + 1, _seen) or coordinate_valued(prog, fi, e.orelse, depth + 1, _seen)
    if isinstance(e, ast.Name):
        for d in prog.reaching(fi, e.id, e):
            v, how = d.element()
            if v is None or d.kind == "param":
                continue
            if how in (None, "iter") and coordinate_valued(prog, fi, v, depth + 1, _seen):
                return True
        return False
    if isinstance(e, ast.Call):
        ts, how = prog.resolve_callee(fi, e.func)
        for t in ts:
            if isinstance(t, FuncInfo) and how in ("exact", "cha", "self"):
                seen = _seen or set()
                if t.qname in seen:
                    continue
                seen.add(t.qname)
                for r in A.returns_of(t.node):
                    if r.value is not None and coordinate_valued(prog, t, r.value, depth + 1, seen):
                        return True
    return False


def check_no_truthiness_on_coordinates(prog, chk, rule: str, modules: Iterable[str], valued=None, what: str = "an anchor coordinate",
                                       only_functions=None) -> int:
    """0 is a legitimate coordinate: a coordinate is never dropped / defaulted by a
    truthiness test (filter(None, ...), `if v`, `v or d`, `not v`)."""
    n = 0
    mods = set(modules)
    valued = valued or coordinate_valued
    for fi in prog.ix.functions.values():
        if fi.module.name not in mods:
            continue
        if only_functions is not None and not only_functions(fi):
            continue
        for node in A.body_nodes(fi.node):
            tested = []
            if isinstance(node, ast.Call) and isinstance(node.func, ast.Name) and node.func.id == "filter" and len(node.args) == 2 \
                    and (A.is_const(node.args[0], None) or T(node.args[0]) == "bool"):
                tested.append(node.args[1])
            elif isinstance(node, (ast.If, ast.IfExp, ast.While)):
                tested.append(node.test)
            elif isinstance(node, ast.BoolOp):
                tested += node.values[:-1] if isinstance(node.op, ast.Or) else node.values
            elif isinstance(node, ast.UnaryOp) and isinstance(node.op, ast.Not):
                tested.append(node.operand)
            elif isinstance(node, ast.comprehension):
                tested += node.ifs
            for t in tested:
                if isinstance(t, (ast.Compare, ast.BoolOp, ast.UnaryOp)) or (isinstance(t, ast.Call) and not (isinstance(node, ast.Call)) and not (A.callee_name(t) == "getattr" and len(t.args) >= 2)):
                    continue
                n += 1
                if valued(prog, fi, t):
                    chk.ob(rule, f"{fi.short}|{A.keytext(fi.node, node)[:70]}", False, where(fi, node),
                           message=f"{fi.short}: {what} is tested by truthiness (`{T(node, 60)}`): a value of 0 is dropped / replaced "
                                   f"although it is a legitimate value")
    chk.ob(rule, f"no {what.split(' ', 1)[-1]} is tested by truthiness", True, "", detail=f"{n} truthiness tests examined in {sorted(m.rsplit('.', 1)[-1] for m in mods)}", nontrivial=False)
    return n
