"""C03 - glyph order and character map follow the source exactly (structural clauses)."""

from __future__ import annotations

import ast

from ..core import astutil as A
from ..core.index import AnalysisError, FuncInfo
from .common import (BASE_OUTLINE, OTF_OUTLINE, TTF_OUTLINE, T, attr_stores, calls_named, conds, every_origin,
                     entry_funcs, facts, may_conds, is_self_attr, key, membership_guard, name_is, need, same_as,
                     subscript_stores, where)

BROAD = {"Exception", "BaseException", "Error", "InvalidFontData", "ufo2ft.errors.Error",
         "ufo2ft.errors.InvalidFontData"}


def run(prog, chk):
    chk.decided += [
        "duplicate code point -> InvalidFontData raise, every mapping store guarded by absence (R03.1)",
        "no except handler on a path from a compile entry point to that raise swallows it (R03.1e)",
        "one glyph order (self.glyphOrder, assigned once) feeds every ordered per-glyph emission (R03.2)",
        ".notdef is inserted before the order is computed, on every path (R03.3)",
        "makeOfficialGlyphOrder: .notdef first, guarded single insertion, sorted tail (R03.4, shape-bound)",
        "BMP / non-BMP split uses one bound with complementary operators; 32-bit tables include BMP (R03.5)",
        "UVS default vs non-default decided by equality with the base mapping (R03.6)",
        "every declared code point of every glyph of the order reaches the mapping (no filtering: U+0000 is a code point); OS/2 indices only exclude None (R03.7)",
        "the compilers never fill in or override their glyphOrder option: a source is ordered by the caller's argument or its own public.glyphOrder (R03.8)",
        "a glyph a filter takes from another layer and adds under a new name has its code points removed before the insertion (R03.9)",
        "renaming to production names keeps every glyph name unique (kept names are reserved up front, every handed-out name is recorded): a name carried by two glyphs makes the returned font's cmap and name-keyed tables point at the wrong glyph (R03.10, shared with C11)",
    ]
    chk.decided += ["a glyph's code points are read through `unicodes` (all of them): `.unicode` (the first one only) is read by the production-name builder alone - a decision taken on the first "
                    "code point misses glyphs that carry the code point as a secondary one (R03.11)"]
    chk.not_decided += ["the ordering as a function of arbitrary inputs", "cmap binary encoding (fontTools)"]
    chk.guard(r031, prog, chk)
    chk.guard(r031e, prog, chk)
    chk.guard(r032, prog, chk)
    chk.guard(r033, prog, chk)
    chk.guard(r034, prog, chk)
    chk.guard(r035, prog, chk)
    chk.guard(r037, prog, chk)
    chk.guard(r038, prog, chk)
    chk.guard(r039, prog, chk)
    from .c11 import r113
    chk.guard(r113, prog, chk, "R03.10")
    chk.guard(r0311, prog, chk)


# ----------------------------------------------------------------------------- R03.1
def _returned_name(fi: FuncInfo) -> str:
    rets = [r for r in A.returns_of(fi.node) if r.value is not None]
    names = {r.value.id for r in rets if isinstance(r.value, ast.Name)}
    if len(names) != 1 or len(names) != len({T(r.value) for r in rets}):
        raise AnalysisError(f"cannot interpret {fi.short}: expected a single returned local")
    return names.pop()


def r031(prog, chk):
    fi = prog.ix.get_func("ufo2ft.util:makeUnicodeToGlyphNameMapping")
    m = _returned_name(fi)
    stores = [(st, t, v) for st, t, v in subscript_stores(fi) if isinstance(t.value, ast.Name) and t.value.id == m]
    # other ways of inserting into the mapping are not interpretable by this rule
    for c in A.body_nodes(fi.node):
        if isinstance(c, ast.Call) and isinstance(c.func, ast.Attribute) and isinstance(c.func.value, ast.Name) \
                and c.func.value.id == m and c.func.attr in ("update", "setdefault", "__setitem__"):
            chk.ob("R03.1", key(fi, c), False, where(fi, c),
                   message=f"mapping is filled through {T(c, 60)}: a later glyph can silently take or lose a code point")
    need(stores, f"cannot interpret {fi.short}: no store into the returned mapping")
    for st, t, v in stores:
        k = t.slice
        g = [membership_guard(c, same_as(k), name_is(m)) for c in conds(prog, fi, st)]
        ok = False in g and True not in g
        chk.ob("R03.1", key(fi, st), ok, where(fi, st),
               detail=f"store guarded by absence of the key: {ok}",
               message="a code point already present in the mapping can be overwritten (duplicate silently resolved)")
    # the present edge must raise InvalidFontData
    raises = [r for r in A.raises_of(fi.node)]
    good = []
    for r in raises:
        cls = A.raise_class(r)
        g = []
        for c in conds(prog, fi, r):
            p = A.compare_parts(c.test if not isinstance(c.test, ast.UnaryOp) else c.test.operand)
            if p and isinstance(p[1], (ast.In, ast.NotIn)) and isinstance(p[2], ast.Name) and p[2].id == m:
                g.append(membership_guard(c, lambda e: True, name_is(m)))
        if True in g and cls.endswith("InvalidFontData"):
            good.append(r)
    chk.ob("R03.1", key(fi, "raise-on-duplicate"), bool(good), where(fi),
           detail=f"{len(good)} raise(s) of InvalidFontData under 'key already mapped'",
           message="no InvalidFontData raise is control-dependent on the code point being already mapped")
    chk.minimum("R03.1", 2)


def _handler_types(h: ast.ExceptHandler):
    if h.type is None:
        return ["<bare>"]
    ts = h.type.elts if isinstance(h.type, ast.Tuple) else [h.type]
    return [A.dotted(t) or T(t) for t in ts]


def _reraises(prog, fi, h: ast.ExceptHandler) -> bool:
    """Every normal path through the handler body ends in a raise."""
    cfg = prog.cfg(fi)
    hn = cfg.node_of(h)
    if hn is None:
        return False
    raise_nodes = [cfg.node_of(r) for r in ast.walk(h) if isinstance(r, ast.Raise)]
    raise_nodes = [n for n in raise_nodes if n is not None]
    if not raise_nodes:
        return False
    # nodes that belong to the handler body
    body_ids = set()
    for st in h.body:
        for n in ast.walk(st):
            nid = cfg.owner.get(id(n))
            if nid is not None and nid >= 0:
                body_ids.add(nid)
    outside = {n.id for n in cfg.nodes} - body_ids - {hn}
    # a path from the handler to anything outside the handler that avoids raise nodes
    return not cfg.exists_path(hn, outside, avoid=raise_nodes)


def r031e(prog, chk):
    ix = prog.ix
    target = ix.get_func("ufo2ft.util:makeUnicodeToGlyphNameMapping")
    graph = prog.call_graph()
    roots = [f.qname for f in entry_funcs(prog)]
    reach = prog.reachable_from(roots, graph)
    need(target.qname in reach, "makeUnicodeToGlyphNameMapping is not reachable from the compile entry points")
    # functions from which the raise is reachable
    can_reach = {q for q in graph if target.qname in prog.reachable_from([q], graph)}
    n_handlers = 0
    for fi in ix.functions.values():
        for n in A.body_nodes(fi.node):
            if not isinstance(n, ast.Try):
                continue
            for h in n.handlers:
                n_handlers += 1
                types = _handler_types(h)
                broad = [t for t in types if t == "<bare>" or t.split(".")[-1] in {b.split(".")[-1] for b in BROAD}]
                if not broad:
                    chk.ob("R03.1e", key(fi, f"except {','.join(types)}"), True, where(fi, h),
                           detail="handler cannot catch InvalidFontData", nontrivial=False)
                    continue
                # does the try body reach the raise?
                callees = set()
                for st in n.body:
                    for c in A.calls_in(st):
                        ts, _how = prog.resolve_callee(fi, c.func)
                        for t in ts:
                            if hasattr(t, "qname") and hasattr(t, "node"):
                                callees.add(t.qname)
                            elif hasattr(t, "methods"):
                                for nm in ("__init__", "__post_init__"):
                                    m = ix.find_method(t, nm)
                                    if m:
                                        callees.add(m.qname)
                reaches = any(q in can_reach for q in callees)
                rer = _reraises(prog, fi, h)
                on_compile_path = fi.qname in reach
                ok = (not reaches) or rer or not on_compile_path
                chk.ob("R03.1e", key(fi, f"except {','.join(types)}"), ok, where(fi, h),
                       detail=f"broad handler; try-body reaches duplicate-code-point raise: {reaches}; always re-raises: {rer}; on compile path: {on_compile_path}",
                       message=f"handler 'except {','.join(types)}' can swallow the duplicate-code-point InvalidFontData")
    chk.extra["except_handlers_enumerated"] = n_handlers
    chk.minimum("R03.1e", 20)


# ----------------------------------------------------------------------------- R03.2
def _is_self_glyphorder(e):
    return is_self_attr(e, "glyphOrder")


def r032(prog, chk):
    ix = prog.ix
    classes = ix.subclasses(BASE_OUTLINE)
    stores = []
    for ci in classes:
        for m in ci.methods.values():
            for st, t, v in attr_stores(m, "glyphOrder"):
                if is_self_attr(t):
                    stores.append((m, st, v))
    need(stores, "no assignment of self.glyphOrder in the outline compilers")
    for m, st, v in stores:
        ok = m.name == "__init__" and isinstance(v, ast.Call) and A.callee_name(v) == "makeOfficialGlyphOrder"
        chk.ob("R03.2", key(m, st), ok and len(stores) == 1, where(m, st),
               detail="self.glyphOrder assigned once, in __init__, from makeOfficialGlyphOrder",
               message="self.glyphOrder is (re)assigned outside the single makeOfficialGlyphOrder call: tables can disagree on the order")
    # the method result must itself come from util.makeOfficialGlyphOrder over allGlyphs
    mm = ix.get_method(BASE_OUTLINE, "makeOfficialGlyphOrder")
    rets = A.returns_of(mm.node)
    ok = len(rets) == 1 and prog.is_call_to(mm, rets[0].value, "ufo2ft.util.makeOfficialGlyphOrder") \
        and rets[0].value.args and is_self_attr(rets[0].value.args[0], "allGlyphs")
    chk.ob("R03.2", key(mm, "delegates"), ok, where(mm), detail="method delegates to util.makeOfficialGlyphOrder(self.allGlyphs, ...)",
           message="BaseOutlineCompiler.makeOfficialGlyphOrder no longer orders self.allGlyphs through util.makeOfficialGlyphOrder")
    # ordered emissions
    n = 0
    for ci in classes:
        if ci.qname.endswith("InfoCompiler"):
            continue
        for m in ci.methods.values():
            for c in calls_named(m, "setGlyphOrder"):
                n += 1
                ok = len(c.args) == 1 and _is_self_glyphorder(c.args[0])
                chk.ob("R03.2", key(m, c), ok, where(m, c), detail="setGlyphOrder(self.glyphOrder)",
                       message="font glyph order is not set from self.glyphOrder")
            for st, t, v in attr_stores(m, "numGlyphs"):
                n += 1
                ok = isinstance(v, ast.Call) and A.callee_name(v) == "len" and v.args and _is_self_glyphorder(v.args[0])
                chk.ob("R03.2", key(m, st), ok, where(m, st), detail="numGlyphs = len(self.glyphOrder)",
                       message="maxp.numGlyphs is not the length of self.glyphOrder")
            for st, t, v in attr_stores(m, "glyphOrder"):
                if is_self_attr(t):
                    continue
                n += 1
                chk.ob("R03.2", key(m, st), _is_self_glyphorder(v), where(m, st), detail="table.glyphOrder = self.glyphOrder",
                       message="a table's glyphOrder is not self.glyphOrder")
            for st, t, v in attr_stores(m, "extraNames"):
                n += 1
                ok = isinstance(v, ast.ListComp) and len(v.generators) == 1 and _is_self_glyphorder(v.generators[0].iter) \
                    and isinstance(v.elt, ast.Name) and v.elt.id in A.target_names(v.generators[0].target)
                chk.ob("R03.2", key(m, st), ok, where(m, st), detail="post.extraNames derived from self.glyphOrder in order",
                       message="post.extraNames is not derived from self.glyphOrder")
    # per-glyph compile loops and the CFF charset loop iterate self.glyphOrder
    for cq, mname, sink in ((OTF_OUTLINE, "compileGlyphs", None), (TTF_OUTLINE, "compileGlyphs", None),
                            (OTF_OUTLINE, "setupTable_CFF", "charset")):
        m = ix.get_method(cq, mname, own=True)
        if sink is None:
            res = _returned_name(m)
            sites = [st for st, t, v in subscript_stores(m) if isinstance(t.value, ast.Name) and t.value.id == res]
        else:
            # the charset append and every other per-glyph append made in a loop
            sites = [c for c in calls_named(m, "append") if isinstance(c.func.value, ast.Attribute) and c.func.value.attr == sink]
            need(sites, f"cannot interpret {m.short}: charset emission not found")
            sites += [c for c in calls_named(m, "append") if c not in sites
                      and any(isinstance(a, ast.For) for a in prog.ix.ancestors(c))]
        need(sites, f"cannot interpret {m.short}: per-glyph emission not found")
        for s in sites:
            n += 1
            loops = [a for a in prog.ix.ancestors(s) if isinstance(a, ast.For)]
            ok = any(_is_self_glyphorder(l.iter) for l in loops)
            chk.ob("R03.2", key(m, s), ok, where(m, s), detail="emitted inside `for ... in self.glyphOrder`",
                   message="per-glyph data is emitted in an order other than self.glyphOrder")
    chk.minimum("R03.2", 12)


# ----------------------------------------------------------------------------- R03.3
def r033(prog, chk):
    ix = prog.ix
    init = ix.get_method(BASE_OUTLINE, "__init__", own=True)
    cfg = prog.cfg(init)
    calls = [c for c in calls_named(init, "makeMissingRequiredGlyphs") if is_self_attr(c.func)]
    stores = [st for st, t, v in attr_stores(init, "glyphOrder") if is_self_attr(t)]
    stores += [st for st, t, v in attr_stores(init, "allGlyphs") if is_self_attr(t)]
    need(calls and stores, "cannot interpret BaseOutlineCompiler.__init__")
    cn = cfg.node_of(calls[0])
    for st in stores:
        ok = cfg.dominates(cn, cfg.node_of(st)) and cn != cfg.node_of(st)
        chk.ob("R03.3", key(init, st), ok, where(init, st), detail="makeMissingRequiredGlyphs() dominates this assignment",
               message="the glyph order / glyph set is fixed before '.notdef' has been synthesised")
    # the glyph set passed must be the one stored as allGlyphs
    arg = calls[0].args[1] if len(calls[0].args) > 1 else None
    st_all = [v for st, t, v in attr_stores(init, "allGlyphs") if is_self_attr(t)]
    ok = arg is not None and st_all and ast.dump(arg) == ast.dump(st_all[0])
    chk.ob("R03.3", key(init, "same-glyphset"), ok, where(init, calls[0]), detail="same object receives .notdef and becomes allGlyphs",
           message="makeMissingRequiredGlyphs fills a different glyph set from the one compiled")
    for ci in ix.subclasses(BASE_OUTLINE):
        if "makeMissingRequiredGlyphs" not in ci.methods:
            continue
        m = ci.methods["makeMissingRequiredGlyphs"]
        if ci.qname == "ufo2ft.infoCompiler.InfoCompiler":
            chk.exempt("R03.3", m.short, "InfoCompiler compiles no glyphs (glyphSet={} and glyphOrder=[]); no-op override reviewed")
            continue
        mcfg = prog.cfg(m)
        params = m.params()
        gs = params[2] if len(params) > 2 else None
        need(gs is not None, f"cannot interpret {m.short}")
        # delegation to super counts as the store
        sup = [c for c in calls_named(m, "makeMissingRequiredGlyphs")
               if isinstance(c.func.value, ast.Call) and A.callee_name(c.func.value) == "super"]
        st_nodes = [mcfg.node_of(st) for st, t, v in subscript_stores(m)
                    if isinstance(t.value, ast.Name) and t.value.id == gs and A.is_const(t.slice, ".notdef")]
        st_nodes += [mcfg.node_of(c) for c in sup]
        guarded_returns = []
        for r in A.returns_of(m.node):
            g = [membership_guard(c, lambda e: A.is_const(e, ".notdef"), name_is(gs)) for c in conds(prog, m, r)]
            if True in g:
                guarded_returns.append(mcfg.node_of(r))
        exits = [e for e in mcfg.normal_exit_preds()]
        bad = mcfg.exists_path(mcfg.entry, [mcfg.exit], avoid=st_nodes + guarded_returns) and any(
            True for _ in [0])
        # exists_path treats raise edges as paths to exit too; exclude them
        if bad:
            raise_nodes = [mcfg.node_of(r) for r in A.raises_of(m.node)]
            bad = mcfg.exists_path(mcfg.entry, [mcfg.exit], avoid=st_nodes + guarded_returns + raise_nodes)
        chk.ob("R03.3", key(m, "all-paths-insert"), not bad, where(m),
               detail=f"every normal path stores glyphSet['.notdef'] (or returns because it exists); stores={len(st_nodes)}",
               message="a path through makeMissingRequiredGlyphs leaves the glyph set without '.notdef'")
    chk.minimum("R03.3", 5)


# ----------------------------------------------------------------------------- R03.4
def r034(prog, chk):
    fi = prog.ix.get_func("ufo2ft.util:makeOfficialGlyphOrder")
    cfg = prog.cfg(fi)
    order = _returned_name(fi)
    appends = [c for c in calls_named(fi, "append") if isinstance(c.func.value, ast.Name) and c.func.value.id == order]
    extends = [c for c in calls_named(fi, "extend") if isinstance(c.func.value, ast.Name) and c.func.value.id == order]
    inserts = [c for c in calls_named(fi, "insert") if isinstance(c.func.value, ast.Name) and c.func.value.id == order]
    loops = [n for n in A.body_nodes(fi.node) if isinstance(n, ast.For)]
    if inserts or not appends or not extends:
        raise AnalysisError(f"cannot interpret {fi.short} (shape-bound rule R03.4)")
    # element-wise extends (a generator / comprehension over the requested order) are adds like the loop's append:
    # they need the same "unused existing glyph, and used up afterwards" discipline, which a comprehension cannot give
    tails = [e for e in extends if isinstance(e.args[0], ast.Call) and A.callee_name(e.args[0]) == "sorted"]
    elementwise = [e for e in extends if e not in tails]
    for e in elementwise:
        chk.ob("R03.4", key(fi, e), False, where(fi, e),
               message=f"`{T(e, 70)}` adds names to the order without using them up in the set of remaining names: a name listed twice in the requested order is emitted twice "
                       f"(duplicate glyph, glyph count disagrees with the order)")
    if len(tails) != 1 or (len(loops) != 1 and not elementwise):
        raise AnalysisError(f"cannot interpret {fi.short} (shape-bound rule R03.4)")
    extends = tails
    if len(loops) != 1:
        chk.minimum("R03.4", 1)
        return
    loop = loops[0]
    # the remaining-names set: the variable tested by the guards
    sets = {d.name for n in A.body_nodes(fi.node) if isinstance(n, ast.Assign) and isinstance(n.value, ast.Call)
            and A.callee_name(n.value) == "set" for d in [type("x", (), {"name": A.target_names(n.targets[0])[0]})]}
    need(len(sets) >= 1, f"cannot interpret {fi.short}: remaining-names set not found")
    notdef_first = False
    for ap in appends:
        x = ap.args[0]
        g = conds(prog, fi, ap)
        in_loop = any(a is loop for a in prog.ix.ancestors(ap))
        has_guard = any(membership_guard(c, same_as(x), lambda e: isinstance(e, ast.Name) and e.id in sets) is True for c in g)
        # paired removal of the same key from the same set, in the same block
        blk_parent = prog.ix.parent(prog.ix.enclosing_stmt(ap))
        removal = False
        for fld in ("body", "orelse"):
            blk = getattr(blk_parent, fld, [])
            if prog.ix.enclosing_stmt(ap) in blk:
                for st in blk:
                    for c in A.calls_in(st):
                        if A.callee_name(c) in ("remove", "discard") and c.args and ast.dump(c.args[0]) == ast.dump(x) \
                                and isinstance(c.func.value, ast.Name) and c.func.value.id in sets:
                            removal = True
        ok = has_guard and removal
        chk.ob("R03.4", key(fi, ap), ok, where(fi, ap),
               detail=f"append guarded by membership in remaining names: {has_guard}; paired with removal: {removal}",
               message="a glyph name can be appended to the order without being an unused existing glyph (duplicate / unknown name)")
        if A.is_const(x, ".notdef") and not in_loop:
            # nothing can be appended before it
            others = [cfg.node_of(o) for o in appends + extends if o is not ap]
            an = cfg.node_of(ap)
            notdef_first = not any(cfg.exists_path(o, [an]) for o in others)
        elif in_loop:
            ok2 = isinstance(x, ast.Name) and x.id in A.target_names(loop.target)
            chk.ob("R03.4", key(fi, "loop-appends-loop-variable"), ok2, where(fi, ap),
                   detail="loop appends the requested name itself", message="the loop appends something other than the requested name")
    chk.ob("R03.4", key(fi, "notdef-first"), notdef_first, where(fi),
           detail="'.notdef' is appended before any other name", message="'.notdef' is not forced to glyph index 0")
    ex = extends[0]
    arg = ex.args[0]
    ok = isinstance(arg, ast.Call) and A.callee_name(arg) == "sorted" and len(arg.args) == 1 and not arg.keywords \
        and isinstance(arg.args[0], ast.Name) and arg.args[0].id in sets
    rets = cfg.return_nodes()
    ok_dom = all(cfg.dominates(cfg.node_of(ex), r) for r in rets) and not any(a is loop for a in prog.ix.ancestors(ex))
    chk.ob("R03.4", key(fi, ex), ok and ok_dom, where(fi, ex), detail="tail = sorted(remaining), executed on every path, after the loop",
           message="remaining glyphs are not appended sorted by name on every path")
    # loop iterates the requested order
    it = loop.iter
    ok = isinstance(it, ast.Name) and it.id in fi.params()
    chk.ob("R03.4", key(fi, "loop-iterates-requested-order"), ok, where(fi, loop), detail=f"for ... in {T(it)}",
           message="the loop no longer iterates the requested glyph order as given")
    chk.minimum("R03.4", 5)


# ----------------------------------------------------------------------------- R03.5 / R03.6
def _bound_filter(dc: ast.DictComp):
    """For {k: v for k, v in X.items() if k OP C} return (OPclass, C, X-expr)."""
    if not isinstance(dc, ast.DictComp) or len(dc.generators) != 1:
        return None
    g = dc.generators[0]
    if len(g.ifs) != 1:
        return None
    p = A.compare_parts(g.ifs[0])
    if p is None:
        return None
    l, op, r = p
    if not (isinstance(l, ast.Name) and isinstance(r, ast.Constant) and isinstance(r.value, int)):
        return None
    if not (isinstance(dc.key, ast.Name) and dc.key.id == l.id):
        return None
    return type(op), r.value, g.iter


class _Cmap:
    """Abstract 'which part of the code-point mapping does this dict hold':
    subsets of {LO (<= U+FFFF), HI (> U+FFFF)}."""

    def __init__(self, prog, fi):
        self.prog, self.fi = prog, fi
        self.cfg = prog.cfg(fi)
        self.hi_names = set()
        self.bounds = []

    def is_full_source(self, e) -> bool:
        return isinstance(e, ast.Attribute) and e.attr == "unicodeToGlyphNameMapping"

    def cov_expr(self, e, at, depth=0):
        """Returns list of (coverage frozenset, defining cfg node or None)."""
        if depth > 8:
            return [(None, None)]
        if self.is_full_source(e):
            return [(frozenset({"LO", "HI"}), None)]
        if isinstance(e, ast.DictComp):
            b = _bound_filter(e)
            if b is not None and (self.is_full_source(b[2].func.value) if isinstance(b[2], ast.Call) and isinstance(b[2].func, ast.Attribute) else False):
                op, c, _ = b
                self.bounds.append((op, c))
                if op in (ast.Gt, ast.GtE):
                    return [(frozenset({"HI"}), None)]
                if op in (ast.LtE, ast.Lt):
                    return [(frozenset({"LO"}), None)]
            if len(e.generators) == 1 and not e.generators[0].ifs and isinstance(e.generators[0].iter, ast.Call) \
                    and isinstance(e.generators[0].iter.func, ast.Attribute):
                return self.cov_expr(e.generators[0].iter.func.value, at, depth + 1)
            return [(None, None)]
        if isinstance(e, ast.Call) and A.callee_name(e) in ("dict", "OrderedDict") and len(e.args) == 1 and not e.keywords:
            return self.cov_expr(e.args[0], at, depth + 1)
        if isinstance(e, ast.Call) and A.callee_name(e) == "copy" and isinstance(e.func, ast.Attribute) and not e.args:
            return self.cov_expr(e.func.value, at, depth + 1)
        if isinstance(e, ast.Dict) and all(k is None for k in e.keys) and e.values:
            parts = [self.cov_expr(v, at, depth + 1) for v in e.values]
            out = [(frozenset(), None)]
            for alts in parts:
                out = [((a[0] | b[0]) if a[0] is not None and b[0] is not None else None, a[1] or b[1]) for a in out for b in alts]
            return out
        if isinstance(e, ast.BinOp) and isinstance(e.op, ast.BitOr):
            l, r = self.cov_expr(e.left, at, depth + 1), self.cov_expr(e.right, at, depth + 1)
            return [((a[0] | b[0]) if a[0] is not None and b[0] is not None else None, a[1] or b[1]) for a in l for b in r]
        if isinstance(e, ast.Name):
            out = []
            un = self.cfg.node_of(at)
            for d in self.prog.reaching(self.fi, e.id, at):
                v, how = d.element()
                if v is None or how is not None:
                    out.append((None, d.node))
                    continue
                if d.node >= 0 and un is not None and self.cfg.def_reaches_only_when_falsy(d, at):
                    continue  # can only arrive here as an empty dict
                for cov, _n in self.cov_expr(v, d.binder, depth + 1):
                    if cov is not None:
                        # X.update(Y) between the definition and the use, on every path
                        for c in calls_named(self.fi, "update"):
                            if isinstance(c.func.value, ast.Name) and c.func.value.id == e.id and len(c.args) == 1:
                                cn = self.cfg.node_of(c)
                                # every feasible path from the definition to the use performs the update
                                # (paths on which the dict is known to be empty cannot reach a use that
                                # is itself conditional on it being non-empty)
                                if cn is not None and cn != un and d.node >= 0 and not self.cfg.exists_path_edges(
                                        d.node, un, avoid_nodes=[cn], forbidden_edges=self.cfg.falsy_edges(e.id)):
                                    for c2, _ in self.cov_expr(c.args[0], c, depth + 1):
                                        cov = cov | c2 if c2 is not None else None
                        if cov == frozenset({"HI"}):
                            self.hi_names.add(e.id)
                    out.append((cov, d.node))
            return out or [(None, None)]
        return [(None, None)]


def r035(prog, chk):
    fi = prog.ix.get_method(BASE_OUTLINE, "setupTable_cmap", own=True)
    cm = _Cmap(prog, fi)
    cfg = cm.cfg
    # the name that holds the supplementary part decides which tables exist
    hi_defs = [n for n in A.body_nodes(fi.node) if isinstance(n, ast.Assign) and isinstance(n.value, ast.DictComp)
               and (_bound_filter(n.value) or (None,))[0] in (ast.Gt, ast.GtE) and isinstance(n.targets[0], ast.Name)]
    if len(hi_defs) != 1:
        raise AnalysisError(f"cannot interpret {fi.short}: expected one '> U+FFFF' partition of the mapping")
    hname = hi_defs[0].targets[0].id
    hop, hconst, _ = _bound_filter(hi_defs[0].value)
    lo = [(_bound_filter(n.value)) for n in A.body_nodes(fi.node) if isinstance(n, ast.Assign) and isinstance(n.value, ast.DictComp)
          and (_bound_filter(n.value) or (None,))[0] in (ast.LtE, ast.Lt)]
    need(lo, f"cannot interpret {fi.short}: no '<= U+FFFF' partition")
    lop, lconst, _ = lo[0]
    compl = (hop is ast.Gt and lop is ast.LtE) or (hop is ast.GtE and lop is ast.Lt)
    chk.ob("R03.5", key(fi, "partition"), compl and hconst == lconst and (hconst if hop is ast.Gt else hconst - 1) == 0xFFFF, where(fi, hi_defs[0]),
           detail=f"partition: k {hop.__name__} {hconst} / k {lop.__name__} {lconst} over the same mapping",
           message="the BMP / supplementary partition of the character map is not a complementary split at U+FFFF")
    falsy_hi = cfg.falsy_edges(hname)

    def only_when_no_hi(defnode, use) -> bool:
        """The definition reaches `use` only along paths on which the supplementary
        dict is empty (so a BMP-only or full dict are the same thing)."""
        un = cfg.node_of(use)
        if defnode is None or un is None:
            return False
        fs_def = [c for c in conds(prog, fi, cfg.nodes[defnode].ast) if isinstance(c.test, ast.Name) and c.test.id == hname]
        if fs_def and all(c.polarity is False for c in fs_def):
            return True
        # other definitions of the same local kill this one
        others = []
        a = cfg.nodes[defnode].ast
        if isinstance(a, ast.Assign):
            for nm in A.target_names(a.targets[0]):
                others += [d.node for d in cfg.defs_of(nm) if d.node != defnode and d.node >= 0]
        return not cfg.exists_path_edges(defnode, un, avoid_nodes=others, forbidden_edges=falsy_hi)

    objs = {}
    for n in A.body_nodes(fi.node):
        if isinstance(n, ast.Assign) and isinstance(n.value, ast.Call) and A.callee_name(n.value) in ("cmap_format_4", "cmap_format_12") \
                and isinstance(n.targets[0], ast.Name):
            objs[n.targets[0].id] = A.callee_name(n.value)
    n4 = n12 = 0
    for st, t, v in attr_stores(fi, "cmap"):
        if not (isinstance(t.value, ast.Name) and t.value.id in objs):
            continue
        fmt = objs[t.value.id]
        covs = cm.cov_expr(v, st)
        if fmt == "cmap_format_4":
            n4 += 1
            ok = all(c is not None and ("HI" not in c or only_when_no_hi(dn, st)) and "LO" in c for c, dn in covs)
            chk.ob("R03.5", key(fi, st), ok, where(fi, st), detail=f"16-bit subtable holds {[sorted(c) if c is not None else '?' for c, _ in covs]} (HI only when there is none)",
                   message="a 16-bit cmap subtable can receive code points above U+FFFF, or misses BMP mappings")
        else:
            n12 += 1
            ok = all(c == frozenset({"LO", "HI"}) for c, dn in covs)
            chk.ob("R03.5", key(fi, st), ok, where(fi, st), detail=f"32-bit subtable holds {[sorted(c) if c is not None else '?' for c, _ in covs]}",
                   message="a 32-bit cmap subtable does not contain every BMP and supplementary mapping")
            g = [c for c in conds(prog, fi, st) if isinstance(c.test, ast.Name) and c.test.id == hname and c.polarity is True]
            chk.ob("R03.5", key(fi, T(st) + "|guard"), bool(g), where(fi, st), detail="32-bit subtable only when something is above the BMP",
                   message="32-bit subtables are not conditional on the presence of supplementary code points")
    need(n4 >= 2 and n12 >= 2, f"cannot interpret {fi.short}: subtable assignments not found")
    chk.minimum("R03.5", 7)
    r036(prog, chk, cm, only_when_no_hi)


def r036(prog, chk, cm, only_when_no_hi):
    fi = cm.fi
    apps = [c for c in calls_named(fi, "append") if c.args and isinstance(c.args[0], ast.Tuple) and len(c.args[0].elts) == 2]
    need(len(apps) >= 2, f"cannot interpret {fi.short}: UVS tuples not found")
    seen_default = seen_nondefault = False
    for ap in apps:
        val, gl = ap.args[0].elts
        eqs = []
        for c in conds(prog, fi, ap):
            p = A.compare_parts(c.test)
            if p and isinstance(p[1], (ast.Eq, ast.NotEq)):
                sides = [p[0], p[2]]
                look = []
                for s_ in sides:
                    if isinstance(s_, ast.Subscript) and ast.dump(s_.slice) == ast.dump(val):
                        look.append((s_.value, True))
                    elif isinstance(s_, ast.Call) and A.callee_name(s_) == "get" and s_.args and ast.dump(s_.args[0]) == ast.dump(val):
                        look.append((s_.func.value, False))
                nm = [s_ for s_ in sides if isinstance(s_, ast.Name)]
                if look and nm:
                    equal = (isinstance(p[1], ast.Eq)) == (c.polarity is True)
                    eqs.append((equal, nm[0].id, look[0][0], c))
        if A.is_const(gl, None):
            ok = any(e for e, _n, _m, _c in eqs)
            seen_default = seen_default or ok
            chk.ob("R03.6", key(fi, ap), ok, where(fi, ap), detail="default UVS (value, None) only when glyph == base mapping[value]",
                   message="a variation sequence is encoded as default although it does not name the base mapping's glyph")
        else:
            ok = any((not e) and n == getattr(gl, "id", None) for e, n, _m, _c in eqs)
            seen_nondefault = seen_nondefault or ok
            chk.ob("R03.6", key(fi, ap), ok, where(fi, ap), detail="non-default UVS (value, glyph) only when glyph != base mapping[value]",
                   message="a variation sequence naming the base glyph is encoded as non-default (or with the wrong glyph)")
        # the mapping consulted must be the complete code-point mapping
        for e, n, mexpr, c in eqs[:1]:
            covs = cm.cov_expr(mexpr, c.loc)
            okc = all(cv is not None and "LO" in cv and ("HI" in cv or only_when_no_hi(dn, c.loc)) for cv, dn in covs)
            chk.ob("R03.6", f"{fi.short}|{A.keytext(fi.node, ap)}|complete base mapping", okc, where(fi, c.loc),
                   detail=f"base mapping consulted holds {[sorted(cv) if cv is not None else '?' for cv, _ in covs]}",
                   message="the default / non-default decision consults a dict that lacks part of the code-point mapping "
                           "(a sequence on a missing base is then always written as non-default)")
    chk.ob("R03.6", key(fi, "both-branches"), seen_default and seen_nondefault, where(fi), detail="both encodings present",
           message="one of the two UVS encodings is missing")
    chk.minimum("R03.6", 5)



# ----------------------------------------------------------------------------- R03.11
PRIMARY_CODEPOINT_READERS = {
    "PostProcessor._build_production_name": "a production name (uniXXXX) is derived from the glyph's primary code point, by design of the naming scheme",
}


def r0311(prog, chk):
    n = 0
    for fi in prog.ix.functions.values():
        if isinstance(fi.node, ast.Lambda):
            continue
        owner = fi
        while owner.parent is not None:
            owner = owner.parent
        for x in A.body_nodes(fi.node):
            if isinstance(x, ast.Attribute) and x.attr == "unicode" and isinstance(x.ctx, ast.Load) and T(x.value) != "self":
                n += 1
                ok = owner.short in PRIMARY_CODEPOINT_READERS
                if ok:
                    chk.exempt("R03.11", f"{fi.short}|{A.keytext(fi.node, prog.ix.enclosing_stmt(x))[:60]}", PRIMARY_CODEPOINT_READERS[owner.short])
                chk.ob("R03.11", f"{fi.short}|{A.keytext(fi.node, prog.ix.enclosing_stmt(x))[:60]}", ok, where(fi, x), detail=PRIMARY_CODEPOINT_READERS.get(owner.short, T(x)),
                       message=f"{fi.short} looks at `{T(x)}`, the first code point of a glyph only: a glyph that carries the code point in question as a secondary one is not "
                               f"recognised (the same code point is then claimed by a second glyph, or the glyph is treated as unencoded)")
    need(n >= 2, f"R03.11: reads of .unicode found: {n}")
    chk.minimum("R03.11", 2)

# ------------------------------------------------------------------- self-validation corpus
from ..selftest import M  # noqa: E402

# ----------------------------------------------------------------------------- R03.7
def r037(prog, chk):
    """Every declared code point of every glyph of the order reaches the mapping: the
    inner loop runs over glyph.unicodes as it is (no filter: U+0000 is a code point),
    the outer loop over the whole glyph order, and the only way out is the duplicate raise."""
    fi = prog.ix.get_func("ufo2ft.util:makeUnicodeToGlyphNameMapping")
    m = _returned_name(fi)
    stores = [(st, t, v) for st, t, v in subscript_stores(fi) if isinstance(t.value, ast.Name) and t.value.id == m]
    need(len(stores) == 1, f"cannot interpret {fi.short}")
    st, t, v = stores[0]
    loops = [a for a in prog.ix.ancestors(st) if isinstance(a, ast.For)]
    need(len(loops) == 2, f"cannot interpret {fi.short}: glyph loop / code point loop")
    inner, outer = loops
    ok, bad = every_origin(prog, fi, inner.iter, lambda x, f: isinstance(x, ast.Attribute) and x.attr == "unicodes", allow_const=False)
    okv = T(t.slice) in A.target_names(inner.target)
    chk.ob("R03.7", key(fi, "all-code-points"), ok and okv, where(fi, inner), detail=f"for uni in {T(inner.iter)}",
           message=f"the code points of a glyph are filtered / transformed before they are mapped ({bad}): a declared code point (e.g. U+0000) can be left out of the cmap")
    skips = [x for x in ast.walk(outer) if isinstance(x, (ast.Continue, ast.Break))]
    gname = A.target_names(outer.target)[0]
    okg = not skips and T(v) == gname
    ps = fi.params()
    oko = isinstance(outer.iter, ast.Name) and outer.iter.id == ps[1]
    chk.ob("R03.7", key(fi, "all-glyphs"), okg and oko, where(fi, outer), detail=f"for {gname} in {T(outer.iter)}: no continue / break",
           message="a glyph of the order can be skipped when the code-point mapping is built (or a code point is mapped to another glyph's name)")
    # consumers do not drop code points by truthiness either
    o = prog.ix.get_method(BASE_OUTLINE, "setupTable_OS2", own=True)
    u = [s_ for s_ in A.stmts_of(o.node) if isinstance(s_, ast.Assign) and isinstance(s_.value, ast.ListComp) and "unicodeToGlyphNameMapping" in T(s_.value)]
    oku = len(u) == 1 and len(u[0].value.generators[0].ifs) == 1 and isinstance(u[0].value.generators[0].ifs[0], ast.Compare) and isinstance(u[0].value.generators[0].ifs[0].ops[0], ast.IsNot)
    chk.ob("R03.7", key(o, "os2-code-points"), oku, where(o), detail=T(u[0].value, 80) if u else "", nontrivial=False,
           message="OS/2 first/last character index: code points are filtered by something other than `is not None`")
    # the working copy of a glyph declares exactly the code points of the source glyph
    cg = prog.ix.get_func("ufo2ft.util:_copyGlyph")
    src = cg.params()[0]
    us = [(s_, t_, v_) for s_, t_, v_ in attr_stores(cg, "unicodes")]
    need(len(us) == 1, f"cannot interpret {cg.short}: copy.unicodes")
    v_ = us[0][2]

    def whole_copy(e):
        if isinstance(e, ast.Call) and A.callee_name(e) in ("list", "tuple", "deepcopy", "copy") and len(e.args) == 1:
            return T(e.args[0]) == f"{src}.unicodes"
        if isinstance(e, ast.Subscript) and isinstance(e.slice, ast.Slice) and e.slice.lower is None and e.slice.upper is None and e.slice.step is None:
            return T(e.value) == f"{src}.unicodes"
        if isinstance(e, ast.ListComp) and len(e.generators) == 1 and not e.generators[0].ifs and T(e.elt) in A.target_names(e.generators[0].target):
            return T(e.generators[0].iter) == f"{src}.unicodes"
        return False
    chk.ob("R03.7", key(cg, "copy declares all code points"), whole_copy(v_) and not [g for g in may_conds(prog, cg, us[0][0]) if g.kind in ("if", "boolop")], where(cg, us[0][0]), detail=T(us[0][0], 70),
           message=f"{cg.short}: the working copy of a glyph does not get every code point of the source glyph (`{T(v_, 60)}`): a declared code point (e.g. U+0000) never reaches the cmap")
    chk.minimum("R03.7", 4)



# ----------------------------------------------------------------------------- R03.8
def r038(prog, chk):
    """The order a source is compiled with is the caller's glyphOrder argument or, when there is none, that source's
    own public.glyphOrder: the compilers never fill in or override their glyphOrder option themselves."""
    ix = prog.ix
    base = ix.get_class("ufo2ft._compilers.baseCompiler.BaseCompiler")
    ok = "glyphOrder" in base.attrs and A.is_const(base.attrs["glyphOrder"], None)
    chk.ob("R03.8", "BaseCompiler.glyphOrder|option defaults to None (= each source's own order)", ok, base.module.relpath, detail="glyphOrder: Optional[list] = None",
           message="the compilers' glyphOrder option no longer defaults to None")
    oi = ix.get_method(BASE_OUTLINE, "__init__", own=True)
    fb = [st for st in A.stmts_of(oi.node) if isinstance(st, ast.Assign) and T(st.targets[0]) == "glyphOrder"]
    okf = len(fb) == 1 and T(fb[0].value).endswith(".glyphOrder") and any(o == "is" and l == "glyphOrder" and r == "None" for o, l, r in facts(prog, oi, fb[0])) \
        and isinstance(fb[0].value, ast.Attribute) and T(fb[0].value.value) == oi.params()[1]
    chk.ob("R03.8", f"{oi.short}|a missing order falls back to the compiled font's own glyphOrder", okf, where(oi, fb[0]) if fb else where(oi), detail="if glyphOrder is None: glyphOrder = font.glyphOrder",
           message=f"{oi.short}: without an explicit order the outline compiler no longer takes the order of the font it compiles")
    n = 0
    for fi in ix.functions.values():
        if not fi.module.name.startswith("ufo2ft._compilers") and fi.module.name != "ufo2ft":
            continue
        for st, t, v in attr_stores(fi, "glyphOrder"):
            n += 1
            chk.ob("R03.8", f"{fi.short}|{A.keytext(fi.node, st)}|compilers do not assign their glyphOrder option", False, where(fi, st), detail=T(st, 80),
                   message=f"{fi.short} assigns `{T(t)}`: every source (every master) is then ordered by this value instead of the caller's argument / its own public.glyphOrder")
        for st, t, v in subscript_stores(fi):
            if A.is_const(t.slice, "glyphOrder"):
                n += 1
                chk.ob("R03.8", f"{fi.short}|{A.keytext(fi.node, st)}|compilers do not override the glyphOrder handed to the outline compiler", False, where(fi, st), detail=T(st, 80),
                       message=f"{fi.short} overrides the glyphOrder keyword of the outline compiler")
        for c in A.body_nodes(fi.node):
            if isinstance(c, ast.Call) and isinstance(c.func, ast.Attribute) and c.func.attr == "outlineCompilerClass":
                n += 1
                kw = A.kwarg(c, "glyphOrder")
                chk.ob("R03.8", f"{fi.short}|outline compiler built from the compiler's own options", kw is None or T(kw) == "self.glyphOrder", where(fi, c), detail=T(c, 80),
                       message=f"{fi.short}: the outline compiler receives glyphOrder={T(kw) if kw is not None else ''} instead of the compiler's option")
    chk.minimum("R03.8", 6)



# ----------------------------------------------------------------------------- R03.9
def r039(prog, chk):
    """A glyph that a filter takes from somewhere else (another layer, another glyph set) and inserts into the working glyph
    set under a new name has its code points removed before it gets there: otherwise the copy becomes an encoded glyph
    and the cmap maps a code point to a glyph no source glyph of that name declares (or the compile stops with a
    duplicate-code-point error)."""
    ix = prog.ix
    from .c14 import _glyphset_expr
    n = 0
    for fi in ix.functions.values():
        if not fi.module.name.startswith("ufo2ft.filters"):
            continue
        cfg = None
        for st, t, v in subscript_stores(fi):
            if not (isinstance(v, ast.Name) and _glyphset_expr(prog, fi, t.value)):
                continue
            ds = prog.reaching(fi, v.id, v)
            borrowed = [d for d in ds if isinstance(d.value, ast.Subscript) or (isinstance(d.value, ast.Call) and A.callee_name(d.value) == "get")]
            if not borrowed:
                continue
            # same key as it was fetched with: the glyph is put back, not added under a new name
            if all(isinstance(d.value, ast.Subscript) and T(d.value.slice) == T(t.slice) for d in borrowed):
                continue
            n += 1
            cfg = cfg or prog.cfg(fi)
            clears = [s_ for s_, t_, v_ in attr_stores(fi, "unicodes") if T(t_.value) == v.id and isinstance(v_, (ast.List, ast.Tuple)) and not v_.elts]
            ok = any(cfg.dominates(cfg.node_of(c_), cfg.node_of(st)) for c_ in clears)
            chk.ob("R03.9", f"{fi.short}|{A.keytext(fi.node, st)}|a glyph added under a new name carries no code points", ok, where(fi, st), detail=f"{v.id}.unicodes = [] before the insertion",
                   message=f"{fi.short}: `{T(st, 60)}` adds a glyph taken from another layer / glyph set under a new name without clearing its code points on every path: the copy is "
                           f"encoded in the cmap (or clashes with the glyph it was copied from)")
    need(n >= 1, "no filter adds a borrowed glyph under a new name any more (R03.9 has nothing to check)")
    chk.minimum("R03.9", 1)


MUTANTS = [
    M("BMP / supplementary partition built by one loop", "ufo2ft/outlineCompiler.py", "BaseOutlineCompiler.setupTable_cmap",
      "nonBMP = {k: v for k, v in self.unicodeToGlyphNameMapping.items() if k > 65535}\nif nonBMP:\n    mapping = {k: v for k, v in self.unicodeToGlyphNameMapping.items() if k <= 65535}\nelse:\n    mapping = dict(self.unicodeToGlyphNameMapping)",
      "mapping, nonBMP = {}, {}\nfor k, v in self.unicodeToGlyphNameMapping.items():\n    if k > 65535:\n        nonBMP[k] = v\n    else:\n        mapping[k] = v", kind="equiv"),
    M("loop-built partition, format 12 gets a fresh dict and the UVS decision still consults the supplementary part only (seeded C03o)", "ufo2ft/outlineCompiler.py", "BaseOutlineCompiler.setupTable_cmap",
      "nonBMP.update(mapping)", "fullMapping = {**mapping, **nonBMP}", rule="R03.6",
      also=(("ufo2ft/outlineCompiler.py", "BaseOutlineCompiler.setupTable_cmap", "cmap12_0_4.cmap = nonBMP", "cmap12_0_4.cmap = fullMapping"),
            ("ufo2ft/outlineCompiler.py", "BaseOutlineCompiler.setupTable_cmap", "cmap12_3_10.cmap = nonBMP", "cmap12_3_10.cmap = fullMapping"),
            ("ufo2ft/outlineCompiler.py", "BaseOutlineCompiler.setupTable_cmap", "glyphName == mapping[value]", "glyphName == mapping.get(value)"))),
    M("existing dotted circle searched by primary code point only (seeded C03j)", "ufo2ft/filters/dottedCircle.py", "DottedCircleFilter.check_dotted_circle",
      "9676 in g.unicodes", "g.unicode == 9676", rule="R03.11"),
    M("kept names reserved only when the loop reaches them (seeded C03h)", "ufo2ft/postProcessor.py", "PostProcessor._build_production_names",
      "seen = {name: 1 for name in glyphOrder if name not in self.glyphSet}", "seen = {}", rule="R03.10"),
    M("glyph copies drop U+0000 (seeded C03g)", "ufo2ft/util.py", "_copyGlyph",
      "list(glyph.unicodes)", "[u for u in glyph.unicodes if 0 < u <= 0x10FFFF]", rule="R03.7"),
    M("recursive colour-layer copies keep their code points (seeded C03f)", "ufo2ft/filters/explodeColorLayerGlyphs.py", "ExplodeColorLayerGlyphsFilter._copyGlyph",
      "layerGlyph.unicodes = []", "pass", rule="R03.9"),
    M("designspace compiles order every master like the default source (seeded C03e)", "ufo2ft/_compilers/baseCompiler.py", "BaseInterpolatableCompiler._pre_compile_designspace",
      "self.extraSubstitutions = defaultdict(set)", "if self.glyphOrder is None:\n    self.glyphOrder = designSpaceDoc.findDefault().font.glyphOrder\nself.extraSubstitutions = defaultdict(set)", rule="R03.8"),
    M("interpolatable TTF masters ordered by the first master", "ufo2ft/_compilers/interpolatableTTFCompiler.py", "InterpolatableTTFCompiler.compileOutlines",
      "kwargs['roundCoordinates'] = False", "kwargs['roundCoordinates'] = False\nkwargs['glyphOrder'] = sorted(glyphSet.keys())", rule="R03.8"),
    M("falsy code points (U+0000) dropped from the mapping (seeded C03d)", "ufo2ft/util.py", "makeUnicodeToGlyphNameMapping",
      "unicodes = glyph.unicodes", "unicodes = filter(None, glyph.unicodes)", rule="R03.7"),
    M("only the first code point of a glyph is mapped", "ufo2ft/util.py", "makeUnicodeToGlyphNameMapping",
      "unicodes = glyph.unicodes", "unicodes = glyph.unicodes[:1]", rule="R03.7"),
    M("requested order copied with a comprehension: repeated names emitted twice (seeded C03c)", "ufo2ft/util.py", "makeOfficialGlyphOrder",
      "for name in glyphOrder:\n    if name not in names:\n        continue\n    names.remove(name)\n    order.append(name)\norder.extend(sorted(names))",
      "order.extend((name for name in glyphOrder if name in names))\norder.extend(sorted(names.difference(order)))", rule="R03.4"),
    M("duplicate code point: later glyph silently wins", "ufo2ft/util.py", "makeUnicodeToGlyphNameMapping",
      "if uni not in mapping:\n    mapping[uni] = glyphName\nelse:\n    raise InvalidFontData(\"cannot map '%s' to U+%04X; already mapped to '%s'\" % (glyphName, uni, mapping[uni]))",
      "mapping[uni] = glyphName", rule="R03.1"),
    M("duplicate code point: first glyph silently wins", "ufo2ft/util.py", "makeUnicodeToGlyphNameMapping",
      "raise InvalidFontData(\"cannot map '%s' to U+%04X; already mapped to '%s'\" % (glyphName, uni, mapping[uni]))",
      "pass", rule="R03.1"),
    M("compile() wraps the outline stage in a catch-all that logs and continues", "ufo2ft/outlineCompiler.py", "BaseOutlineCompiler.__init__",
      "self.unicodeToGlyphNameMapping = self.makeUnicodeToGlyphNameMapping()",
      "try:\n    self.unicodeToGlyphNameMapping = self.makeUnicodeToGlyphNameMapping()\nexcept Exception:\n    self.unicodeToGlyphNameMapping = {}",
      rule="R03.1e"),
    M("TTF maxp counts the glyph set instead of the glyph order", "ufo2ft/outlineCompiler.py", "OutlineTTFCompiler.setupTable_maxp",
      "maxp.numGlyphs = len(self.glyphOrder)", "maxp.numGlyphs = len(self.allGlyphs)", rule="R03.2"),
    M("CFF charset emitted in glyph-set order", "ufo2ft/outlineCompiler.py", "OutlineOTFCompiler.setupTable_CFF",
      "self.glyphOrder", "list(self.allGlyphs)", rule="R03.2"),
    M("glyph order computed before .notdef is synthesised", "ufo2ft/outlineCompiler.py", "BaseOutlineCompiler.__init__",
      "self.makeMissingRequiredGlyphs(font, glyphSet, self.sfntVersion, notdefGlyph)\nself.allGlyphs = glyphSet\nif glyphOrder is None:\n    glyphOrder = font.glyphOrder\nself.glyphOrder = self.makeOfficialGlyphOrder(glyphOrder)",
      "self.allGlyphs = glyphSet\nif glyphOrder is None:\n    glyphOrder = font.glyphOrder\nself.glyphOrder = self.makeOfficialGlyphOrder(glyphOrder)\nself.makeMissingRequiredGlyphs(font, glyphSet, self.sfntVersion, notdefGlyph)",
      rule="R03.3"),
    M("custom notdefGlyph path forgets to insert it", "ufo2ft/outlineCompiler.py", "BaseOutlineCompiler.makeMissingRequiredGlyphs",
      "notdefGlyph = _copyGlyph(notdefGlyph, reverseContour=reverseContour)",
      "notdefGlyph = _copyGlyph(notdefGlyph, reverseContour=reverseContour)\nreturn", rule="R03.3"),
    M("duplicate names in glyphOrder are appended twice", "ufo2ft/util.py", "makeOfficialGlyphOrder",
      "if name not in names:\n    continue\nnames.remove(name)\norder.append(name)",
      "if name not in font:\n    continue\nnames.discard(name)\norder.append(name)", rule="R03.4"),
    M("remaining glyphs appended unsorted", "ufo2ft/util.py", "makeOfficialGlyphOrder",
      "order.extend(sorted(names))", "order.extend(names)", rule="R03.4"),
    M(".notdef kept where glyphOrder lists it", "ufo2ft/util.py", "makeOfficialGlyphOrder",
      "if '.notdef' in names:\n    names.remove('.notdef')\n    order.append('.notdef')", "pass", rule="R03.4"),
    M("U+FFFF treated as supplementary", "ufo2ft/outlineCompiler.py", "BaseOutlineCompiler.setupTable_cmap",
      "k > 65535", "k >= 65535", rule="R03.5"),
    M("format 12 subtables lack the BMP mappings", "ufo2ft/outlineCompiler.py", "BaseOutlineCompiler.setupTable_cmap",
      "nonBMP.update(mapping)", "pass", rule="R03.5"),
    M("format 4 subtable receives the full mapping", "ufo2ft/outlineCompiler.py", "BaseOutlineCompiler.setupTable_cmap",
      "cmap4_3_1.cmap = mapping", "cmap4_3_1.cmap = dict(self.unicodeToGlyphNameMapping)", rule="R03.5"),
    M("UVS decision consults the supplementary-only dict (two cooperating edits, cf. seeded/C03a)", "ufo2ft/outlineCompiler.py", "BaseOutlineCompiler.setupTable_cmap",
      "nonBMP.update(mapping)\ncmap12_0_4 = cmap_format_12(12)", "cmap12_0_4 = cmap_format_12(12)\nnonBMP12 = {**mapping, **nonBMP}", rule="R03"),
    M("UVS default/non-default inverted", "ufo2ft/outlineCompiler.py", "BaseOutlineCompiler.setupTable_cmap",
      "glyphName == mapping[value]", "glyphName != mapping[value]", rule="R03.6"),
    # equivalent edits
    M("early-raise form of the duplicate check", "ufo2ft/util.py", "makeUnicodeToGlyphNameMapping",
      "if uni not in mapping:\n    mapping[uni] = glyphName\nelse:\n    raise InvalidFontData(\"cannot map '%s' to U+%04X; already mapped to '%s'\" % (glyphName, uni, mapping[uni]))",
      "if uni in mapping:\n    raise InvalidFontData('duplicate')\nmapping[uni] = glyphName", kind="equiv"),
    M("discard instead of remove", "ufo2ft/util.py", "makeOfficialGlyphOrder",
      "names.remove(name)", "names.discard(name)", kind="equiv"),
    M("each cmap subtable gets its own dict", "ufo2ft/outlineCompiler.py", "BaseOutlineCompiler.setupTable_cmap",
      "cmap4_0_3.cmap = mapping", "cmap4_0_3.cmap = dict(mapping)", kind="equiv"),
    M("32-bit mapping built by merging instead of update", "ufo2ft/outlineCompiler.py", "BaseOutlineCompiler.setupTable_cmap",
      "nonBMP.update(mapping)", "nonBMP = {**mapping, **nonBMP}", kind="equiv"),
    M("membership test inverted with nested if", "ufo2ft/util.py", "makeOfficialGlyphOrder",
      "if name not in names:\n    continue\nnames.remove(name)\norder.append(name)",
      "if name in names:\n    names.remove(name)\n    order.append(name)", kind="equiv"),
]
