"""C18 - GDEF classes, ligature carets and cursive anchors mirror the UFO data (structural clauses)."""

from __future__ import annotations

import ast

from ..core import astutil as A
from ..core.index import AnalysisError, external_module, external_signature
from ..selftest import M
from .common import may_conds, attr_stores, T, calls_named, conds, every_origin, facts, key, need, subscript_stores, where

GDEF = "ufo2ft.featureWriters.gdefFeatureWriter.GdefFeatureWriter"
CURS = "ufo2ft.featureWriters.cursFeatureWriter.CursFeatureWriter"
GDEFW_MOD = "ufo2ft.featureWriters.gdefFeatureWriter"
CURS_MOD = "ufo2ft.featureWriters.cursFeatureWriter"


def run(prog, chk):
    chk.decided += [
        "GlyphClassDefStatement receives base / mark / ligature / component categories in the slots fontTools names that way; CursivePosStatement receives (glyph, entry anchor, exit anchor) (R18.1)",
        "a user GDEF block suppresses generated classes for GlyphClassDefStatement and generated carets for every LigatureCaret*Statement kind feaLib defines (R18.2)",
        "carets are collected per glyph, sorted, then rounded; glyph classes are restricted to exported glyphs and sorted (R18.3)",
        "RightToLeft flag is set exactly when direction != 'LTR'; .LTR/.RTL suffixes decide the direction before that test; the LTR/RTL split is by membership in the LTR glyph set and skipped for suffixed anchors; coordinates are rounded (R18.4)",
        "no caret / cursive anchor coordinate is dropped or defaulted by a truthiness test: 0 is a legitimate coordinate (R18.6)",
        "the LTR glyph set is classifyGlyphs(unicodeScriptDirection, whole cmap, compiled GSUB, designspace-rule substitutions) and classifyGlyphs closes each class together with the neutral glyphs (R18.5)",
    ]
    chk.decided += ["whether the UFO defines glyph categories at all is decided on public.openTypeCategories as stored: getOpenTypeCategories hands out what OpenTypeCategories.load read, the "
                    "restriction to exported glyphs comes after that decision (a map that only names non-exported glyphs still means 'categories are defined': no guessing from anchors) (R18.7)"]
    chk.decided += ["variable cursive / caret anchors: every source that has the anchor contributes its own value at its own location - a master whose anchor happens to equal the default's is still "
                    "pinned (R18.8 = R10.2)"]
    chk.decided += ["feature-writer objects keep no per-font state outside self.context (no memoising decorators, no attributes written outside __init__): a GDEF / curs writer object reused for a second font must not keep the first font's categories (R18.9 = R08.7)"]
    chk.decided += ["the GSUB over which the direction sets are closed is the one feaLib builds from the writer's whole feature file (or that table from the per-compiler cache): compileGSUB has no other answer (R18.10)"]
    chk.decided += ["classifyGlyphs closes the neutral set over GSUB before taking it out of each class closure (R18.11 = R05.15)"]
    chk.not_decided += ["the values read back from the compiled GDEF/GPOS", "script direction data (unicodedata)"]
    chk.guard(r181, prog, chk)
    chk.guard(r182, prog, chk)
    chk.guard(r183, prog, chk)
    chk.guard(r184, prog, chk)
    chk.guard(r185, prog, chk)
    chk.guard(r187, prog, chk)
    from .c10 import r102
    chk.guard(r102, prog, chk, "R18.8")
    from .c08 import r087
    chk.guard(r087, prog, chk, "R18.9")
    chk.guard(r1810, prog, chk)
    chk.guard(check_neutral_closure, prog, chk, "R18.11")
    from .rounding import check_no_truthiness_on_coordinates
    n = check_no_truthiness_on_coordinates(prog, chk, "R18.6", [GDEFW_MOD, CURS_MOD, "ufo2ft.featureWriters.baseFeatureWriter"])
    need(n >= 20, "truthiness scan found too few tests")


def r181(prog, chk):
    ix = prog.ix
    w = ix.get_method(GDEF, "_write", own=True)
    sig = external_signature("fontTools.feaLib.ast", "GlyphClassDefStatement", "__init__")
    roles = [p for p in sig if p.endswith("Glyphs")]
    need(len(roles) == 4, f"unexpected fontTools GlyphClassDefStatement signature {sig}")
    calls = calls_named(w, "GlyphClassDefStatement")
    need(calls, "GlyphClassDefStatement construction not found")
    for c in calls:
        bound = {}
        for i, a in enumerate(c.args):
            if i < len(sig):
                bound[sig[i]] = a
        for kw in c.keywords:
            bound[kw.arg] = kw.value
        for r in roles:
            role = r[:-len("Glyphs")]
            a = bound.get(r)
            attrs = {n.attr for n in ast.walk(a) if isinstance(n, ast.Attribute)} if a is not None else set()
            ok = a is not None and role in attrs and not (attrs & ({x[:-6] for x in roles} - {role}))
            chk.ob("R18.1", f"{w.short}|GlyphClassDef.{r}", ok, where(w, c), detail=f"{r} <- {T(a, 60) if a is not None else None}",
                   message=f"GDEF GlyphClassDef slot '{r}' does not receive the '{role}' category (fontTools order: {roles})")
    # OpenTypeCategories.load returns the sets in the field order of the NamedTuple
    oc = ix.get_class("ufo2ft.util.OpenTypeCategories")
    fields = list(oc.annotations)
    load = oc.methods["load"]
    allret = [r for r in A.returns_of(load.node)]
    # every returned value is a freshly built cls(...) from the font's current lib (no remembered result)
    fresh = []
    for r in allret:
        v = r.value
        if isinstance(v, ast.Name):
            ds = prog.reaching(load, v.id, v)
            v = ds[0].value if len(ds) == 1 else None
        okr = isinstance(v, ast.Call) and isinstance(v.func, ast.Name) and v.func.id == load.params()[0]
        if okr:
            fresh.append(v)
        chk.ob("R18.1", f"{load.short}|{A.keytext(load.node, r)[:50]}|categories are parsed from the font's lib on every call", okr, where(load, r), detail="return cls(...)", nontrivial=False,
               message=f"{load.short} can return something that was not built from the font's current public.openTypeCategories in this call (`{T(r, 50)}`): a remembered result is stale "
                       f"when the lib entry is edited in place (the DottedCircle filter does that)")
    need(fresh, "cannot interpret OpenTypeCategories.load")
    ret = [type("R", (), {"value": fresh[0]})()]
    # map category string -> set name
    cat_to_set = {}
    for n in A.body_nodes(load.node):
        if isinstance(n, ast.Call) and A.callee_name(n) == "add" and isinstance(n.func.value, ast.Name):
            for c in conds(prog, load, n):
                p = A.compare_parts(c.test)
                if p and isinstance(p[1], ast.Eq) and isinstance(p[2], ast.Constant) and c.polarity is True:
                    cat_to_set[p[2].value] = n.func.value.id
    for i, fld in enumerate(fields):
        arg = ret[0].value.args[i] if i < len(ret[0].value.args) else None
        nm = next((x.id for x in ast.walk(arg) if isinstance(x, ast.Name) and x.id != "frozenset"), None) if arg is not None else None
        ok = cat_to_set.get(fld) == nm and nm is not None
        chk.ob("R18.1", f"OpenTypeCategories.{fld}", ok, where(load), detail=f"category '{fld}' collected into {cat_to_set.get(fld)} and returned in slot {i} ({nm})",
               message=f"OpenTypeCategories.load returns the wrong set in the '{fld}' slot")
    # cursive
    cw = ix.get_class(CURS)
    ga = cw.methods["_getAnchors"]
    rets = [r for r in A.returns_of(ga.node) if isinstance(r.value, ast.Tuple) and len(r.value.elts) == 2]
    need(rets, "cannot interpret CursFeatureWriter._getAnchors")
    params = ga.params()
    for r in rets:
        for i, e in enumerate(r.value.elts):
            want = params[2 + i]

            def built_from(x, f, _want=want):
                if isinstance(x, ast.Call) and A.callee_name(x) == "Anchor":
                    srcs = set()
                    for kw in x.keywords:
                        for nm in [n for n in ast.walk(kw.value) if isinstance(n, ast.Name)]:
                            for d in prog.reaching(f, nm.id, nm):
                                v, how = d.element()
                                if isinstance(v, ast.Call) and A.callee_name(v) == "_getAnchor" and len(v.args) >= 2:
                                    srcs.add(T(v.args[1]))
                    return srcs == {_want}
                return False
            ok, bad = every_origin(prog, ga, e, built_from)
            chk.ob("R18.1", f"{ga.short}|returned slot {i} is the {'entry' if i == 0 else 'exit'} anchor", ok, where(ga, r),
                   detail=f"slot {i} built from _getAnchor(glyph, {want})", message=f"_getAnchors returns the wrong anchor in slot {i}: {bad}")
    sig = external_signature("fontTools.feaLib.ast", "CursivePosStatement", "__init__")
    ok_sig = sig[:3] == ["glyphclass", "entryAnchor", "exitAnchor"]
    ms = cw.methods["_makeCursiveStatements"]
    cs = calls_named(ms, "CursivePosStatement")
    need(cs, "CursivePosStatement construction not found")
    for c in cs:
        star = [a for a in c.args if isinstance(a, ast.Starred)]
        ok = ok_sig and len(c.args) == 2 and len(star) == 1
        if ok:
            # the starred tuple is what _getAnchors returned, in the same order
            tup_ok = False
            for st, t, v in subscript_stores(ms):
                if isinstance(v, ast.Tuple) and len(v.elts) == 2:
                    names = [T(e) for e in v.elts]
                    for st2 in A.stmts_of(ms.node):
                        if isinstance(st2, ast.Assign) and isinstance(st2.targets[0], ast.Tuple) and isinstance(st2.value, ast.Call) \
                                and A.callee_name(st2.value) == "_getAnchors" and [T(e) for e in st2.targets[0].elts] == names:
                            a = st2.value.args
                            mp = ms.params()
                            tup_ok = len(a) == 3 and T(a[1]) == mp[2] and T(a[2]) == mp[3]
            ok = tup_ok
        chk.ob("R18.1", f"{ms.short}|CursivePosStatement(glyph, entry, exit)", ok, where(ms, c), detail=f"fontTools signature {sig[:3]}",
               message="CursivePosStatement does not receive (glyph, entry anchor, exit anchor) in that order")
    gp = cw.methods["_getCursiveAnchorPairs"]
    for c in calls_named(gp, "append"):
        if c.args and isinstance(c.args[0], ast.Tuple) and len(c.args[0].elts) == 2:
            a, b = c.args[0].elts
            ok = ("entry" in T(a) or _derives_entry(prog, gp, a)) and "exit" in T(b)
            chk.ob("R18.1", f"{gp.short}|{A.keytext(gp.node, c)}", ok, where(gp, c), detail="(entry name, exit name)",
                   message="cursive anchor pair is not (entry, exit)")
    chk.minimum("R18.1", 12)


def _derives_entry(prog, fi, e) -> bool:
    if isinstance(e, ast.Name):
        for c in conds(prog, fi, e):
            if "startswith('entry.')" in T(c.test) and c.polarity is True:
                return True
    return False


def r182(prog, chk):
    ix = prog.ix
    sc = ix.get_method(GDEF, "setContext", own=True)
    tree = external_module("fontTools.feaLib.ast")
    caret_classes = sorted(n.name for n in tree.body if isinstance(n, ast.ClassDef) and n.name.startswith("LigatureCaret") and n.name.endswith("Statement"))
    need(len(caret_classes) >= 2, "feaLib LigatureCaret*Statement classes not found")
    want = {"GlyphClassDefs": ["GlyphClassDefStatement"], "LigatureCarets": caret_classes}
    from .common import reached_under
    all_classes = sorted({c for v in want.values() for c in v})

    def atomize(e):
        if isinstance(e, ast.Call) and A.callee_name(e) == "isinstance" and len(e.args) == 2:
            cl = e.args[1].elts if isinstance(e.args[1], ast.Tuple) else [e.args[1]]
            names = [x.attr if isinstance(x, ast.Attribute) else getattr(x, "id", "") for x in cl]
            if len(names) == 1:
                return (("isa", names[0]), True)
            return None
        return None

    def expand(test):
        """isinstance(x, (A, B)) -> isinstance(x, A) or isinstance(x, B)"""
        class R(ast.NodeTransformer):
            def visit_Call(self, n):
                self.generic_visit(n)
                if A.callee_name(n) == "isinstance" and len(n.args) == 2 and isinstance(n.args[1], ast.Tuple):
                    return ast.BoolOp(op=ast.Or(), values=[ast.Call(func=n.func, args=[n.args[0], e], keywords=[]) for e in n.args[1].elts])
                return n
        import copy
        return ast.fix_missing_locations(R().visit(copy.deepcopy(test)))

    from ..core.cfg import Cond
    found = {k: set() for k in want}
    for item, classes in want.items():
        sites = [c for c in calls_named(sc, "discard", "remove") if c.args and isinstance(c.args[0], ast.Constant) and c.args[0].value == item]
        # only the sites inside the scan over the user's GDEF statements
        sites = [c for c in sites if any(isinstance(a, ast.For) for a in prog.ix.ancestors(c))]
        for cn in classes:
            ok = False
            for c in sites:
                gs = [Cond(expand(g.test), g.polarity, g.kind) for g in conds(prog, sc, c) if g.polarity in (True, False)
                      and any(isinstance(n, ast.Call) and A.callee_name(n) == "isinstance" for n in ast.walk(g.test))]
                premise = {("isa", x): (x == cn) for x in all_classes}
                if gs and reached_under(gs, atomize, premise):
                    ok = True
            if ok:
                found[item].add(cn)
    for item, classes in want.items():
        for cn in classes:
            chk.ob("R18.2", f"{item} suppressed by user {cn}", cn in found[item], where(sc),
                   detail=f"statement kinds that clear '{item}': {sorted(found[item])}",
                   message=f"a user GDEF block containing a {cn} does not stop the writer from generating {item} (duplicate / conflicting GDEF data)")
    # the scan looks at the user's GDEF table block
    ok = any(A.callee_name(c) == "findTable" and c.args[-1:] and A.is_const(c.args[-1], "GDEF") for c in A.calls_in(sc.node))
    chk.ob("R18.2", f"{sc.short}|scans the user GDEF block", ok, where(sc), detail="ast.findTable(feaFile, 'GDEF')",
           message="GdefFeatureWriter.setContext no longer inspects the user's GDEF table")
    # _write only emits what is still in todo
    w = ix.get_method(GDEF, "_write", own=True)
    for cname, item in (("GlyphClassDefStatement", "GlyphClassDefs"), ("LigatureCaretByPosStatement", "LigatureCarets")):
        for c in calls_named(w, cname):
            fs = facts(prog, w, c)
            ok = any(o == "in" and item in l and "todo" in r for o, l, r in fs)
            chk.ob("R18.2", f"{w.short}|{cname} only when '{item}' in todo", ok, where(w, c), detail="generation gated by todo",
                   message=f"{cname} is generated even when '{item}' was removed from todo")
    chk.minimum("R18.2", 6)


def r183(prog, chk):
    ix = prog.ix
    gl = ix.get_method(GDEF, "_getLigatureCarets", own=True)
    rets = {T(r.value) for r in A.returns_of(gl.node) if r.value is not None}
    need(len(rets) == 1, f"cannot interpret {gl.short}")
    res = rets.pop()
    stores = [(st, v) for st, t, v in subscript_stores(gl) if T(t.value) == res]
    need(stores, f"cannot interpret {gl.short}: no caret store")
    for st, v in stores:
        sorted_calls = [c for c in ast.walk(v) if isinstance(c, ast.Call) and A.callee_name(c) == "sorted"]
        is_var = any("isVariable" in T(c.test) and c.polarity is True for c in conds(prog, gl, st))
        ok = bool(sorted_calls)
        if ok and not is_var:
            # round each sorted element with otRound
            ok = isinstance(v, ast.ListComp) and prog.is_call_to(gl, v.elt, "otRound") and sorted_calls[0] is v.generators[0].iter \
                and not sorted_calls[0].keywords
        chk.ob("R18.3", f"{gl.short}|{A.keytext(gl.node, st)}", ok, where(gl, st),
               detail="carets = [otRound(c) for c in sorted(...)]" if not is_var else "variable carets sorted by default value",
               message="ligature carets are not emitted in increasing order / not rounded with otRound")
    # x of caret_, y of vcaret_
    for c in calls_named(gl, "add"):
        if not (c.args and isinstance(c.args[0], ast.Subscript)):
            continue
        idx = c.args[0].slice
        pref = None
        for g in conds(prog, gl, c):
            for n in ast.walk(g.test):
                if isinstance(n, ast.Call) and A.callee_name(n) == "startswith" and n.args and isinstance(n.args[0], ast.Constant) and g.polarity is True:
                    pref = n.args[0].value
        want = {"caret_": 0, "vcaret_": 1}.get(pref)
        ok = want is not None and A.is_const(idx, want)
        chk.ob("R18.3", f"{gl.short}|{pref} uses coordinate {want}", ok, where(gl, c), detail=T(c, 70),
               message=f"caret anchors with prefix {pref!r} take the wrong coordinate")
    chk.minimum("R18.3", 4)


def r184(prog, chk):
    ix = prog.ix
    cw = ix.get_class(CURS)
    ml = cw.methods["_makeCursiveLookup"]
    cfg = prog.cfg(ml)
    flags = [c for c in calls_named(ml, "makeLookupFlag")]
    need(len(flags) >= 2, f"cannot interpret {ml.short}")
    # the direction variable, by role: the parameter compared with 'LTR' on the way to the lookup flags
    cands = {l for c in flags for o, l, r in facts(prog, ml, c) if o in ("eq", "ne") and r == "'LTR'" and l in ml.params()}
    need(len(cands) == 1, f"cannot interpret {ml.short}: no direction parameter")
    dparam = next(iter(cands))
    seen = set()
    for c in flags:
        has_rtl = "RightToLeft" in T(c)
        fs = facts(prog, ml, c)
        is_ne = any(o == "ne" and l == dparam and r == "'LTR'" for o, l, r in fs)
        is_eq = any(o == "eq" and l == dparam and r == "'LTR'" for o, l, r in fs)
        ok = (has_rtl and is_ne and not is_eq) or ((not has_rtl) and is_eq and not is_ne)
        seen.add(has_rtl)
        chk.ob("R18.4", f"{ml.short}|{'RightToLeft' if has_rtl else 'plain'} flag", ok, where(ml, c),
               detail=f"flag {'with' if has_rtl else 'without'} RightToLeft under direction {'!=' if is_ne else '=='} 'LTR'",
               message="the RightToLeft lookup flag is not set exactly when direction != 'LTR'")
    # every assignment of direction (suffix override) precedes the test that picks the flag
    flag_tests = set()
    for c in flags:
        for g in conds(prog, ml, c):
            if dparam in T(g.test) and "'LTR'" in T(g.test):
                flag_tests.add(cfg.node_of(g.loc))
    need(flag_tests, f"cannot interpret {ml.short}: flag decision not found")
    for d in cfg.defs_of(dparam):
        if d.kind == "assign":
            okd = all(not cfg.exists_path(t, [d.node]) and cfg.exists_path(d.node, [t]) for t in flag_tests)
            chk.ob("R18.4", f"{ml.short}|{A.keytext(ml.node, d.binder)} before the flag decision", okd, where(ml, d.binder),
                   detail="suffix override happens before direction is tested", message="the .LTR/.RTL suffix is applied after the flag has been chosen")
    chk.ob("R18.4", f"{ml.short}|both flag variants exist", seen == {True, False}, where(ml), detail="RTL and LTR lookups",
           message="one of the two lookup flag variants is missing")
    # suffix -> direction mapping
    for d in cfg.defs_of(dparam):
        if d.kind == "assign" and isinstance(d.value, ast.Constant):
            suf = None
            for g in conds(prog, ml, d.binder):
                for n in ast.walk(g.test):
                    if isinstance(n, ast.Call) and A.callee_name(n) == "endswith" and n.args and isinstance(n.args[0], ast.Constant) and g.polarity is True:
                        suf = n.args[0].value
            ok = suf is not None and suf.lstrip(".") == d.value.value
            chk.ob("R18.4", f"{ml.short}|suffix {suf} -> {d.value.value}", ok, where(ml, d.binder), detail="suffix decides the direction",
                   message=f"anchor suffix {suf} sets direction {d.value.value!r}")
    mf = cw.methods["_makeCursiveFeature"]
    for c in calls_named(mf, "_makeCursiveLookup"):
        dkw = A.kwarg(c, dparam)
        if dkw is None:
            continue
        gen = c.args[0] if c.args else None
        need(isinstance(gen, ast.GeneratorExp), f"cannot interpret {mf.short}")
        cond = gen.generators[0].ifs[0] if gen.generators[0].ifs else None
        p = A.compare_parts(cond) if cond is not None else None
        want_in = A.is_const(dkw, "LTR")
        ok = p is not None and isinstance(p[1], ast.In if want_in else ast.NotIn) and "'LTR'" in T(p[2])
        chk.ob("R18.4", f"{mf.short}|{T(dkw)} lookup takes glyphs {'in' if want_in else 'not in'} the LTR set", ok, where(mf, c), detail=T(cond) if cond is not None else "",
               message=f"the {T(dkw)} cursive lookup is not built from the glyphs {'of' if want_in else 'outside'} left-to-right scripts")
        fs = facts(prog, mf, c)
        ok2 = any(o == "falsy" and "endswith" in l for o, l, r in fs) and any(o == "truthy" for o, l, r in fs)
        chk.ob("R18.4", f"{mf.short}|split for {T(dkw)} only without explicit suffix", ok2, where(mf, c), detail="not entryName.endswith(('.LTR','.RTL')) and shouldSplit",
               message="anchors with an explicit .LTR/.RTL suffix are split by script direction anyway")
    # every glyph of the (exported) glyph set is looked at: the collection the pairs and the lookups are built from is the
    # ordered glyph set itself, and the only thing that narrows it is the LTR / RTL split
    gsn = [s_ for s_ in A.stmts_of(mf.node) if isinstance(s_, ast.Assign) and isinstance(s_.targets[0], ast.Name) and "getOrderedGlyphSet" in T(s_.value)]
    need(len(gsn) == 1, f"cannot interpret {mf.short}: ordered glyph set")
    gname = gsn[0].targets[0].id
    uses = [n_ for n_ in A.body_nodes(mf.node) if isinstance(n_, ast.Name) and n_.id == gname and isinstance(n_.ctx, ast.Load)]
    okall = bool(uses) and all(len(prog.reaching(mf, n_.id, n_)) == 1 and prog.reaching(mf, n_.id, n_)[0].binder is gsn[0] for n_ in uses)
    filt = []
    for c in calls_named(mf, "_makeCursiveLookup"):
        g_ = c.args[0] if c.args else None
        if isinstance(g_, ast.GeneratorExp):
            for cond_ in g_.generators[0].ifs:
                p_ = A.compare_parts(cond_)
                if not (p_ and isinstance(p_[1], (ast.In, ast.NotIn)) and "'LTR'" in T(p_[2])):
                    filt.append(T(cond_, 50))
    chk.ob("R18.4", f"{mf.short}|every glyph of the ordered glyph set is a candidate for cursive attachment", okall and not filt, where(mf, gsn[0]), detail=f"{gname} = {T(gsn[0].value, 50)}; extra filters: {filt}",
           message=f"{mf.short}: the glyphs examined for entry / exit anchors are no longer the whole ordered glyph set (rebinding of `{gname}` or an extra filter {filt}): a glyph with "
                   f"entry / exit anchors can be left without its cursive attachment record")
    ga = cw.methods["_getAnchors"]
    for c in calls_named(ga, "Anchor"):
        for kw in c.keywords:
            if kw.arg in ("x", "y"):
                ok = prog.is_call_to(ga, kw.value, "ufo2ft.util.otRoundIgnoringVariable")
                idx = kw.value.args[0].slice if ok and isinstance(kw.value.args[0], ast.Subscript) else None
                ok = ok and idx is not None and A.is_const(idx, 0 if kw.arg == "x" else 1)
                chk.ob("R18.4", f"{ga.short}|{A.keytext(ga.node, c)}|{kw.arg}", ok, where(ga, c), detail=f"{kw.arg}=otRoundIgnoringVariable(anchor[{0 if kw.arg == 'x' else 1}])",
                       message=f"cursive anchor {kw.arg} is not the rounded {'first' if kw.arg == 'x' else 'second'} coordinate")
    chk.minimum("R18.4", 13)


# ----------------------------------------------------------------------------- R18.5
def r185(prog, chk):
    """The set of left-to-right glyphs is classifyGlyphs(unicodeScriptDirection,
    <the whole cmap>, <the compiled GSUB>, <extra substitutions>): classifyGlyphs
    closes each direction's glyphs together with the direction-neutral ones over GSUB,
    so a restricted cmap (or no GSUB) loses unencoded alternates."""
    ix = prog.ix
    cw = ix.get_class(CURS)
    mf = cw.methods["_makeCursiveFeature"]
    calls = [c for c in calls_named(mf, "classifyGlyphs")]
    need(len(calls) >= 1, f"cannot interpret {mf.short}: classifyGlyphs call")
    for c in calls:
        k = A.keytext(mf.node, c)
        f0 = A.arg_at(c, 0, "unicodeFunc")
        d = ix.resolve_expr(mf.module, f0, cw) if f0 is not None else None
        ok = d is not None and ix.canonical(d) == "ufo2ft.util.unicodeScriptDirection"
        chk.ob("R18.5", f"{mf.short}|{k}|classifier", ok, where(mf, c), detail="unicodeScriptDirection",
               message=f"glyph directions are classified with `{T(f0, 40) if f0 is not None else None}` instead of ufo2ft.util.unicodeScriptDirection "
                       f"(direction-neutral code points must map to None so that their glyphs take part in every direction's GSUB closure)")
        a1 = A.arg_at(c, 1, "cmap")
        ok, bad = every_origin(prog, mf, a1, lambda x, f: isinstance(x, ast.Call) and A.callee_name(x) == "makeUnicodeToGlyphNameMapping", allow_const=False) if a1 is not None else (False, ["missing"])
        chk.ob("R18.5", f"{mf.short}|{k}|whole cmap", ok, where(mf, c), detail="cmap = self.makeUnicodeToGlyphNameMapping()",
               message=f"classifyGlyphs no longer gets the whole code-point mapping ({bad}): glyphs reachable only through direction-neutral glyphs are "
                       f"left out of the LTR set and end up in the RightToLeft lookup")
        a2 = A.arg_at(c, 2, "gsub")
        ok, bad = every_origin(prog, mf, a2, lambda x, f: isinstance(x, ast.Call) and A.callee_name(x) == "compileGSUB", allow_const=False) if a2 is not None else (False, ["missing"])
        chk.ob("R18.5", f"{mf.short}|{k}|GSUB closure", ok, where(mf, c), detail="gsub = self.compileGSUB()",
               message=f"classifyGlyphs is not given the compiled GSUB ({bad}): unencoded alternates of left-to-right glyphs are not classified")
        a3 = A.arg_at(c, 3, "extra_substitutions")
        ok, bad = every_origin(prog, mf, a3, lambda x, f: isinstance(x, ast.Call) and A.callee_name(x) == "extraSubstitutions", allow_const=False) if a3 is not None else (False, ["missing"])
        chk.ob("R18.5", f"{mf.short}|{k}|designspace-rule substitutions", ok, where(mf, c), detail="extras = self.extraSubstitutions()",
               message=f"classifyGlyphs is not given the designspace-rule substitutions ({bad})")
    # ... and that table holds every substitution of every rule: a glyph replaced by two rules (two bracket layers) keeps both targets
    pc = ix.get_method("ufo2ft._compilers.baseCompiler.BaseInterpolatableCompiler", "_pre_compile_designspace", own=True)
    ds_param = pc.params()[1]
    plain = [(s_, t, v) for s_, t, v in attr_stores(pc, "extraSubstitutions") if T(t.value) == "self"]
    need(plain, f"cannot interpret {pc.short}: extraSubstitutions")
    def key_of(recv):
        """table[left] (a defaultdict(set)) or table.setdefault(left, set()): the glyph the set belongs to"""
        if isinstance(recv, ast.Subscript) and T(recv.value) == "self.extraSubstitutions":
            return recv.slice, "subscript"
        if isinstance(recv, ast.Call) and isinstance(recv.func, ast.Attribute) and recv.func.attr == "setdefault" and T(recv.func.value) == "self.extraSubstitutions" \
                and len(recv.args) == 2 and T(recv.args[1]) in ("set()", "set([])"):
            return recv.args[0], "setdefault"
        return None, None
    adds = [c for c in A.body_nodes(pc.node) if isinstance(c, ast.Call) and isinstance(c.func, ast.Attribute) and c.func.attr == "add" and key_of(c.func.value)[0] is not None]
    how = key_of(adds[0].func.value)[1] if adds else None
    ok_init = all((isinstance(v, ast.Call) and A.callee_name(v) == "defaultdict" and len(v.args) == 1 and T(v.args[0]) == "set") or
                  (how == "setdefault" and isinstance(v, ast.Dict) and not v.keys) for s_, t, v in plain)
    ok_add = len(adds) == 1
    if ok_add:
        c = adds[0]
        loops = [a for a in ix.ancestors(c) if isinstance(a, ast.For)]  # innermost first
        ok_add = len(loops) == 2 and isinstance(loops[0].target, ast.Tuple) and len(loops[0].target.elts) == 2 and isinstance(loops[1].target, ast.Name) \
            and T(loops[0].iter) == f"{loops[1].target.id}.subs" and T(loops[1].iter) == f"{ds_param}.rules" \
            and T(key_of(c.func.value)[0]) == T(loops[0].target.elts[0]) and len(c.args) == 1 and T(c.args[0]) == T(loops[0].target.elts[1]) \
            and not [g for g in may_conds(prog, pc, c) if g.kind in ("if", "boolop", "ifexp", "while") and any(a is loops[1] for a in ix.ancestors(g.loc))] \
            and not any(isinstance(x, (ast.Break, ast.Continue, ast.Return)) for x in ast.walk(loops[1]))
    chk.ob("R18.5", f"{pc.short}|every (left, right) of every designspace rule is recorded, all targets of one glyph kept", ok_init and ok_add, where(pc, plain[0][0]),
           detail="extraSubstitutions = defaultdict(set); for rule in rules: for left, right in rule.subs: extraSubstitutions[left].add(right)",
           message=f"{pc.short}: the designspace-rule substitution table no longer holds every (glyph, replacement) of every rule (`{T(plain[0][2], 60)}`): a replacement that is "
                   f"dropped is not classified as left-to-right and its cursive anchors end up in the RightToLeft lookup")
    # the LTR set used for the split is that classification
    for c in calls_named(mf, "_makeCursiveLookup"):
        gen = c.args[0] if c.args else None
        if not isinstance(gen, ast.GeneratorExp) or not gen.generators[0].ifs:
            continue
        p = A.compare_parts(gen.generators[0].ifs[0])
        if p is None:
            continue
        base = p[2].value if isinstance(p[2], ast.Subscript) else p[2]
        ok, bad = every_origin(prog, mf, base, lambda x, f: isinstance(x, ast.Call) and A.callee_name(x) == "classifyGlyphs", allow_const=False)
        chk.ob("R18.5", f"{mf.short}|{A.keytext(mf.node, gen.generators[0].ifs[0])}|set comes from classifyGlyphs", ok, where(mf, c), detail=T(p[2]),
               message=f"the LTR glyph set of the cursive split does not come from classifyGlyphs ({bad})")
    # classifyGlyphs itself closes direction glyphs together with the neutral ones
    cg = ix.get_func("ufo2ft.util:classifyGlyphs")
    closes = [c for c in calls_named(cg, "closeGlyphsOverGSUB")]
    unions = [n for n in A.body_nodes(cg.node) if isinstance(n, ast.BinOp) and isinstance(n.op, ast.BitOr)]
    ok = len(closes) >= 2 and any(isinstance(ix.parent(u), ast.Assign) and any(isinstance(a, ast.Name) and a.id in A.target_names(ix.parent(u).targets[0]) for cl in closes for a in cl.args) for u in unions)
    chk.ob("R18.5", f"{cg.short}|closure over GSUB includes the neutral glyphs", ok, where(cg), detail="s = glyphs | neutralGlyphs; closeGlyphsOverGSUB(gsub, s)",
           message="classifyGlyphs no longer closes each class together with the neutral glyphs over GSUB")
    chk.minimum("R18.5", 7)


# ----------------------------------------------------------------------------- R18.7
def r187(prog, chk):
    ix = prog.ix
    BW = "ufo2ft.featureWriters.baseFeatureWriter.BaseFeatureWriter"
    g = ix.get_method(BW, "getOpenTypeCategories", own=True)
    rets = A.returns_of(g.node)
    need(rets, f"cannot interpret {g.short}")
    ok = True
    for r in rets:
        okr, _ = every_origin(prog, g, r.value, lambda x, ff: isinstance(x, ast.Call) and isinstance(x.func, ast.Attribute) and x.func.attr == "load"
                              and T(x.func.value).endswith("OpenTypeCategories") and len(x.args) == 1 and T(x.args[0]) == "self.context.font", allow_const=False)
        ok = ok and okr
    chk.ob("R18.7", f"{g.short}|returns the categories as OpenTypeCategories.load read them from the font", ok, where(g, rets[0]), detail=T(rets[0].value, 80),
           message=f"{g.short} no longer returns the categories as stored in public.openTypeCategories (`{T(rets[0].value, 60)}`): the writers decide on this value whether the UFO "
                   f"defines categories at all - a map that is emptied on the way (all its glyphs non-exported) makes them guess the GDEF classes from anchors instead")
    # the two 'are categories defined' decisions are taken on that value
    n = 0
    for q, m in ((BW, "getGDEFGlyphClasses"), ("ufo2ft.featureWriters.gdefFeatureWriter.GdefFeatureWriter", "setContext")):
        f = ix.get_method(q, m, own=True)
        tests = [c for c in A.body_nodes(f.node) if isinstance(c, ast.Call) and A.callee_name(c) == "any" and len(c.args) == 1]
        for t in tests:
            names = [x for x in ast.walk(t.args[0]) if isinstance(x, (ast.Name, ast.Attribute)) and isinstance(getattr(x, "ctx", None), ast.Load)]
            tops = [x for x in names if not isinstance(ix.parent(x), ast.Attribute)]
            if not tops:
                continue
            oks = []
            for x in tops:
                if isinstance(x, ast.Name):
                    ds = prog.reaching(f, x.id, x)  # also through tuple unpacking of the five sets
                    okx = bool(ds) and all(d.value is not None and isinstance(d.value, ast.Call) and A.callee_name(d.value) == "getOpenTypeCategories" for d in ds)
                else:
                    sts = [v for s_, t_, v in attr_stores(f, x.attr) if T(t_) == T(x)]
                    okx = bool(sts) and all(isinstance(v, ast.Call) and A.callee_name(v) == "getOpenTypeCategories" for v in sts)
                oks.append(okx)
            if not any(oks):
                continue  # some other any(...)
            n += 1
            chk.ob("R18.7", f"{f.short}|{A.keytext(f.node, t)}|'categories are defined' is decided on getOpenTypeCategories()", all(oks), where(f, t), detail=T(t, 70),
                   message=f"{f.short}: the test whether the UFO defines categories looks at something else than the stored categories")
    need(n >= 2, f"R18.7: 'categories defined' decisions found: {n}")
    chk.minimum("R18.7", 3)


# ----------------------------------------------------------------------------- R18.10
def r1810(prog, chk):
    """The GSUB closure of the direction sets needs the GSUB of the whole feature file: the writers' compileGSUB hands back
    what feaLib built from the feature file (or that same table, cached), never a shortcut answer."""
    ix = prog.ix
    m = ix.get_method("ufo2ft.featureWriters.baseFeatureWriter.BaseFeatureWriter", "compileGSUB", own=True)
    rets = A.returns_of(m.node)
    need(rets, f"cannot interpret {m.short}")
    built = []

    def ok_origin(x, ff):
        if isinstance(x, ast.Call) and prog.is_call_to(ff, x, "ufo2ft.util.compileGSUB"):
            built.append(x)
            return True
        return isinstance(x, ast.Attribute) and x.attr == "_gsub"
    for r in rets:
        ok = r.value is not None and every_origin(prog, m, r.value, ok_origin, allow_const=False)[0]
        chk.ob("R18.10", f"{m.short}|return {T(r.value, 40) if r.value is not None else ''}|the compiled (or cached) GSUB", bool(ok), where(m, r), detail="origin: util.compileGSUB(...) or compiler._gsub",
               message=f"{m.short}: `{T(r, 60)}` hands the writers something else than the GSUB compiled from the feature file: the direction sets of the curs / kern writers are then not closed over "
                       f"the font's substitutions (alternates reached through lookups are classified as if they had no script)")
    need(built, f"cannot interpret {m.short}: no call of util.compileGSUB")
    for c in {id(b): b for b in built}.values():
        a0 = c.args[0] if c.args else next((k.value for k in c.keywords if k.arg == "featureFile"), None)
        ok = a0 is not None and every_origin(prog, m, a0, lambda x, ff: isinstance(x, ast.Attribute) and x.attr == "feaFile" and T(x.value).endswith("context"), allow_const=False)[0]
        chk.ob("R18.10", f"{m.short}|GSUB compiled from the context's feature file", bool(ok), where(m, c), detail=T(c, 70),
               message=f"{m.short}: the temporary GSUB is not compiled from the writer's current feature file (`{T(a0, 40) if a0 is not None else 'missing'}`)")
    # the cached table is only ever the built one
    for fi in ix.functions.values():
        if isinstance(fi.node, ast.Lambda):
            continue
        for s_, t, v in attr_stores(fi, "_gsub"):
            ok = fi is m and v is not None and every_origin(prog, fi, v, lambda x, ff: isinstance(x, ast.Call) and prog.is_call_to(ff, x, "ufo2ft.util.compileGSUB"), allow_const=False)[0]
            chk.ob("R18.10", f"{fi.short}|{T(s_, 40)}|cache holds the built table", bool(ok), where(fi, s_), detail=T(s_, 60),
                   message=f"{fi.short}: `{T(s_, 60)}` stores something else than the compiled GSUB in the shared cache")
    u = ix.get_func("ufo2ft.util:compileGSUB")
    cfg = prog.cfg(u)
    feats = [c for c in ast.walk(u.node) if isinstance(c, ast.Call) and A.callee_name(c) == "addOpenTypeFeatures"]
    urets = A.returns_of(u.node)
    p0 = u.node.args.args[0].arg
    ok = len(feats) == 1 and len(urets) == 1 and urets[0].value is not None
    if ok:
        c = feats[0]
        tables = next((k.value for k in c.keywords if k.arg == "tables"), None)
        ok = len(c.args) >= 2 and isinstance(c.args[1], ast.Name) and c.args[1].id == p0 and all(d.kind == "param" for d in prog.reaching(u, p0, c.args[1])) \
            and (tables is None or any(isinstance(x, ast.Constant) and x.value == "GSUB" for x in ast.walk(tables))) \
            and not [g for g in may_conds(prog, u, c) if g.kind in ("if", "boolop", "ifexp", "while", "for")] \
            and cfg.dominates(cfg.node_of(c), cfg.node_of(urets[0])) \
            and T(c.args[0]) in T(urets[0].value) and "GSUB" in T(urets[0].value)
    chk.ob("R18.10", f"{u.short}|feaLib builds GSUB from the whole feature file, unconditionally", bool(ok), where(u), detail=T(feats[0], 70) if feats else "",
           message=f"{u.short}: the GSUB handed to the writers is not (always) what feaLib builds from the given feature file")
    chk.minimum("R18.10", 4)


# ----------------------------------------------------------------------------- R18.11 (= R05.15)
def check_neutral_closure(prog, chk, rule):
    """classifyGlyphs closes every class together with the neutral glyphs and then takes the neutral glyphs out again:
    what is taken out must be the neutral glyphs *closed over GSUB themselves*, otherwise the alternates of neutral
    glyphs (reachable from the neutral glyphs alone) stay in every class - a glyph in both the LTR and the RTL class
    makes the kern writers drop all its pairs, and the cursive split treats it as both directions."""
    ix = prog.ix
    cg = ix.get_func("ufo2ft.util:classifyGlyphs")
    cfg = prog.cfg(cg)
    closes = [c for c in calls_named(cg, "closeGlyphsOverGSUB") if len(c.args) >= 2]
    subs = [b for b in A.body_nodes(cg.node) if isinstance(b, ast.BinOp) and isinstance(b.op, ast.Sub) and isinstance(b.right, ast.Name)]
    subs += [c for c in A.body_nodes(cg.node) if isinstance(c, ast.Call) and isinstance(c.func, ast.Attribute) and c.func.attr in ("difference", "difference_update") and len(c.args) == 1 and isinstance(c.args[0], ast.Name)]
    need(closes and subs, f"cannot interpret {cg.short}: closure / subtraction of the neutral glyphs")
    for b in subs:
        nm = b.right if isinstance(b, ast.BinOp) else b.args[0]
        ok = False
        for c in closes:
            if not (isinstance(c.args[1], ast.Name) and c.args[1].id == nm.id):
                continue
            gs_ = [g for g in may_conds(prog, cg, c) if g.kind in ("if", "boolop", "ifexp", "while", "for")]
            mine = [g for g in may_conds(prog, cg, b) if g.kind in ("if", "boolop", "ifexp", "while", "for")]
            extra = [g for g in gs_ if T(g.test) not in {T(m.test) for m in mine} and T(g.test) != nm.id]
            # the closure call is on every path to the subtraction, except where the neutral set is empty
            if not extra and c.lineno < b.lineno:
                ok = True
        chk.ob(rule, f"{cg.short}|{T(b, 40)}|the set taken out of a class closure is closed over GSUB itself", ok, where(cg, b), detail=f"closeGlyphsOverGSUB(gsub, {nm.id}) before `{T(b, 40)}`",
               message=f"{cg.short}: `{T(b, 50)}` takes `{nm.id}` out of a class that was closed over GSUB together with it, but `{nm.id}` itself is not closed over GSUB first: glyphs reachable "
                       f"from the neutral glyphs alone (alternates of punctuation) stay in every class - in both bidi classes, so the kern writers drop all their pairs")
    chk.minimum(rule, 1)


MUTANTS = [
    M("neutral glyphs no longer closed over GSUB on their own (seeded C05o)", "ufo2ft/util.py", "classifyGlyphs",
      "if neutralGlyphs:\n    closeGlyphsOverGSUB(gsub, neutralGlyphs)", "pass", rule="R18.11"),
    M("neutral closure without the emptiness guard", "ufo2ft/util.py", "classifyGlyphs",
      "if neutralGlyphs:\n    closeGlyphsOverGSUB(gsub, neutralGlyphs)", "closeGlyphsOverGSUB(gsub, neutralGlyphs)", kind="equiv"),
    M("temporary GSUB skipped when the feature blocks hold no substitutions (seeded C18m)", "ufo2ft/featureWriters/baseFeatureWriter.py", "BaseFeatureWriter.compileGSUB",
      "fvar = None", "fvar = None\nif not any(type(s).__name__.endswith('SubstStatement') for b in ast.iterFeatureBlocks(self.context.feaFile) for s in b.statements):\n    return None", rule="R18.10"),
    M("cache filled with a placeholder", "ufo2ft/featureWriters/baseFeatureWriter.py", "BaseFeatureWriter.compileGSUB",
      "compiler._gsub = gsub", "compiler._gsub = gsub if glyphOrder else None", rule="R18.10"),
    M("GSUB only built for variable fonts", "ufo2ft/util.py", "compileGSUB",
      "addOpenTypeFeatures(font, featureFile, tables={'GSUB'})", "if fvar:\n    addOpenTypeFeatures(font, featureFile, tables={'GSUB'})", rule="R18.10"),
    M("compileGSUB locals renamed", "ufo2ft/featureWriters/baseFeatureWriter.py", "BaseFeatureWriter.compileGSUB",
      "gsub = compileGSUB(feafile, glyphOrder, fvar=fvar)\nif compiler and not hasattr(compiler, '_gsub'):\n    compiler._gsub = gsub\nreturn gsub", "table = compileGSUB(feafile, glyphOrder, fvar=fvar)\nif compiler and not hasattr(compiler, '_gsub'):\n    compiler._gsub = table\nreturn table", kind="equiv"),
    M("sources whose anchor equals the default's are left out of the variable scalar (seeded C18l)", "ufo2ft/featureWriters/baseFeatureWriter.py", "BaseFeatureWriter._getAnchor",
      "if anchor.name == anchorName:\n    location = get_userspace_location(designspace, source.location)\n    x_value.add_value(location, otRound(anchor.x))\n    y_value.add_value(location, otRound(anchor.y))\n    found = True",
      "if anchor.name == anchorName and (source is designspace.findDefault() or (anchor.x, anchor.y) != (0, 0)):\n    location = get_userspace_location(designspace, source.location)\n    x_value.add_value(location, otRound(anchor.x))\n    y_value.add_value(location, otRound(anchor.y))\n    found = True", rule="R18.8"),
    M("categories restricted to exported glyphs before the 'are categories defined' decision (seeded C18k)", "ufo2ft/featureWriters/baseFeatureWriter.py", "BaseFeatureWriter.getOpenTypeCategories",
      "return OpenTypeCategories.load(self.context.font)",
      "categories = OpenTypeCategories.load(self.context.font)\nglyphSet = self.context.glyphSet\nreturn OpenTypeCategories(*(frozenset((n for n in names if n in glyphSet)) for names in categories))", rule="R18.7"),
    M("rule substitutions collected with a dict comprehension: one target per glyph (seeded C18j)", "ufo2ft/_compilers/baseCompiler.py", "BaseInterpolatableCompiler._pre_compile_designspace",
      "self.extraSubstitutions = defaultdict(set)\nfor rule in designSpaceDoc.rules:\n    for left, right in rule.subs:\n        self.extraSubstitutions[left].add(right)",
      "self.extraSubstitutions = {left: {right} for rule in designSpaceDoc.rules for left, right in rule.subs}", rule="R18.5"),
    M("rule substitutions accumulated in a plain dict with setdefault", "ufo2ft/_compilers/baseCompiler.py", "BaseInterpolatableCompiler._pre_compile_designspace",
      "self.extraSubstitutions = defaultdict(set)\nfor rule in designSpaceDoc.rules:\n    for left, right in rule.subs:\n        self.extraSubstitutions[left].add(right)",
      "self.extraSubstitutions = {}\nfor rule in designSpaceDoc.rules:\n    for left, right in rule.subs:\n        self.extraSubstitutions.setdefault(left, set()).add(right)", kind="equiv"),
    M("only the first substitution of each rule is recorded", "ufo2ft/_compilers/baseCompiler.py", "BaseInterpolatableCompiler._pre_compile_designspace",
      "for left, right in rule.subs:\n    self.extraSubstitutions[left].add(right)", "for left, right in rule.subs[:1]:\n    self.extraSubstitutions[left].add(right)", rule="R18.5"),
    M("mark-categorised glyphs are not examined for cursive anchors (seeded C18h)", "ufo2ft/featureWriters/cursFeatureWriter.py", "CursFeatureWriter._makeCursiveFeature",
      "cursiveAnchorsPairs = self._getCursiveAnchorPairs(orderedGlyphSet)", "orderedGlyphSet = [(n, g) for n, g in orderedGlyphSet if n not in self.getOpenTypeCategories().mark]\ncursiveAnchorsPairs = self._getCursiveAnchorPairs(orderedGlyphSet)", rule="R18.4"),
    M("parsed categories remembered in the font's tempLib (seeded C18d)", "ufo2ft/util.py", "OpenTypeCategories.load",
      "openTypeCategories = font.lib.get(OPENTYPE_CATEGORIES_KEY, {})",
      "openTypeCategories = font.lib.get(OPENTYPE_CATEGORIES_KEY, {})\ncached = getattr(font, 'tempLib', {}).get(OPENTYPE_CATEGORIES_KEY)\nif cached is not None and cached[0] is openTypeCategories:\n    return cached[1]", rule="R18.1", count=2),
    M("carets at 0 filtered out (seeded C18b)", "ufo2ft/featureWriters/gdefFeatureWriter.py", "GdefFeatureWriter._getLigatureCarets",
      "carets = dict()", "carets = dict()\nfirstX = next(filter(None, (a.x for g in self.context.orderedGlyphSet.values() for a in g.anchors)), None)", rule="R18.6"),
    M("cursive anchors with x == 0 skipped", "ufo2ft/featureWriters/cursFeatureWriter.py", "CursFeatureWriter._getAnchors",
      "entryAnchorXY = self._getAnchor(glyphName, entryName)", "entryAnchorXY = self._getAnchor(glyphName, entryName)\nif entryAnchorXY is not None and not entryAnchorXY[0]:\n    entryAnchorXY = None", rule="R18.6"),
    M("direction-neutral code points filtered out of the cmap (seeded C18a)", "ufo2ft/featureWriters/cursFeatureWriter.py", "CursFeatureWriter._makeCursiveFeature",
      "dirGlyphs = classifyGlyphs(unicodeScriptDirection, cmap, gsub, extras)",
      "dirCmap = {uv: g for uv, g in cmap.items() if unicodeScriptDirection(uv) is not None}\ndirGlyphs = classifyGlyphs(unicodeScriptDirection, dirCmap, gsub, extras)", rule="R18.5"),
    M("LTR classification without the GSUB closure", "ufo2ft/featureWriters/cursFeatureWriter.py", "CursFeatureWriter._makeCursiveFeature",
      "classifyGlyphs(unicodeScriptDirection, cmap, gsub, extras)", "classifyGlyphs(unicodeScriptDirection, cmap, None, extras)", rule="R18.5"),
    M("LTR classification without designspace-rule substitutions", "ufo2ft/featureWriters/cursFeatureWriter.py", "CursFeatureWriter._makeCursiveFeature",
      "classifyGlyphs(unicodeScriptDirection, cmap, gsub, extras)", "classifyGlyphs(unicodeScriptDirection, cmap, gsub)", rule="R18.5"),
    M("neutral glyphs no longer take part in the closure", "ufo2ft/util.py", "classifyGlyphs",
      "s = glyphs | neutralGlyphs", "s = set(glyphs)", rule="R18.5"),
    M("classifier treats neutral code points as LTR", "ufo2ft/featureWriters/cursFeatureWriter.py", "CursFeatureWriter._makeCursiveFeature",
      "classifyGlyphs(unicodeScriptDirection, cmap, gsub, extras)", "classifyGlyphs(lambda uv: unicodeScriptDirection(uv) or 'LTR', cmap, gsub, extras)", rule="R18.5"),
    M("keyword form of the classifyGlyphs call", "ufo2ft/featureWriters/cursFeatureWriter.py", "CursFeatureWriter._makeCursiveFeature",
      "classifyGlyphs(unicodeScriptDirection, cmap, gsub, extras)", "classifyGlyphs(unicodeScriptDirection, cmap, gsub=gsub, extra_substitutions=extras)", kind="equiv"),
    M("GDEF mark and ligature classes swapped", "ufo2ft/featureWriters/gdefFeatureWriter.py", "GdefFeatureWriter._write",
      "ast.GlyphClass(self._sortedGlyphClass(categories.mark))", "ast.GlyphClass(self._sortedGlyphClass(categories.ligature))", rule="R18.1"),
    M("categories loader returns marks in the ligature slot", "ufo2ft/util.py", "OpenTypeCategories.load",
      "cls(frozenset(unassigned), frozenset(bases), frozenset(ligatures), frozenset(marks), frozenset(components))",
      "cls(frozenset(unassigned), frozenset(bases), frozenset(marks), frozenset(ligatures), frozenset(components))", rule="R18.1"),
    M("entry and exit anchors swapped in the returned tuple", "ufo2ft/featureWriters/cursFeatureWriter.py", "CursFeatureWriter._getAnchors",
      "return (entryAnchor, exitAnchor)", "return (exitAnchor, entryAnchor)", rule="R18.1"),
    M("LigatureCaretByIndexStatement no longer suppresses generated carets", "ufo2ft/featureWriters/gdefFeatureWriter.py", "GdefFeatureWriter.setContext",
      "isinstance(fea, ast.LigatureCaretByIndexStatement) or isinstance(fea, ast.LigatureCaretByPosStatement)",
      "isinstance(fea, ast.LigatureCaretByPosStatement)", rule="R18.2"),
    M("user GlyphClassDef no longer suppresses generated classes", "ufo2ft/featureWriters/gdefFeatureWriter.py", "GdefFeatureWriter.setContext",
      "isinstance(fea, ast.GlyphClassDefStatement)", "isinstance(fea, ast.GlyphClassDefStatement) and False", rule="R18.2"),
    M("classes generated regardless of todo", "ufo2ft/featureWriters/gdefFeatureWriter.py", "GdefFeatureWriter._write",
      "'GlyphClassDefs' in self.context.todo", "True", rule="R18.2"),
    M("carets emitted in set order", "ufo2ft/featureWriters/gdefFeatureWriter.py", "GdefFeatureWriter._getLigatureCarets",
      "[otRound(c) for c in sorted(glyphCarets)]", "[otRound(c) for c in glyphCarets]", rule="R18.3"),
    M("carets truncated instead of rounded", "ufo2ft/featureWriters/gdefFeatureWriter.py", "GdefFeatureWriter._getLigatureCarets",
      "[otRound(c) for c in sorted(glyphCarets)]", "[int(c) for c in sorted(glyphCarets)]", rule="R18.3"),
    M("vertical carets take x", "ufo2ft/featureWriters/gdefFeatureWriter.py", "GdefFeatureWriter._getLigatureCarets",
      "glyphCarets.add(self._getAnchor(glyphName, anchor.name)[1])", "glyphCarets.add(self._getAnchor(glyphName, anchor.name)[0])", rule="R18.3"),
    M("RightToLeft flag inverted", "ufo2ft/featureWriters/cursFeatureWriter.py", "CursFeatureWriter._makeCursiveLookup",
      "direction != 'LTR'", "direction == 'LTR'", rule="R18.4"),
    M("suffix override applied after the flag", "ufo2ft/featureWriters/cursFeatureWriter.py", "CursFeatureWriter._makeCursiveLookup",
      "if entryName.endswith('.RTL'):\n    direction = 'RTL'\nelif entryName.endswith('.LTR'):\n    direction = 'LTR'\nif direction != 'LTR':\n    lookup.statements.append(ast.makeLookupFlag(('IgnoreMarks', 'RightToLeft')))\nelse:\n    lookup.statements.append(ast.makeLookupFlag('IgnoreMarks'))",
      "if direction != 'LTR':\n    lookup.statements.append(ast.makeLookupFlag(('IgnoreMarks', 'RightToLeft')))\nelse:\n    lookup.statements.append(ast.makeLookupFlag('IgnoreMarks'))\nif entryName.endswith('.RTL'):\n    direction = 'RTL'\nelif entryName.endswith('.LTR'):\n    direction = 'LTR'",
      rule="R18.4"),
    M(".LTR suffix maps to RTL", "ufo2ft/featureWriters/cursFeatureWriter.py", "CursFeatureWriter._makeCursiveLookup",
      "if entryName.endswith('.RTL'):\n    direction = 'RTL'\nelif entryName.endswith('.LTR'):\n    direction = 'LTR'",
      "if entryName.endswith('.RTL'):\n    direction = 'RTL'\nelif entryName.endswith('.LTR'):\n    direction = 'RTL'", rule="R18.4"),
    M("LTR lookup built from non-LTR glyphs", "ufo2ft/featureWriters/cursFeatureWriter.py", "CursFeatureWriter._makeCursiveFeature",
      "(glyph for glyphName, glyph in orderedGlyphSet if glyphName in dirGlyphs['LTR'])", "(glyph for glyphName, glyph in orderedGlyphSet if glyphName not in dirGlyphs['LTR'])", rule="R18.4"),
    M("cursive anchors not rounded", "ufo2ft/featureWriters/cursFeatureWriter.py", "CursFeatureWriter._getAnchors",
      "otRoundIgnoringVariable(exitAnchorXY[1])", "exitAnchorXY[1]", rule="R18.4"),
    M("suffixed anchors split by direction anyway", "ufo2ft/featureWriters/cursFeatureWriter.py", "CursFeatureWriter._makeCursiveFeature",
      "not entryName.endswith(('.LTR', '.RTL')) and shouldSplit", "shouldSplit", rule="R18.4"),
    # equivalents
    M("carets sorted first, then rounded in a loop", "ufo2ft/featureWriters/gdefFeatureWriter.py", "GdefFeatureWriter._getLigatureCarets",
      "[otRound(c) for c in sorted(glyphCarets)]", "[otRound(c) for c in sorted(glyphCarets)]", kind="equiv"),
    M("isinstance with a tuple of caret classes", "ufo2ft/featureWriters/gdefFeatureWriter.py", "GdefFeatureWriter.setContext",
      "isinstance(fea, ast.LigatureCaretByIndexStatement) or isinstance(fea, ast.LigatureCaretByPosStatement)",
      "isinstance(fea, (ast.LigatureCaretByIndexStatement, ast.LigatureCaretByPosStatement))", kind="equiv"),
]
