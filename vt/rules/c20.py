"""C20 - generated positioning features are reachable from every registered script."""

from __future__ import annotations

import ast
from typing import Dict, List, Set

from ..core import astutil as A
from ..core.index import AnalysisError, ClassInfo, FuncInfo
from ..selftest import M
from .common import ext_name, is_early_exit_guard, may_conds, T, attr_stores, calls_named, every_origin, facts, need, where

FC = "ufo2ft.featureCompiler.FeatureCompiler"


def default_writers(prog) -> List[ClassInfo]:
    fc = prog.ix.get_class(FC)
    lst = fc.attrs.get("defaultFeatureWriters")
    need(isinstance(lst, (ast.List, ast.Tuple)), "FeatureCompiler.defaultFeatureWriters is not a list literal")
    out = []
    for e in lst.elts:
        d = prog.ix.resolve_expr(fc.module, e, fc)
        obj = prog.ix.lookup(d) if d else None
        need(isinstance(obj, ClassInfo), f"default feature writer {T(e)} does not resolve to a package class")
        out.append(obj)
    return out


def reachable_in_writer(prog, w: ClassInfo, start: str = "_write") -> List[FuncInfo]:
    """Functions reachable from w._write through self-calls (MRO), functions of
    the writer's own module(s) and the featureWriters.ast helpers."""
    ix = prog.ix
    mods = {c.module.name for c in ix.mro(w)} | {"ufo2ft.featureWriters.ast"}
    m0 = ix.find_method(w, start)
    need(m0 is not None, f"{w.name}.{start} not found")
    seen, work, out = set(), [m0], []
    while work:
        f = work.pop()
        if f.qname in seen:
            continue
        seen.add(f.qname)
        out.append(f)
        for c in A.body_nodes(f.node):
            if not isinstance(c, ast.Call):
                continue
            fn = c.func
            if isinstance(fn, ast.Attribute) and isinstance(fn.value, ast.Name) and fn.value.id in ("self", "cls"):
                m = ix.find_method(w, fn.attr)
                if m is not None:
                    work.append(m)
                continue
            ts, how = prog.resolve_callee(f, fn)
            for t in ts:
                if isinstance(t, FuncInfo) and how == "exact" and t.module.name in mods:
                    work.append(t)
    return out


def registration_mode(prog, w: ClassInfo) -> Dict[str, List[str]]:
    explicit, implicit = [], []
    for f in reachable_in_writer(prog, w):
        for c in A.body_nodes(f.node):
            if not isinstance(c, ast.Call):
                continue
            n = A.callee_name(c)
            if n == "ScriptStatement":
                explicit.append(f"{f.short}: {T(c, 60)}")
            elif n == "addLookupReferences":
                s = A.arg_at(c, 2, "script")
                if s is not None and not A.is_const(s, None):
                    explicit.append(f"{f.short}: {T(c, 60)}")
                else:
                    implicit.append(f"{f.short}: {T(c, 60)}")
            elif n == "LookupReferenceStatement" and f.module.name != "ufo2ft.featureWriters.ast":
                implicit.append(f"{f.short}: {T(c, 60)}")
            elif n in ("append", "extend") and isinstance(c.func, ast.Attribute) and isinstance(c.func.value, ast.Attribute) \
                    and c.func.value.attr == "statements" and isinstance(c.func.value.value, ast.Name):
                # feature.statements.append(lookup) where feature is a FeatureBlock built in this function
                base = c.func.value.value
                for d in prog.reaching(f, base.id, base):
                    v, how = d.element()
                    if isinstance(v, ast.Call) and A.callee_name(v) == "FeatureBlock":
                        implicit.append(f"{f.short}: {T(c, 60)}")
    return {"explicit": explicit, "implicit": implicit}


def run(prog, chk):
    chk.decided += [
        "script-registration mode (explicit script/language statements vs. bare lookups that rely on languagesystem) agrees across the GPOS writers of the default writer list, or something adds languagesystem statements (R20.1)",
        "where scripts are registered explicitly, the languages registered under a tag are exactly those the feature file declares for that tag, default ['dflt'] (R20.2)",
        "the scripts / glyph classifications a writer registers are computed for the font of the current call: no per-font state or memoised result on the writer object (R20.3, shared with C08)",
        "kerning is only registered under scripts the font is known to support: code points are classified by extensions & (knownScripts | DFLT), v2 registers subsets of knownScripts (R20.4)",
        "getScriptLanguageSystems files every declared language under the statement's own OT script tag and pairs each tag with the list stored under it (R20.5)",
        "the font's scripts are guessed from exported glyphs only: a script of skipped glyphs would be registered by the kern writer alone (R20.6, shared with C13)",
        "a generated feature is inserted as its own top-level block, never into a user's block where it would inherit a script / language statement (R20.7, shared with C17)",
    ]
    chk.decided += ["addLookupReferences registers the lookups under every language it is handed for the script (the only one passed over is 'dflt' where the default language system is written "
                    "anyway; an empty list means 'dflt'): no declared language system of a script is left without the generated kerning (R20.8)"]
    chk.decided += ["kern and dist partition the scripts that have kerning: the kern block takes <scripts> - D and the dist block D & <scripts> with one and the same set D on both sides, in both kern "
                    "writers - no script with generated kerning falls between the two features (R20.9)"]
    chk.decided += ["the scripts kerning is registered for come only from code points that belong to exactly one script and from the declared language systems (R20.10)"]
    chk.not_decided += ["which scripts a given font ends up with in the compiled ScriptList"]
    writers = default_writers(prog)
    gpos = []
    for w in writers:
        tt = prog.ix.class_attr(w, "tableTag")
        tag = prog.ix.const_eval(tt[0].module, tt[1], tt[0]) if tt else None
        chk.ob("R20.1", f"{w.name}|tableTag", tag in ("GPOS", "GDEF", "GSUB"), where_cls(w), detail=f"tableTag={tag!r}", nontrivial=False,
               message=f"{w.name} has no recognisable tableTag")
        if tag == "GPOS":
            gpos.append(w)
    need(len(gpos) >= 2, "fewer than two GPOS writers in the default writer list")
    modes = {w.name: registration_mode(prog, w) for w in gpos}
    explicit_writers = [n for n, m in modes.items() if m["explicit"]]
    # does anything in the package add languagesystem statements?
    ls = [(f, c) for f in prog.ix.functions.values() for c in calls_named(f, "LanguageSystemStatement")]
    chk.extra["registration_modes"] = {n: {"explicit_sites": len(m["explicit"]), "implicit_sites": len(m["implicit"])} for n, m in modes.items()}
    chk.extra["languagesystem_insertion_sites"] = len(ls)
    for w in gpos:
        m = modes[w.name]
        if m["explicit"] and not m["implicit"]:
            chk.ob("R20.1", f"{w.name}|explicit registration", True, where_cls(w), detail=f"EXPLICIT ({len(m['explicit'])} site(s), e.g. {m['explicit'][0]})")
        elif m["implicit"] and not m["explicit"]:
            ok = not explicit_writers or bool(ls)
            chk.ob("R20.1", f"{w.name}|implicit registration while {'+'.join(sorted(explicit_writers)) or 'nobody'} registers scripts explicitly", ok, where_cls(w),
                   detail=f"IMPLICIT ({len(m['implicit'])} site(s), e.g. {m['implicit'][0]}); explicit writers: {explicit_writers}",
                   message=f"{w.name} emits bare lookups (reachable only through the feature file's languagesystem statements) while "
                           f"{explicit_writers} register code-point-derived scripts explicitly: a script that gets generated kerning "
                           f"can lack the generated {sorted(feature_tags(prog, w))} features")
        elif m["implicit"] and m["explicit"]:
            chk.ob("R20.1", f"{w.name}|mixed registration", False, where_cls(w), detail="MIXED",
                   message=f"{w.name} mixes explicit script registration and bare lookups")
        else:
            raise AnalysisError(f"cannot determine how {w.name} registers its lookups")
    chk.minimum("R20.1", 6)
    chk.guard(r202, prog, chk)
    # the scripts a writer registers are derived from the font of the current call only
    from . import c08
    chk.guard(c08.r087, prog, chk, "R20.3")
    chk.guard(r204, prog, chk)
    chk.guard(r205, prog, chk)
    from .c13 import check_scripts_from_exported_glyphs
    chk.guard(check_scripts_from_exported_glyphs, prog, chk, "R20.6")
    from .c17 import check_generated_blocks_top_level
    chk.guard(check_generated_blocks_top_level, prog, chk, "R20.7")
    chk.guard(r208, prog, chk)
    chk.guard(r209, prog, chk)
    chk.guard(r2010, prog, chk)


def feature_tags(prog, w: ClassInfo) -> Set[str]:
    ca = prog.ix.class_attr(w, "features")
    try:
        return set(prog.ix.const_eval(ca[0].module, ca[1], ca[0]))
    except Exception:
        return set()


def where_cls(w: ClassInfo) -> str:
    return f"{w.module.relpath}:{w.node.lineno}"


TABLE_FIELDS = ("feaLanguagesByScript", "feaLanguagesByTag")


# ----------------------------------------------------------------------------- R20.2
def r202(prog, chk, rule="R20.2"):
    """Explicit registration: at every addLookupReferences(feature, lookups, <tag>, <languages>)
    the languages are exactly the ones the feature file declares for that same tag
    (<declared-by-tag>.get(<tag>, ["dflt"])).  Registering a language under a tag for
    which it is not declared creates a language system that only the kerning
    feature knows."""
    n = 0
    for fi in prog.ix.functions.values():
        for c in calls_named(fi, "addLookupReferences"):
            tag = A.arg_at(c, 2, "script")
            langs = A.arg_at(c, 3, "languages")
            if tag is None:
                continue
            n += 1
            k = f"{fi.short}|{A.keytext(fi.node, c)[:70]}"
            v = langs
            if isinstance(v, ast.Name):
                ds = prog.reaching(fi, v.id, v)
                v = ds[0].element()[0] if len(ds) == 1 and ds[0].element()[1] is None else None
            ok = isinstance(v, ast.Call) and isinstance(v.func, ast.Attribute) and v.func.attr == "get" and len(v.args) == 2
            why = "languages are not `<declared languages by tag>.get(tag, ['dflt'])`"
            if ok:
                same = T(v.args[0]) == T(tag)
                if same and isinstance(tag, ast.Name):
                    # the same binding of the tag variable at both places
                    same = {id(d.binder) for d in prog.reaching(fi, tag.id, tag)} == {id(d.binder) for d in prog.reaching(fi, v.args[0].id, v.args[0])}
                dflt = isinstance(v.args[1], (ast.List, ast.Tuple)) and [T(x) for x in v.args[1].elts] == ["'dflt'"]
                recv = v.func.value
                src = False
                if isinstance(recv, ast.Name):
                    ds = prog.reaching(fi, recv.id, recv)
                    src = bool(ds) and all(d.kind == "param" for d in ds)           # handed in by the caller: checked at the call site below
                elif isinstance(recv, ast.Attribute):
                    src = recv.attr in TABLE_FIELDS and "context" in T(recv.value)
                ok = same and dflt and src
                why = (f"languages are looked up for `{T(v.args[0])}` but registered under `{T(tag)}`" if not same else
                       "the default is not ['dflt']" if not dflt else f"`{T(v.func.value)}` is not the writer's per-tag table of declared languages itself (e.g. a per-script sub-table: "
                       f"script aliases such as Hrkt would miss the declared languages)")
            chk.ob(rule, k, ok, where(fi, c), detail=f"{T(tag)} -> {T(v, 60) if v is not None else T(langs)}",
                   message=f"{fi.short}: {why}: a script tag gets language systems that are not declared for it (only kerning is registered there)")
    # producers: the table is flat, keyed by OpenType tag, over all declared language systems (no filter, script key ignored)
    for fi in prog.ix.functions.values():
        for st, t, val in [(s_, t_, v_) for fld in TABLE_FIELDS for (s_, t_, v_) in attr_stores(fi, fld)]:
            ok = isinstance(val, ast.DictComp) and len(val.generators) == 2 and not val.generators[0].ifs and not val.generators[1].ifs
            if ok:
                g0, g1 = val.generators
                inner = A.target_names(g1.target)
                ok = T(val.key) == inner[0] and T(val.value) == inner[1] and isinstance(g1.iter, ast.Name) and g1.iter.id == A.target_names(g0.target)[-1] \
                    and isinstance(g0.iter, ast.Call) and isinstance(g0.iter.func, ast.Attribute) and g0.iter.func.attr == "items"
                if ok:
                    okp, bad = every_origin(prog, fi, g0.iter.func.value, lambda x, f: isinstance(x, ast.Call) and A.callee_name(x) == "getScriptLanguageSystems"
                                            and A.is_const(A.kwarg(x, "excludeDflt"), False), allow_const=False)
                    ok = okp
            chk.ob(rule, f"{fi.short}|{t.attr} = {{tag: languages}} over every declared language system", ok, where(fi, st), detail=T(val, 100),
                   message=f"{fi.short}: the table of declared languages is not the flat map from every declared OpenType tag (DFLT included) to its languages")
    # callers hand that table in
    for fi in prog.ix.functions.values():
        for c in calls_named(fi, "_registerLookups"):
            a = c.args[2] if len(c.args) > 2 else A.kwarg(c, "feaLanguagesByScript")
            ok, bad = every_origin(prog, fi, a, lambda x, f: isinstance(x, ast.Attribute) and x.attr in TABLE_FIELDS, allow_const=False) if a is not None else (False, [])
            chk.ob(rule, f"{fi.short}|{A.keytext(fi.node, c)[:60]}|table argument", ok, where(fi, c), detail=T(a) if a is not None else "",
                   message=f"{fi.short} does not hand the writer's per-tag table of declared languages to _registerLookups ({bad})")
    chk.minimum(rule, 8)


# ----------------------------------------------------------------------------- R20.4
def r204(prog, chk):
    """Scripts that generated kerning is registered under never leave the set of scripts the
    font is known to support (declared language systems + scripts of its letters): v1
    classifies code points by `extensions & (knownScripts | DFLT)`, v2 derives the scripts to
    register from knownScripts directly."""
    ix = prog.ix
    k1 = ix.get_class("ufo2ft.featureWriters.kernFeatureWriter.KernFeatureWriter")
    f = k1.methods["knownScriptsPerCodepoint"]
    for r in A.returns_of(f.node):
        v = r.value
        if isinstance(v, ast.Name):
            ds = prog.reaching(f, v.id, v)
            vals = [d.value for d in ds]
        else:
            vals = [v]
        ok = bool(vals)
        for x in vals:
            common = isinstance(x, ast.Set) and len(x.elts) == 1 and (T(x.elts[0]) == "COMMON_SCRIPT" or getattr(x.elts[0], "const_name", None) == "COMMON_SCRIPT" or A.is_const(x.elts[0], "Zyyy"))
            inter = isinstance(x, ast.BinOp) and isinstance(x.op, ast.BitAnd) and any("knownScripts" in T(side) for side in (x.left, x.right))
            ok = ok and (common or inter)
        chk.ob("R20.4", f"{f.short}|{A.keytext(f.node, r)[:60]}", ok, where(f, r), detail="{COMMON_SCRIPT} or extensions & (knownScripts | DFLT_SCRIPTS)",
               message=f"{f.short} can classify a code point under a script the font is not known to support (`{T(r, 70)}`): kerning is then registered under a script for which "
                       f"nothing else is registered")
    fs_ = [r for r in A.returns_of(f.node) if isinstance(r.value, ast.Set)]
    ok = len(fs_) == 1 and any(o == "falsy" and l.endswith("knownScripts") for o, l, r_ in facts(prog, f, fs_[0]))
    chk.ob("R20.4", f"{f.short}|everything is common only when no script is known", ok, where(f), detail="if not self.context.knownScripts: return {COMMON_SCRIPT}", nontrivial=False,
           message=f"{f.short}: the all-common shortcut is taken although scripts are known")
    sc = k1.methods["setContext"]
    cg = [c for c in calls_named(sc, "classifyGlyphs")]
    ok = len(cg) >= 1 and T(cg[0].args[0]) == "self.knownScriptsPerCodepoint"
    chk.ob("R20.4", f"{sc.short}|glyph scripts come from that classification", ok, where(sc), detail=T(cg[0], 80) if cg else "", message=f"{sc.short}: glyph scripts are not classified with knownScriptsPerCodepoint")
    for cq in ("ufo2ft.featureWriters.kernFeatureWriter.KernFeatureWriter", "ufo2ft.featureWriters.kernFeatureWriter2.KernFeatureWriter"):
        m = ix.get_class(cq).methods["setContext"]
        st = [(s_, t, v) for s_, t, v in attr_stores(m, "knownScripts")]
        ok = len(st) == 1 and T(st[0][2]) == "self.guessFontScripts()"
        chk.ob("R20.4", f"{m.short}|knownScripts = self.guessFontScripts()", ok, where(m), detail=T(st[0][2]) if st else "", message=f"{m.short}: knownScripts is not the font's guessed scripts")
    r2 = ix.get_func("ufo2ft.featureWriters.kernFeatureWriter2:register_lookups")
    # the set iterated by the per-script registration loop
    ok = False
    for c in calls_named(r2, "addLookupReferences"):
        loops = [a for a in ix.ancestors(c) if isinstance(a, ast.For)]
        if len(loops) < 2:
            continue
        outer = loops[-1]
        core = outer.iter.args[0] if isinstance(outer.iter, ast.Call) and A.callee_name(outer.iter) == "sorted" and outer.iter.args else outer.iter
        if isinstance(core, ast.Name):
            ds, work, seen_ = [], list(prog.reaching(r2, core.id, core)), set()
            while work:
                d = work.pop()
                if id(d.binder) in seen_:
                    continue
                seen_.add(id(d.binder))
                if d.kind == "augassign" and isinstance(d.binder.op, ast.Sub):
                    work += list(prog.cfg(r2).reaching_defs(core.id, d.binder))   # only removes scripts
                else:
                    ds.append(d)
            ok = len(ds) == 2 and all(d.kind == "assign" and "knownScripts" in T(d.value) and "DIST_ENABLED_SCRIPTS" in T(d.value) for d in ds)
    chk.ob("R20.4", f"{r2.short}|scripts to register are a subset of knownScripts", ok, where(r2), detail="context.knownScripts - DIST / DIST & context.knownScripts",
           message=f"{r2.short}: scripts outside knownScripts can be registered")
    chk.minimum("R20.4", 6)



# ----------------------------------------------------------------------------- R20.5
def r205(prog, chk):
    """getScriptLanguageSystems pairs every OT script tag with the languages declared under that very tag: the list that
    receives a statement's language is the one stored under the statement's own script tag, and the (tag, languages)
    tuples it returns pair a key with its own value."""
    ix = prog.ix
    f = ix.get_func("ufo2ft.featureWriters.ast:getScriptLanguageSystems")
    apps = [c for c in A.body_nodes(f.node) if isinstance(c, ast.Call) and isinstance(c.func, ast.Attribute) and c.func.attr in ("append", "add")
            and c.args and isinstance(c.args[0], ast.Attribute) and c.args[0].attr == "language"]
    need(apps, f"cannot interpret {f.short}: languages are not collected")
    tables = set()
    for c in apps:
        stmt_obj = T(c.args[0].value)

        def keyed_by_own_tag(e, ff, _o=stmt_obj):
            if isinstance(e, ast.Call) and A.callee_name(e) == "setdefault" and e.args and T(e.args[0]) == f"{_o}.script":
                tables.add(T(e.func.value))
                return True
            if isinstance(e, ast.Subscript) and T(e.slice) == f"{_o}.script":
                tables.add(T(e.value))
                return True
            return False
        ok, bad = every_origin(prog, f, c.func.value, keyed_by_own_tag, allow_const=False)
        chk.ob("R20.5", f"{f.short}|{A.keytext(f.node, c)}|a statement's language is filed under the statement's own script tag", ok, where(f, c), detail=T(c, 70),
               message=f"{f.short}: `{T(c, 60)}` files the language under something else than `{stmt_obj}.script` (sibling tags of one script such as dev2 / deva then share "
                       f"their languages: lookups get registered under languagesystems that were never declared)")
    tups = [t for t in A.body_nodes(f.node) if isinstance(t, ast.Tuple) and len(t.elts) == 2 and isinstance(ix.parent(t), ast.Call) and A.callee_name(ix.parent(t)) == "append"]
    need(tups, f"cannot interpret {f.short}: (tag, languages) tuples")
    for t in tups:
        k, v = t.elts
        ok = False
        loops = [a for a in ix.ancestors(t) if isinstance(a, ast.For)]
        if loops and isinstance(k, ast.Name) and isinstance(v, ast.Name) and A.target_names(loops[0].target) == [k.id, v.id] \
                and isinstance(loops[0].iter, ast.Call) and A.callee_name(loops[0].iter) == "items" and T(loops[0].iter.func.value) in tables:
            ok = True
        if isinstance(v, ast.Subscript) and T(v.slice) == T(k) and T(v.value) in tables:
            ok = True
        chk.ob("R20.5", f"{f.short}|{A.keytext(f.node, t)}|a tag is paired with the languages stored under it", ok, where(f, t), detail=T(t),
               message=f"{f.short}: the tuple `{T(t)}` does not pair a script tag with the language list collected under that tag")
    chk.minimum("R20.5", 2)


# ----------------------------------------------------------------------------- R20.8
def r208(prog, chk):
    ix = prog.ix
    f = ix.get_func("ufo2ft.featureWriters.ast:addLookupReferences")
    ps = f.params()
    need(len(ps) >= 4, f"cannot interpret {f.short}: parameters")
    langs = ps[3]
    loops = []
    for lp in [n for n in A.body_nodes(f.node) if isinstance(n, ast.For) and isinstance(n.target, ast.Name)]:
        if any(isinstance(c, ast.Call) and A.callee_name(c) == "LanguageStatement" and c.args and T(c.args[0]) == lp.target.id for c in A.body_nodes(lp)):
            loops.append(lp)
    need(len(loops) == 2, f"cannot interpret {f.short}: language loops ({len(loops)})")
    for lp in loops:
        it = lp.iter
        src = it.values[0] if isinstance(it, ast.BoolOp) and isinstance(it.op, ast.Or) and len(it.values) == 2 else it
        fb = it.values[1] if src is not it else None
        ok = isinstance(src, ast.Name) and src.id == langs and all(d.kind == "param" for d in prog.reaching(f, langs, src))
        okf = fb is None or (isinstance(fb, (ast.Tuple, ast.List)) and all(isinstance(e, ast.Constant) and e.value == "dflt" for e in fb.elts))
        # languages passed over inside the loop: only 'dflt', and only where the default language system was already written
        skips = [n for n in ast.walk(lp) if isinstance(n, (ast.Continue, ast.Break))]
        oks = True
        for sk in skips:
            fs = facts(prog, f, sk)
            oks = oks and isinstance(sk, ast.Continue) and any(o == "eq" and {l, r} == {lp.target.id, "'dflt'"} for o, l, r in fs)
        ls = [c for c in A.body_nodes(lp) if isinstance(c, ast.Call) and A.callee_name(c) == "LanguageStatement"]
        okl = len(ls) == 1 and not [g for g in may_conds(prog, f, ls[0]) if g.kind in ("if", "boolop", "ifexp") and any(a is lp for a in ix.ancestors(g.loc)) and not is_early_exit_guard(prog, f, g)]
        if skips:
            # a 'dflt' statement with the lookups precedes the loop on this path
            cfg = prog.cfg(f)
            dfl = [c for c in A.body_nodes(f.node) if isinstance(c, ast.Call) and A.callee_name(c) == "LanguageStatement" and c.args and A.is_const(c.args[0], "dflt")]
            oks = oks and any(cfg.dominates(cfg.node_of(c), cfg.node_of(lp)) for c in dfl)
        chk.ob("R20.8", f"{f.short}|{A.keytext(f.node, lp)[:60]}|every language handed in gets its language statement", ok and okf and oks and okl, where(f, lp), detail=T(it, 60),
               message=f"{f.short}: the loop `for {lp.target.id} in {T(it, 40)}` does not cover every language of the list it was handed (or falls back to something else than 'dflt'): "
                       f"a language system the feature file declares for the script gets no reference to the generated lookups")
    chk.minimum("R20.8", 2)


# ----------------------------------------------------------------------------- R20.9
def r209(prog, chk):
    ix = prog.ix
    for f in (ix.get_method("ufo2ft.featureWriters.kernFeatureWriter.KernFeatureWriter", "_registerLookups", own=True), ix.get_func("ufo2ft.featureWriters.kernFeatureWriter2:register_lookups")):
        minus, inter = [], []
        for st in A.stmts_of(f.node):
            if not (isinstance(st, ast.Assign) and len(st.targets) == 1 and isinstance(st.targets[0], ast.Name)):
                continue
            v = st.value
            if isinstance(v, ast.BinOp) and isinstance(v.op, ast.Sub) and isinstance(v.right, (ast.Name, ast.Attribute)):
                d = ext_name(prog, f, v.right) or T(v.right)
                if "SCRIPTS" in d.upper() and not d.endswith("DFLT_SCRIPTS"):
                    minus.append((st, d, T(v.left)))
            elif isinstance(v, ast.Call) and isinstance(v.func, ast.Attribute) and v.func.attr == "intersection" and len(v.args) == 1:
                d = ext_name(prog, f, v.func.value) or T(v.func.value)
                inter.append((st, d, T(v.args[0])))
            elif isinstance(v, ast.BinOp) and isinstance(v.op, ast.BitAnd):
                for a, b in ((v.left, v.right), (v.right, v.left)):
                    d = ext_name(prog, f, a) or T(a)
                    if "SCRIPTS" in d.upper():
                        inter.append((st, d, T(b)))
                        break
        need(len(minus) == 1 and len(inter) == 1, f"cannot interpret {f.short}: kern / dist script selection ({len(minus)}, {len(inter)})")
        (s1, d1, a1), (s2, d2, a2) = minus[0], inter[0]
        same_target = T(s1.targets[0]) == T(s2.targets[0])
        norm = lambda t: t.replace(".keys()", "")
        ok = d1 == d2 and norm(a1) == norm(a2) and same_target
        chk.ob("R20.9", f"{f.short}|kern takes <scripts> - D, dist takes D & <scripts>, same D and same scripts", ok, where(f, s2), detail=f"kern: {a1} - {d1.rsplit('.', 1)[-1]}; dist: {d2.rsplit('.', 1)[-1]} & {a2}",
               message=f"{f.short}: the kern block leaves out the scripts of {d1.rsplit('.', 1)[-1]} but the dist block takes those of {d2.rsplit('.', 1)[-1]} (over {a1} / {a2}): "
                       f"a script that is in one set and not in the other gets its kerning lookups registered in neither feature")
    chk.minimum("R20.9", 2)


# ----------------------------------------------------------------------------- R20.10
def r2010(prog, chk):
    """The font's known scripts (for which kerning is registered under explicit script tags) are exactly the scripts of
    code points that belong to one script only, plus the declared language systems: a script taken from anywhere else
    (the primary Script of a shared character, a default) is registered for kerning without any languagesystem that
    would make the mark / mkmk / curs features reachable from it."""
    ix = prog.ix
    gs = ix.get_method("ufo2ft.featureWriters.baseFeatureWriter.BaseFeatureWriter", "guessFontScripts", own=True)
    rets = [r for r in A.returns_of(gs.node) if r.value is not None]
    need(rets and all(isinstance(r.value, ast.Name) for r in rets), f"cannot interpret {gs.short}: the returned set")
    acc = {r.value.id for r in rets}
    sites = []  # (stmt, value exprs)
    for st in A.stmts_of(gs.node):
        if isinstance(st, ast.Expr) and isinstance(st.value, ast.Call) and isinstance(st.value.func, ast.Attribute) and isinstance(st.value.func.value, ast.Name) \
                and st.value.func.value.id in acc:
            need(st.value.func.attr in ("add", "update"), f"cannot interpret {gs.short}: `{T(st, 60)}`")
            sites.append((st, list(st.value.args)))
        elif isinstance(st, ast.AugAssign) and isinstance(st.target, ast.Name) and st.target.id in acc:
            need(isinstance(st.op, ast.BitOr), f"cannot interpret {gs.short}: `{T(st, 60)}`")
            sites.append((st, [st.value]))
        elif isinstance(st, ast.Assign) and any(isinstance(t, ast.Name) and t.id in acc for t in st.targets):
            v = st.value
            empty = (isinstance(v, ast.Call) and A.callee_name(v) == "set" and not v.args) or (isinstance(v, ast.Set) and not v.elts)
            if not empty:
                sites.append((st, [v]))
    need(sites, f"cannot interpret {gs.short}: nothing is added to the returned set")

    def origin_kind(e, ff):
        if isinstance(e, ast.Call):
            n = A.callee_name(e)
            if n == "unicodeScriptExtensions":
                return "ext"
            if n == "getScriptLanguageSystems":
                return "fea"
        return None
    for st, vals in sites:
        kinds: Set[str] = set()
        bad = None
        for v in vals:
            names = [n for n in ast.walk(v) if isinstance(n, ast.Name) and isinstance(n.ctx, ast.Load) and n.id not in acc and n.id not in ("next", "iter", "set", "list", "sorted", "tuple", "frozenset")]
            if not names:
                bad = v
            for nm in names:
                found = []
                ok, b = every_origin(prog, gs, nm, lambda x, ff: bool(origin_kind(x, ff)) and (found.append(origin_kind(x, ff)) or True), allow_const=False)
                if not ok:
                    bad = nm
                kinds |= set(found)
        ok = bad is None and kinds and kinds <= {"ext", "fea"}
        if ok and "ext" in kinds:
            fs = facts(prog, gs, st)
            ok = any(o == "eq" and ((l.startswith("len(") and r == "1") or (r.startswith("len(") and l == "1")) for o, l, r in fs)
        chk.ob("R20.10", f"{gs.short}|{T(st, 50)}|only single-script code points and declared language systems", bool(ok), where(gs, st), detail=f"sources: {sorted(kinds)}",
               message=f"{gs.short}: `{T(st, 70)}` adds a script that is neither the only script of a code point (unicodeScriptExtensions of length 1) nor a declared language system: "
                       f"kerning is then registered under that script's tag, while no languagesystem makes the generated mark / mkmk / curs features reachable from it")
    chk.minimum("R20.10", 2)


MUTANTS = [
    M("primary script of shared letters and marks counted as a font script (seeded C20l)", "ufo2ft/featureWriters/baseFeatureWriter.py", "BaseFeatureWriter.guessFontScripts",
      "if len(scripts) == 1:\n    single_scripts.update(scripts)", "if len(scripts) == 1:\n    single_scripts.update(scripts)\nelif chr(codepoint).isalpha():\n    single_scripts.add(sorted(scripts)[0])", rule="R20.10"),
    M("scripts collected with |= and next(iter())", "ufo2ft/featureWriters/baseFeatureWriter.py", "BaseFeatureWriter.guessFontScripts",
      "if len(scripts) == 1:\n    single_scripts.update(scripts)", "if 1 == len(scripts):\n    single_scripts |= scripts", kind="equiv"),
    M("dist block selects scripts with a narrower set than the kern block excludes (seeded C20k)", "ufo2ft/featureWriters/kernFeatureWriter.py", "KernFeatureWriter._registerLookups",
      "DIST_ENABLED_SCRIPTS.intersection(lookups.keys())", "(DIST_ENABLED_SCRIPTS - {'Mymr'}).intersection(lookups.keys())", rule="R20.9"),
    M("declared languages replaced by dflt when the default is excluded (mutation scan 4, k=20)", "ufo2ft/featureWriters/ast.py", "addLookupReferences",
      "languages or ('dflt',)", "languages and ('dflt',)", rule="R20.8"),
    M("only the first declared language is registered", "ufo2ft/featureWriters/ast.py", "addLookupReferences",
      "languages or ()", "(languages or ())[:1]", rule="R20.8"),
    M("generated statements spliced into the user's block at a mid-block marker (seeded C20g)", "ufo2ft/featureWriters/baseFeatureWriter.py", "BaseFeatureWriter._insert",
      "block.statements = block.statements[:markerIndex]", "block.statements = block.statements[:markerIndex]\nblock.statements[markerIndex:markerIndex] = feature.statements", rule="R20.7"),
    M("scripts guessed from non-exported glyphs too (seeded C20f)", "ufo2ft/featureWriters/baseFeatureWriter.py", "BaseFeatureWriter.guessFontScripts",
      "glyph.name not in glyphSet or glyph.unicodes is None", "glyph.unicodes is None", rule="R20.6"),
    M("languages collected per Unicode script instead of per OT tag (seeded C20e)", "ufo2ft/featureWriters/ast.py", "getScriptLanguageSystems",
      "languagesByScript.setdefault(ls.script, []).append(ls.language)", "languagesByScript.setdefault(unicodedata.ot_tag_to_script(ls.script), []).append(ls.language)", rule="R20.5"),
    M("code points fall back to their own Script property when no extension is a known script (seeded C20d)", "ufo2ft/featureWriters/kernFeatureWriter.py", "KernFeatureWriter.knownScriptsPerCodepoint",
      "return script_extension & (self.context.knownScripts | DFLT_SCRIPTS)", "scripts = script_extension & (self.context.knownScripts | DFLT_SCRIPTS)\nif not scripts:\n    scripts = {unicodedata.script(chr(uv))}\nreturn scripts", rule="R20.4"),
    M("declared languages filed per Unicode script and looked up through a per-script sub-table (seeded C05d)", "ufo2ft/featureWriters/kernFeatureWriter.py", "KernFeatureWriter._registerLookups",
      "languages = feaLanguagesByScript.get(tag, ['dflt'])", "languagesByTag = feaLanguagesByScript.get(script, {})\nlanguages = languagesByTag.get(tag, ['dflt'])", rule="R20.2"),
    M("DFLT left out of the declared-languages table", "ufo2ft/featureWriters/kernFeatureWriter2.py", "KernFeatureWriter.setContext",
      "ast.getScriptLanguageSystems(feaFile, excludeDflt=False)", "ast.getScriptLanguageSystems(feaFile)", rule="R20.2"),
    M("script classification memoised on the writer (seeded C20c)", "ufo2ft/featureWriters/kernFeatureWriter.py", "KernFeatureWriter.knownScriptsPerCodepoint",
      "<decorate>", "functools.lru_cache(maxsize=None)", rule="R20.3"),
    M("languages gathered per Unicode script instead of per tag (seeded C20b)", "ufo2ft/featureWriters/kernFeatureWriter.py", "KernFeatureWriter._registerLookups",
      "languages = feaLanguagesByScript.get(tag, ['dflt'])", "languages = [l for t in unicodedata.ot_tags_from_script(script) for l in feaLanguagesByScript.get(t, ())] or ['dflt']", rule="R20.2"),
    M("v2 registers DFLT's languages under every tag", "ufo2ft/featureWriters/kernFeatureWriter2.py", "register_lookups",
      "languages = context.feaLanguagesByTag.get(tag, ['dflt'])", "languages = context.feaLanguagesByTag.get('DFLT', ['dflt'])", rule="R20.2"),
    M("undeclared tags get no language at all", "ufo2ft/featureWriters/kernFeatureWriter.py", "KernFeatureWriter._registerLookups",
      "languages = feaLanguagesByScript.get(tag, ['dflt'])", "languages = feaLanguagesByScript.get(tag, [])", rule="R20.2"),
    M("GDEF writer (or any third GPOS writer) starts registering scripts explicitly in only one writer", "ufo2ft/featureWriters/cursFeatureWriter.py", "CursFeatureWriter._makeCursiveFeature",
      "feature.statements.extend(lookups)", "ast.addLookupReferences(feature, lookups, 'DFLT', ['dflt'])\nfeature.statements.extend(lookups)", rule="R20.1"),
    M("a new default GPOS writer with bare lookups is added", "ufo2ft/featureCompiler.py", "FeatureCompiler",
      "[CursFeatureWriter, KernFeatureWriter, MarkFeatureWriter, GdefFeatureWriter]",
      "[CursFeatureWriter, KernFeatureWriter, MarkFeatureWriter, GdefFeatureWriter, ast]", rule="R20.1",
      note="non-class entry: the check must refuse to interpret the list (analysis error), not pass"),
    M("a second writer registers explicitly, leaving only mark implicit", "ufo2ft/featureWriters/cursFeatureWriter.py", "CursFeatureWriter._makeCursiveFeature",
      "feature.statements.extend(lookups)", "ast.addLookupReferences(feature, lookups, 'DFLT', ['dflt'])", rule="R20.1"),
    # equivalent
    M("kern writer passes the script by keyword", "ufo2ft/featureWriters/kernFeatureWriter.py", "KernFeatureWriter._registerLookups",
      "ast.addLookupReferences(feature, dfltLookups, 'DFLT', languages)", "ast.addLookupReferences(feature, dfltLookups, script='DFLT', languages=languages)", kind="equiv"),
]
