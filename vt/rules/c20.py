"""C20 - generated positioning features are reachable from every registered script."""

from __future__ import annotations

import ast
from typing import Dict, List, Set

from ..core import astutil as A
from ..core.index import AnalysisError, ClassInfo, FuncInfo
from ..selftest import M
from .common import T, calls_named, need, where

FC = "ufo2ft.featureCompiler.FeatureCompiler"


def default_writers(prog) -> List[ClassInfo]:
    fc = prog.ix.get_class(FC)
    lst = fc.attrs.get("defaultFeatureWriters")
    need(isinstance(lst, (ast.List, ast.Tuple)), "FeatureCompiler.defaultFeatureWriters is not a list literal")
    out = []
    for e in lst.elts:
        d = prog.ix.resolve_expr(fc.module, e, fc)
        obj = prog.ix.lookup(d) if d else None
        need(isinstance(obj, ClassInfo), f"default feature writer {T(e)} does not resolve to a package class")
        out.append(obj)
    return out


def reachable_in_writer(prog, w: ClassInfo, start: str = "_write") -> List[FuncInfo]:
    """Functions reachable from w._write through self-calls (MRO), functions of
    the writer's own module(s) and the featureWriters.ast helpers."""
    ix = prog.ix
    mods = {c.module.name for c in ix.mro(w)} | {"ufo2ft.featureWriters.ast"}
    m0 = ix.find_method(w, start)
    need(m0 is not None, f"{w.name}.{start} not found")
    seen, work, out = set(), [m0], []
    while work:
        f = work.pop()
        if f.qname in seen:
            continue
        seen.add(f.qname)
        out.append(f)
        for c in A.body_nodes(f.node):
            if not isinstance(c, ast.Call):
                continue
            fn = c.func
            if isinstance(fn, ast.Attribute) and isinstance(fn.value, ast.Name) and fn.value.id in ("self", "cls"):
                m = ix.find_method(w, fn.attr)
                if m is not None:
                    work.append(m)
                continue
            ts, how = prog.resolve_callee(f, fn)
            for t in ts:
                if isinstance(t, FuncInfo) and how == "exact" and t.module.name in mods:
                    work.append(t)
    return out


def registration_mode(prog, w: ClassInfo) -> Dict[str, List[str]]:
    explicit, implicit = [], []
    for f in reachable_in_writer(prog, w):
        for c in A.body_nodes(f.node):
            if not isinstance(c, ast.Call):
                continue
            n = A.callee_name(c)
            if n == "ScriptStatement":
                explicit.append(f"{f.short}: {T(c, 60)}")
            elif n == "addLookupReferences":
                s = A.arg_at(c, 2, "script")
                if s is not None and not A.is_const(s, None):
                    explicit.append(f"{f.short}: {T(c, 60)}")
                else:
                    implicit.append(f"{f.short}: {T(c, 60)}")
            elif n == "LookupReferenceStatement" and f.module.name != "ufo2ft.featureWriters.ast":
                implicit.append(f"{f.short}: {T(c, 60)}")
            elif n in ("append", "extend") and isinstance(c.func, ast.Attribute) and isinstance(c.func.value, ast.Attribute) \
                    and c.func.value.attr == "statements" and isinstance(c.func.value.value, ast.Name):
                # feature.statements.append(lookup) where feature is a FeatureBlock built in this function
                base = c.func.value.value
                for d in prog.reaching(f, base.id, base):
                    v, how = d.element()
                    if isinstance(v, ast.Call) and A.callee_name(v) == "FeatureBlock":
                        implicit.append(f"{f.short}: {T(c, 60)}")
    return {"explicit": explicit, "implicit": implicit}


def run(prog, chk):
    chk.decided += [
        "script-registration mode (explicit script/language statements vs. bare lookups that rely on languagesystem) agrees across the GPOS writers of the default writer list, or something adds languagesystem statements (R20.1)",
        "where scripts are registered explicitly, the languages registered under a tag are exactly those the feature file declares for that tag, default ['dflt'] (R20.2)",
        "the scripts / glyph classifications a writer registers are computed for the font of the current call: no per-font state or memoised result on the writer object (R20.3, shared with C08)",
    ]
    chk.not_decided += ["which scripts a given font ends up with in the compiled ScriptList"]
    writers = default_writers(prog)
    gpos = []
    for w in writers:
        tt = prog.ix.class_attr(w, "tableTag")
        tag = prog.ix.const_eval(tt[0].module, tt[1], tt[0]) if tt else None
        chk.ob("R20.1", f"{w.name}|tableTag", tag in ("GPOS", "GDEF", "GSUB"), where_cls(w), detail=f"tableTag={tag!r}", nontrivial=False,
               message=f"{w.name} has no recognisable tableTag")
        if tag == "GPOS":
            gpos.append(w)
    need(len(gpos) >= 2, "fewer than two GPOS writers in the default writer list")
    modes = {w.name: registration_mode(prog, w) for w in gpos}
    explicit_writers = [n for n, m in modes.items() if m["explicit"]]
    # does anything in the package add languagesystem statements?
    ls = [(f, c) for f in prog.ix.functions.values() for c in calls_named(f, "LanguageSystemStatement")]
    chk.extra["registration_modes"] = {n: {"explicit_sites": len(m["explicit"]), "implicit_sites": len(m["implicit"])} for n, m in modes.items()}
    chk.extra["languagesystem_insertion_sites"] = len(ls)
    for w in gpos:
        m = modes[w.name]
        if m["explicit"] and not m["implicit"]:
            chk.ob("R20.1", f"{w.name}|explicit registration", True, where_cls(w), detail=f"EXPLICIT ({len(m['explicit'])} site(s), e.g. {m['explicit'][0]})")
        elif m["implicit"] and not m["explicit"]:
            ok = not explicit_writers or bool(ls)
            chk.ob("R20.1", f"{w.name}|implicit registration while {'+'.join(sorted(explicit_writers)) or 'nobody'} registers scripts explicitly", ok, where_cls(w),
                   detail=f"IMPLICIT ({len(m['implicit'])} site(s), e.g. {m['implicit'][0]}); explicit writers: {explicit_writers}",
                   message=f"{w.name} emits bare lookups (reachable only through the feature file's languagesystem statements) while "
                           f"{explicit_writers} register code-point-derived scripts explicitly: a script that gets generated kerning "
                           f"can lack the generated {sorted(feature_tags(prog, w))} features")
        elif m["implicit"] and m["explicit"]:
            chk.ob("R20.1", f"{w.name}|mixed registration", False, where_cls(w), detail="MIXED",
                   message=f"{w.name} mixes explicit script registration and bare lookups")
        else:
            raise AnalysisError(f"cannot determine how {w.name} registers its lookups")
    chk.minimum("R20.1", 6)
    r202(prog, chk)
    # the scripts a writer registers are derived from the font of the current call only
    from . import c08
    c08.r087(prog, chk, "R20.3")


def feature_tags(prog, w: ClassInfo) -> Set[str]:
    ca = prog.ix.class_attr(w, "features")
    try:
        return set(prog.ix.const_eval(ca[0].module, ca[1], ca[0]))
    except Exception:
        return set()


def where_cls(w: ClassInfo) -> str:
    return f"{w.module.relpath}:{w.node.lineno}"


# ----------------------------------------------------------------------------- R20.2
def r202(prog, chk):
    """Explicit registration: at every addLookupReferences(feature, lookups, <tag>, <languages>)
    the languages are exactly the ones the feature file declares for that same tag
    (<declared-by-tag>.get(<tag>, ["dflt"])).  Registering a language under a tag for
    which it is not declared creates a language system that only the kerning
    feature knows."""
    n = 0
    for fi in prog.ix.functions.values():
        for c in calls_named(fi, "addLookupReferences"):
            tag = A.arg_at(c, 2, "script")
            langs = A.arg_at(c, 3, "languages")
            if tag is None:
                continue
            n += 1
            k = f"{fi.short}|{A.keytext(fi.node, c)[:70]}"
            v = langs
            if isinstance(v, ast.Name):
                ds = prog.reaching(fi, v.id, v)
                v = ds[0].element()[0] if len(ds) == 1 and ds[0].element()[1] is None else None
            ok = isinstance(v, ast.Call) and isinstance(v.func, ast.Attribute) and v.func.attr == "get" and len(v.args) == 2
            why = "languages are not `<declared languages by tag>.get(tag, ['dflt'])`"
            if ok:
                same = T(v.args[0]) == T(tag)
                if same and isinstance(tag, ast.Name):
                    # the same binding of the tag variable at both places
                    same = {id(d.binder) for d in prog.reaching(fi, tag.id, tag)} == {id(d.binder) for d in prog.reaching(fi, v.args[0].id, v.args[0])}
                dflt = isinstance(v.args[1], (ast.List, ast.Tuple)) and [T(x) for x in v.args[1].elts] == ["'dflt'"]
                src = "languages" in T(v.func.value).lower()
                ok = same and dflt and src
                why = (f"languages are looked up for `{T(v.args[0])}` but registered under `{T(tag)}`" if not same else
                       "the default is not ['dflt']" if not dflt else f"`{T(v.func.value)}` is not the declared-languages table")
            chk.ob("R20.2", k, ok, where(fi, c), detail=f"{T(tag)} -> {T(v, 60) if v is not None else T(langs)}",
                   message=f"{fi.short}: {why}: a script tag gets language systems that are not declared for it (only kerning is registered there)")
    chk.minimum("R20.2", 4)


MUTANTS = [
    M("script classification memoised on the writer (seeded C20c)", "ufo2ft/featureWriters/kernFeatureWriter.py", "KernFeatureWriter.knownScriptsPerCodepoint",
      "<decorate>", "functools.lru_cache(maxsize=None)", rule="R20.3"),
    M("languages gathered per Unicode script instead of per tag (seeded C20b)", "ufo2ft/featureWriters/kernFeatureWriter.py", "KernFeatureWriter._registerLookups",
      "languages = feaLanguagesByScript.get(tag, ['dflt'])", "languages = [l for t in unicodedata.ot_tags_from_script(script) for l in feaLanguagesByScript.get(t, ())] or ['dflt']", rule="R20.2"),
    M("v2 registers DFLT's languages under every tag", "ufo2ft/featureWriters/kernFeatureWriter2.py", "register_lookups",
      "languages = context.feaLanguagesByTag.get(tag, ['dflt'])", "languages = context.feaLanguagesByTag.get('DFLT', ['dflt'])", rule="R20.2"),
    M("undeclared tags get no language at all", "ufo2ft/featureWriters/kernFeatureWriter.py", "KernFeatureWriter._registerLookups",
      "languages = feaLanguagesByScript.get(tag, ['dflt'])", "languages = feaLanguagesByScript.get(tag, [])", rule="R20.2"),
    M("GDEF writer (or any third GPOS writer) starts registering scripts explicitly in only one writer", "ufo2ft/featureWriters/cursFeatureWriter.py", "CursFeatureWriter._makeCursiveFeature",
      "feature.statements.extend(lookups)", "ast.addLookupReferences(feature, lookups, 'DFLT', ['dflt'])\nfeature.statements.extend(lookups)", rule="R20.1"),
    M("a new default GPOS writer with bare lookups is added", "ufo2ft/featureCompiler.py", "FeatureCompiler",
      "[CursFeatureWriter, KernFeatureWriter, MarkFeatureWriter, GdefFeatureWriter]",
      "[CursFeatureWriter, KernFeatureWriter, MarkFeatureWriter, GdefFeatureWriter, ast]", rule="R20.1",
      note="non-class entry: the check must refuse to interpret the list (analysis error), not pass"),
    M("a second writer registers explicitly, leaving only mark implicit", "ufo2ft/featureWriters/cursFeatureWriter.py", "CursFeatureWriter._makeCursiveFeature",
      "feature.statements.extend(lookups)", "ast.addLookupReferences(feature, lookups, 'DFLT', ['dflt'])", rule="R20.1"),
    # equivalent
    M("kern writer passes the script by keyword", "ufo2ft/featureWriters/kernFeatureWriter.py", "KernFeatureWriter._registerLookups",
      "ast.addLookupReferences(feature, dfltLookups, 'DFLT', languages)", "ast.addLookupReferences(feature, dfltLookups, script='DFLT', languages=languages)", kind="equiv"),
]
