"""C10 - a variable font reproduces each master at that master's location (hand-off clauses)."""

from __future__ import annotations

import ast
from typing import Dict, List, Optional, Set, Tuple

from ..core import astutil as A
from ..core.index import AnalysisError, FuncInfo
from ..selftest import M
from .common import atoms_of, conjuncts, may_conds, BASE_ICOMPILER, T, attr_stores, calls_named, conds, every_origin, facts, need, subscript_stores, where

KERN1 = "ufo2ft.featureWriters.kernFeatureWriter"
KERN2 = "ufo2ft.featureWriters.kernFeatureWriter2"
BASEW = "ufo2ft.featureWriters.baseFeatureWriter.BaseFeatureWriter"


def run(prog, chk):
    chk.decided += [
        "variable kerning: every full source contributes a value for every pair of the union of all sources' pairs, at its own location, from its own kerning (UFO precedence via lookupKerningValue); only sparse layers and pairs naming unknown glyphs are skipped; a missing default location is filled (R10.1)",
        "variable anchors: one value per source layer that has the glyph and the anchor, from the right layer (source.font or its named layer), skipping only layers without the glyph (R10.2)",
        "variable layout is chosen only when variableFeatures is set and every interpolable sub-document has compatible features; GSUB is excluded from the merge exactly then, and feature variations are added back after the variable features are compiled (R10.3)",
        "masters are compiled without features exactly when variable features are built; the UFO sources are remembered before they are replaced by the compiled masters; variable features are compiled from those UFOs with the default master's glyph set (R10.4)",
        "collapse_varscalar only collapses when all values agree; get_userspace_location maps design to user space and keys by axis tag (R10.5)",
        "_featuresCompatible: all masters' feature text equals the default's, or only the default has any (R10.6)",
    ]
    chk.decided += ["every designspace source ends up with a name of its own (renamed while the name is None or already used): the per-name tables of the variable pipeline never merge two masters (R10.10)"]
    chk.decided += ["TrueType composites whose component 2x2 differs between masters are decomposed (gvar cannot vary a component's scale): the comparison covers all masters for every composite (R10.9 = R09.1)"]
    chk.decided += ["an existing mark class definition only stands for a (variable) anchor that equals it field by field (shared with C06) (R10.8)"]
    chk.decided += ["for a designspace the kerning groups are collected from every source's font, not from one master (a class pair of a master whose group the others lack keeps its value) (R10.7)"]
    chk.decided += ["feature-writer objects keep no per-font state outside self.context (no memoising decorators, no attributes written outside __init__): a writer reused for the next designspace must not keep the previous one's sources (R10.11 = R08.7)"]
    chk.decided += ["per-run accumulators of the interpolatable filters are per master: a name-keyed memo shared by all masters would give every master the first master's component offsets (R10.12 = R09.10 = R15.7)"]
    chk.decided += ["no function writes to a module-level container or rebinds a module global: nothing of one designspace (memoised user-space locations, models) can reach the compile of another one (R10.13 = R08.13)"]
    chk.not_decided += ["gvar / HVAR / GPOS variation data computed by fontTools.varLib and feaLib", "numeric reproduction of the masters"]
    chk.guard(r101, prog, chk)
    chk.guard(r102, prog, chk)
    chk.guard(r103, prog, chk)
    chk.guard(r104, prog, chk)
    chk.guard(r105, prog, chk)
    chk.guard(r106, prog, chk)
    chk.guard(r107, prog, chk)
    from .c06 import r0618
    chk.guard(r0618, prog, chk, "R10.8")
    from .c09 import check_nonmatching_components
    chk.guard(check_nonmatching_components, prog, chk, "R10.9")
    chk.guard(r1010, prog, chk)
    from .c08 import r087
    chk.guard(r087, prog, chk, "R10.11")
    from .c09 import check_master_isolation
    chk.guard(check_master_isolation, prog, chk, "R10.12")
    chk.guard(check_no_module_state, prog, chk, "R10.13")


def _source_loops(prog, f: FuncInfo) -> List[ast.For]:
    return [n for n in A.body_nodes(f.node) if isinstance(n, ast.For) and isinstance(n.iter, ast.Attribute) and n.iter.attr == "sources"]


def _direct_stmts(loop: ast.For):
    """statements of the loop body that are not inside a nested loop"""
    out = []

    def rec(stmts):
        for s in stmts:
            out.append(s)
            if isinstance(s, (ast.For, ast.While)):
                continue
            for fld in ("body", "orelse", "finalbody"):
                rec(getattr(s, fld, []) or [])
            for h in getattr(s, "handlers", []) or []:
                rec(h.body)
    rec(loop.body)
    return out


# ----------------------------------------------------------------------------- R10.1
def r101(prog, chk):
    ix = prog.ix
    for f in (ix.get_method(f"{KERN1}.KernFeatureWriter", "getVariableKerningPairs"), ix.get_func(f"{KERN2}:get_variable_kerning_pairs")):
        allfor = [n for n in A.body_nodes(f.node) if isinstance(n, ast.For)]
        collect = [l for l in allfor if any(isinstance(n, ast.AugAssign) and isinstance(n.op, ast.BitOr) for n in l.body)]
        values = [l for l in allfor if any(isinstance(n, ast.Assign) and "get_userspace_location" in T(n.value) for n in l.body)]
        need(len(collect) == 1 and len(values) == 1, f"cannot interpret {f.short}: pair-collection loop and value loop")
        bad_iter = []
        for l in (collect[0], values[0]):
            it = l.iter
            okit = isinstance(it, ast.Attribute) and it.attr == "sources"
            if not okit and isinstance(it, ast.Name):
                ds = prog.reaching(f, it.id, it)
                okit = len(ds) == 1 and isinstance(ds[0].value, ast.ListComp) and T(ds[0].value.generators[0].iter).endswith(".sources") \
                    and all(T(c).endswith(".layerName is None") for c in ds[0].value.generators[0].ifs)
            if not okit:
                bad_iter.append(T(it))
        chk.ob("R10.1", f"{f.short}|both loops run over all sources of the designspace", not bad_iter, where(f, values[0]), detail="for source in designspace.sources",
               message=f"{f.short}: kerning values are only collected from a filtered list of sources ({bad_iter}): a full master left out of it gets interpolated kerning "
                       f"at its own location instead of its own values (a master without any kerning must contribute zeros)")
        if bad_iter:
            continue
        cl, vl = collect[0], values[0]
        sv = A.target_names(vl.target)[0]
        # (a) union of all full sources' pairs
        aug = [n for n in ast.walk(cl) if isinstance(n, ast.AugAssign)][0]
        csv = A.target_names(cl.target)[0]
        ok = isinstance(aug.value, ast.Call) and A.callee_name(aug.value) == "set" and T(aug.value.args[0]) == f"{csv}.font.kerning"
        skips = [s for s in _direct_stmts(cl) if isinstance(s, ast.Continue)]
        oks = all(T(ix.parent(s).test) == f"{csv}.layerName is not None" for s in skips)
        chk.ob("R10.1", f"{f.short}|pairs = union of every full source's kerning keys", ok and oks, where(f, cl), detail=T(aug),
               message=f"{f.short}: the set of pairs is not the union over all full sources (a pair present in one master only gets no value elsewhere)")
        allp = aug.target.id if isinstance(aug.target, ast.Name) else None
        # (b) skips directly in the source loop: only sparse layers
        skips = [s for s in _direct_stmts(vl) if isinstance(s, ast.Continue)]
        ok = all(isinstance(ix.parent(s), ast.If) and T(ix.parent(s).test) == f"{sv}.layerName is not None" for s in skips) and len(skips) <= 1
        chk.ob("R10.1", f"{f.short}|the only sources skipped are sparse layers", ok, where(f, vl), detail=f"{len(skips)} skip(s): {[T(ix.parent(s).test) for s in skips]}",
               message=f"{f.short}: a full source can be skipped (its location gets no kerning value and the variation model interpolates instead)")
        # (c) inner loop over all pairs; skips only unknown glyphs
        inner = [n for n in vl.body if isinstance(n, ast.For)]
        need(len(inner) == 1, f"cannot interpret {f.short}: pair loop")
        il = inner[0]
        ok = isinstance(il.iter, ast.Name) and il.iter.id == allp
        conts = [s for s in ast.walk(il) if isinstance(s, ast.Continue)]
        def skips_unknown_glyph(cont):
            """the innermost guard of the skip reads as a conjunction with a literal `<side> not in <glyph set>`"""
            gs = [g for g in conds(prog, f, cont) if g.polarity in (True, False) and any(a is il for a in ix.ancestors(g.loc))]
            for g in gs:
                lits = conjuncts(g) or []
                if any(isinstance(x, ast.Compare) and len(x.ops) == 1 and isinstance(x.ops[0], ast.NotIn) and "glyphSet" in T(x.comparators[0]) for x in lits):
                    return True
            return False
        okc = len(conts) == 2 and all(skips_unknown_glyph(s_) for s_ in conts)
        chk.ob("R10.1", f"{f.short}|every pair of the union is visited for every source; only pairs naming unknown glyphs are skipped", ok and okc, where(f, il), detail=f"for pair in {allp}; {len(conts)} skips",
               message=f"{f.short}: a source does not contribute a value for every collected pair")
        # (d) location and kerning come from the same loop variable
        locs = [s for s in vl.body if isinstance(s, ast.Assign) and isinstance(s.value, ast.Call) and "get_userspace_location" in T(s.value)]
        ok = len(locs) == 1 and f"{sv}.location" in T(locs[0].value)
        kern = [s for s in vl.body if isinstance(s, (ast.Assign, ast.AnnAssign)) and s.value is not None and T(s.value) == f"{sv}.font.kerning"]
        chk.ob("R10.1", f"{f.short}|location and kerning dict are this source's", ok and len(kern) == 1, where(f, vl), detail=f"{T(locs[0].value, 70) if locs else ''}; kerning = {sv}.font.kerning",
               message=f"{f.short}: the value is recorded at another source's location or read from another source's kerning")
        # (e) stored at that location into the scalar of the (side1, side2) key
        st = [(s, t, v) for s, t, v in subscript_stores(f) if isinstance(t.value, ast.Attribute) and t.value.attr == "values" and any(a is il for a in ix.ancestors(s))]
        ok = len(st) == 1 and locs and T(st[0][1].slice) == A.target_names(locs[0].targets[0])[0]
        if ok:
            vs = st[0][1].value.value
            ds = prog.reaching(f, vs.id, vs) if isinstance(vs, ast.Name) else []
            ok = len(ds) == 1 and isinstance(ds[0].value, ast.Call) and A.callee_name(ds[0].value) == "setdefault" and isinstance(ds[0].value.args[0], ast.Tuple) and len(ds[0].value.args[0].elts) == 2 \
                and isinstance(ds[0].value.args[1], ast.Call) and A.callee_name(ds[0].value.args[1]) == "VariableScalar"
        chk.ob("R10.1", f"{f.short}|value stored at this source's location in the pair's own scalar", ok, where(f, st[0][0]) if st else where(f), detail="scalars.setdefault((side1, side2), VariableScalar()).values[location] = value",
               message=f"{f.short}: the per-source value is not stored under its own location in the scalar of its own pair")
        # (f) default location filled
        fill = [(s, t, v) for s, t, v in subscript_stores(f) if isinstance(t.value, ast.Attribute) and t.value.attr == "values" and A.is_const(v, 0)]
        ok = len(fill) == 1 and any(o == "notin" for o, l, r in facts(prog, f, fill[0][0]))
        if ok:
            dl = fill[0][1].slice
            ds = prog.reaching(f, dl.id, dl) if isinstance(dl, ast.Name) else []
            ok = len(ds) == 1 and "get_userspace_location" in T(ds[0].value) and ".location" in T(ds[0].value)
            if ok:
                src = [x for x in ast.walk(ds[0].value) if isinstance(x, ast.Attribute) and x.attr == "location"][0].value
                sd = prog.reaching(f, src.id, src) if isinstance(src, ast.Name) else []
                ok = len(sd) == 1 and isinstance(sd[0].value, ast.Call) and A.callee_name(sd[0].value) == "findDefault"
        chk.ob("R10.1", f"{f.short}|a scalar without a value at the default location gets 0 there", ok, where(f, fill[0][0]) if fill else where(f), detail="if default_location not in value.values: value.values[default_location] = 0",
               message=f"{f.short}: the default location is not filled / is not the designspace default")
    chk.minimum("R10.1", 12)


# ----------------------------------------------------------------------------- R10.2
def r102(prog, chk, rule="R10.2"):
    ix = prog.ix
    ga = ix.get_method(BASEW, "_getAnchor", own=True)
    loops = _source_loops(prog, ga)
    need(len(loops) == 1, f"cannot interpret {ga.short}: source loop")
    lp = loops[0]
    sv = A.target_names(lp.target)[0]
    fs = facts(prog, ga, lp)
    chk.ob(rule, f"{ga.short}|source loop runs for variable fonts", any(o == "truthy" and l.endswith("isVariable") for o, l, r in fs), where(ga, lp), detail="if self.context.isVariable", nontrivial=False,
           message=f"{ga.short}: the per-source loop is not the variable branch")
    lay = [s for s in ast.walk(lp) if isinstance(s, ast.Assign) and isinstance(s.targets[0], ast.Name) and (T(s.value) == f"{sv}.font" or T(s.value) == f"{sv}.font.layers[{sv}.layerName]")]
    ok = len(lay) == 2 and len({s.targets[0].id for s in lay}) == 1
    if ok:
        for s in lay:
            f_ = facts(prog, ga, s)
            if T(s.value) == f"{sv}.font":
                ok = ok and any(o == "is" and l == f"{sv}.layerName" and r == "None" for o, l, r in f_)
            else:
                ok = ok and any(o == "isnot" and l == f"{sv}.layerName" and r == "None" for o, l, r in f_)
    chk.ob(rule, f"{ga.short}|layer = source.font, or its named layer for sparse sources", ok, where(ga, lp), detail="layer = source.font if source.layerName is None else source.font.layers[source.layerName]",
           message=f"{ga.short}: anchors of a sparse source are not read from its own layer (or full sources from the default layer)")
    conts = [s for s in _direct_stmts(lp) if isinstance(s, ast.Continue)]
    layer = lay[0].targets[0].id if lay else "?"
    ok = len(conts) == 1 and isinstance(ix.parent(conts[0]), ast.If) and isinstance(ix.parent(conts[0]).test, ast.Compare) and isinstance(ix.parent(conts[0]).test.ops[0], ast.NotIn) \
        and T(ix.parent(conts[0]).test.comparators[0]) == layer
    chk.ob(rule, f"{ga.short}|only layers without the glyph are skipped", ok, where(ga, lp), detail=f"if glyphName not in {layer}: continue",
           message=f"{ga.short}: a source that has the glyph can be skipped (no anchor value at its location)")
    adds = [c for c in calls_named(ga, "add_value")]
    breaks = [s for s in ast.walk(lp) if isinstance(s, (ast.Break, ast.Return))]
    # the two values are recorded inside the source loop, for the anchor of the requested name, under no other condition
    in_loop = all(any(a is lp for a in ix.ancestors(c)) for c in adds)
    extra = []
    for c in adds:
        for g in conds(prog, ga, c):
            if g.polarity not in (True, False) or not any(a is lp for a in ix.ancestors(g.loc)):
                continue
            ats = atoms_of(g.test, g.polarity)
            okg = any((o == "eq" and (l.endswith(".name") or r.endswith(".name"))) or (o == "in" and r == layer) for o, l, r in ats)
            if not okg:
                extra.append(T(g.test, 50))
    chk.ob(rule, f"{ga.short}|both coordinates recorded for every source, no early exit", len(adds) == 2 and not breaks and len({T(c.func.value) for c in adds}) == 2 and in_loop and not extra, where(ga, lp),
           detail="x_value.add_value / y_value.add_value under `anchor.name == anchorName` only",
           message=f"{ga.short}: the source loop can stop early, records only one coordinate, or leaves a source that has the anchor out of the variable scalar "
                   f"({'values are added outside the source loop' if not in_loop else extra[:2]}): at that master's location the anchor is interpolated from the other masters instead of being the master's own")
    glyph_from_layer = [s for s in ast.walk(lp) if isinstance(s, ast.Assign) and isinstance(s.value, ast.Subscript) and T(s.value.value) == layer]
    inner = [n for n in ast.walk(lp) if isinstance(n, ast.For) and n is not lp]
    ok = len(glyph_from_layer) == 1 and len(inner) == 1 and T(inner[0].iter) == f"{glyph_from_layer[0].targets[0].id}.anchors"
    chk.ob(rule, f"{ga.short}|anchors are read from that layer's glyph", ok, where(ga, lp), detail=f"glyph = {layer}[glyphName]; for anchor in glyph.anchors",
           message=f"{ga.short}: anchors are not read from the glyph of the current source layer")
    chk.minimum(rule, 5)


# ----------------------------------------------------------------------------- R10.3
def r103(prog, chk):
    ix = prog.ix
    cn = ix.get_method(BASE_ICOMPILER, "_compileNeededSources", own=True)
    st = [s for s in A.stmts_of(cn.node) if isinstance(s, ast.Assign) and isinstance(s.value, ast.BoolOp) and isinstance(s.value.op, ast.And) and any("_featuresCompatible" in T(v) for v in s.value.values)]
    need(len(st) == 1, f"cannot interpret {cn.short}: can_optimize_features")
    v = st[0].value
    flag = st[0].targets[0].id
    subdocs = [s for s in A.stmts_of(cn.node) if isinstance(s, ast.Assign) and isinstance(s.value, ast.ListComp) and "splitInterpolable" in T(s.value)]
    ok = len(v.values) == 2 and T(v.values[0]) == "self.variableFeatures"
    al = v.values[1]
    ok = ok and isinstance(al, ast.Call) and A.callee_name(al) == "all" and isinstance(al.args[0], ast.GeneratorExp) and A.callee_name(al.args[0].elt) == "_featuresCompatible" \
        and subdocs and T(al.args[0].generators[0].iter) == subdocs[0].targets[0].id and not al.args[0].generators[0].ifs
    chk.ob("R10.3", f"{cn.short}|variable features only when requested and compatible in every interpolable sub-document", ok, where(cn, st[0]), detail=T(v, 120),
           message=f"{cn.short}: variable features can be chosen although some sub-document's masters have different features (their GPOS/GSUB would come from the default master only)")
    rets = [r for r in A.returns_of(cn.node) if isinstance(r.value, ast.Tuple)]
    need(len(rets) == 1, f"cannot interpret {cn.short}: return")
    pos = [i for i, e in enumerate(rets[0].value.elts) if T(e) == flag]
    cv = ix.get_method(BASE_ICOMPILER, "compile_variable", own=True)
    call = [s for s in A.stmts_of(cv.node) if isinstance(s, ast.Assign) and isinstance(s.value, ast.Call) and A.callee_name(s.value) == "_compileNeededSources"]
    need(len(call) == 1 and pos and isinstance(call[0].targets[0], ast.Tuple), f"cannot interpret {cv.short}")
    bvf = call[0].targets[0].elts[pos[0]].id
    ex = [s for s in A.stmts_of(cv.node) if isinstance(s, ast.Assign) and "'GSUB'" in T(s.value)]
    ok = len(ex) == 1 and any(o == "truthy" and l == bvf for o, l, r in facts(prog, cv, ex[0])) and isinstance(ex[0].value, ast.BinOp) and isinstance(ex[0].value.op, ast.BitOr)
    mg = [c for c in calls_named(cv, "_merge")]
    okm = len(mg) == 1 and ex and T(mg[0].args[1]) == ex[0].targets[0].id
    chk.ob("R10.3", f"{cv.short}|GSUB excluded from the merge exactly when variable features are built", ok and okm, where(cv, ex[0]) if ex else where(cv), detail=T(ex[0]) if ex else "",
           message=f"{cv.short}: GSUB feature variations are dropped from the merge without variable features being built (or the exclusion is not handed to the merge)")
    cav = [c for c in calls_named(cv, "compile_all_variable_features")]
    ok = len(cav) == 1 and any(o == "truthy" and l == bvf for o, l, r in facts(prog, cv, cav[0]))
    cfg = prog.cfg(cv)
    ok = ok and mg and cfg.exists_path(cfg.node_of(mg[0]), [cfg.node_of(cav[0])])
    chk.ob("R10.3", f"{cv.short}|variable features compiled after the merge under the same flag", ok, where(cv, cav[0]) if cav else where(cv), detail="if buildVariableFeatures: self.compile_all_variable_features(...)",
           message=f"{cv.short}: the merged font does not get its variable features although masters were compiled without features")
    cf = ix.get_method(BASE_ICOMPILER, "compile_variable_features", own=True)
    addb = [c for c in A.body_nodes(cf.node) if isinstance(c, ast.Call) and A.callee_name(c) == "addGSUBFeatureVariations"]
    comp = [c for c in calls_named(cf, "compile") if isinstance(c.func, ast.Attribute)]
    cfg2 = prog.cfg(cf)
    ok = len(addb) == 1 and len(comp) == 1 and cfg2.dominates(cfg2.node_of(comp[0]), cfg2.node_of(addb[0])) and not may_conds(prog, cf, addb[0]) \
        and [T(a) for a in addb[0].args] == [cf.params()[2], cf.params()[1]]
    chk.ob("R10.3", f"{cf.short}|feature variations added back after the variable features are compiled", ok, where(cf, addb[0]) if addb else where(cf), detail="varLib.addGSUBFeatureVariations(ttFont, designSpaceDoc)",
           message=f"{cf.short}: designspace rules (GSUB feature variations) excluded from the merge are not added back unconditionally after compiling the variable features")
    chk.minimum("R10.3", 4)


# ----------------------------------------------------------------------------- R10.4
def r104(prog, chk):
    ix = prog.ix
    cn = ix.get_method(BASE_ICOMPILER, "_compileNeededSources", own=True)
    flag = [s for s in A.stmts_of(cn.node) if isinstance(s, ast.Assign) and isinstance(s.value, ast.BoolOp) and any("_featuresCompatible" in T(v) for v in s.value.values)][0].targets[0].id
    sk = [s for s in A.stmts_of(cn.node) if isinstance(s, ast.Assign) and isinstance(s.targets[0], ast.Tuple) and any(T(e) == "self.skipFeatureCompilation" for e in s.targets[0].elts)]
    ok = len(sk) == 1 and isinstance(sk[0].value, ast.Tuple)
    if ok:
        i = [T(e) for e in sk[0].targets[0].elts].index("self.skipFeatureCompilation")
        ok = T(sk[0].value.elts[i]) == flag
    chk.ob("R10.4", f"{cn.short}|masters skip feature compilation exactly when variable features are built", ok, where(cn, sk[0]) if sk else where(cn), detail=f"self.skipFeatureCompilation = {flag}",
           message=f"{cn.short}: masters are compiled without (or with) features independently of the variable-features decision")
    # UFO sources are remembered before they are replaced
    osrc = [(s, t, v) for s, t, v in subscript_stores(cn) if isinstance(v, ast.Attribute) and v.attr == "font" and isinstance(v.value, ast.Subscript)]
    repl = [(s, t, v) for s, t, v in attr_stores(cn, "font") if isinstance(t.value, ast.Subscript)]
    ok = len(osrc) == 1 and len(repl) == 1
    if ok:
        cfg = prog.cfg(cn)
        ok = T(osrc[0][2].value) == T(repl[0][1].value) and cfg.exists_path(cfg.node_of(osrc[0][0]), [cfg.node_of(repl[0][0])]) \
            and ix.parent(repl[0][0]) is ix.parent(ix.parent(osrc[0][0])) and T(osrc[0][1].slice) == T(osrc[0][2].value.slice) \
            and ix.parent(repl[0][0]).body.index(ix.parent(osrc[0][0])) < ix.parent(repl[0][0]).body.index(repl[0][0])
        ok = ok and any(o == "truthy" and l == flag for o, l, r in facts(prog, cn, osrc[0][0]))
    chk.ob("R10.4", f"{cn.short}|the UFO of each source is remembered before the compiled master replaces it", ok, where(cn, osrc[0][0]) if osrc else where(cn), detail="originalSources[name] = sourcesByName[name].font; sourcesByName[name].font = ttfSource.font",
           message=f"{cn.short}: the variable features would be compiled from the compiled TTFs / from another source's UFO")
    og = [(s, t, v) for s, t, v in subscript_stores(cn) if isinstance(v, ast.Name) and any(isinstance(a, ast.For) and v.id in A.target_names(a.target) and isinstance(a.iter, ast.Call) for a in ix.ancestors(s))]
    ok = len(og) == 1
    if ok:
        lp = [a for a in ix.ancestors(og[0][0]) if isinstance(a, ast.For)][0]
        ok = isinstance(lp.iter, ast.Call) and A.callee_name(lp.iter) == "zip" and T(lp.iter.args[1]) == "self.glyphSets" and ".sources" in T(lp.iter.args[0])
    chk.ob("R10.4", f"{cn.short}|each source's pre-processed glyph set is remembered under its name", ok, where(cn, og[0][0]) if og else where(cn), detail="for ttfSource, glyphSet in zip(ttfDesignSpace.sources, self.glyphSets)",
           message=f"{cn.short}: glyph sets are not paired with their own sources")
    ca = ix.get_method(BASE_ICOMPILER, "compile_all_variable_features", own=True)
    st = [(s, t, v) for s, t, v in attr_stores(ca, "font")]
    ok = len(st) == 1 and isinstance(st[0][2], ast.Subscript) and T(st[0][2].value) == ca.params()[3]
    if ok:
        lp = [a for a in ix.ancestors(st[0][0]) if isinstance(a, ast.For)][0]
        tn = A.target_names(lp.target)
        ok = isinstance(lp.iter, ast.Call) and A.callee_name(lp.iter) == "zip" and T(st[0][2].slice) == f"{tn[0]}.name" and T(st[0][1].value) == tn[1]
        a0, a1 = lp.iter.args
        ds = prog.reaching(ca, a1.value.id, a1.value) if isinstance(a1, ast.Attribute) and isinstance(a1.value, ast.Name) else []
        ok = ok and len(ds) == 1 and isinstance(ds[0].value, ast.Call) and A.callee_name(ds[0].value) == "deepcopyExceptFonts" and T(ds[0].value.func.value) == T(a0.value)
    chk.ob("R10.4", f"{ca.short}|UFO-sourced copy of the same sub-document, source by source", ok, where(ca, st[0][0]) if st else where(ca), detail="ufoSource.font = originalSources[ttfSource.name]",
           message=f"{ca.short}: the UFOs are not put back into a copy of the same variable-font document in source order")
    dg = [s for s in A.stmts_of(ca.node) if isinstance(s, ast.Assign) and isinstance(s.value, ast.Subscript) and T(s.value.value) == ca.params()[4]]
    ok = len(dg) == 1 and "findDefault().name" in T(dg[0].value.slice)
    call = [c for c in calls_named(ca, "compile_variable_features")]
    ok = ok and len(call) == 1 and T(call[0].args[2]) == dg[0].targets[0].id
    chk.ob("R10.4", f"{ca.short}|features are compiled against the default master's glyph set", ok, where(ca), detail="defaultGlyphset = originalGlyphsets[ufoDoc.findDefault().name]",
           message=f"{ca.short}: the glyph set handed to the variable feature compiler is not the default master's")
    chk.minimum("R10.4", 5)


# ----------------------------------------------------------------------------- R10.5
def r105(prog, chk):
    ix = prog.ix
    cv = ix.get_func("ufo2ft.util:collapse_varscalar")
    rets = A.returns_of(cv.node)
    need(len(rets) == 2, "cannot interpret collapse_varscalar")
    plain = [r for r in rets if T(r.value) != cv.params()[0]]
    same = [r for r in rets if T(r.value) == cv.params()[0]]
    ok = len(plain) == 1 and len(same) == 1
    if ok:
        g = [g for g in conds(prog, cv, plain[0]) if g.kind == "if"]
        ok = len(g) == 1 and isinstance(g[0].test, ast.Call) and A.callee_name(g[0].test) == "any" and g[0].polarity is False
        if ok:
            ge = g[0].test.args[0]
            ok = isinstance(ge, ast.GeneratorExp) and isinstance(ge.elt, ast.Compare) and isinstance(ge.elt.ops[0], ast.Gt) and "abs(" in T(ge.elt.left) and T(ge.elt.comparators[0]) == cv.params()[1]
    thr = cv.node.args.defaults
    okd = len(thr) == 1 and A.is_const(thr[0], 0)
    chk.ob("R10.5", f"{cv.short}|collapses only when no value differs from the first by more than the threshold (default 0)", ok and okd, where(cv), detail="if not any(abs(v - values[0]) > threshold ...)",
           message="collapse_varscalar can turn a really varying scalar into a constant (masters other than the first lose their value)")
    callers = [(f, c) for f in ix.functions.values() for c in calls_named(f, "collapse_varscalar") if f is not cv]
    ok = bool(callers) and all(len(c.args) == 1 and not c.keywords for f, c in callers)
    chk.ob("R10.5", "collapse_varscalar is always called with the default threshold", ok, "", detail=f"{len(callers)} call sites",
           message="a caller passes a non-zero collapse threshold: small master differences are discarded")
    gl = ix.get_func("ufo2ft.util:get_userspace_location")
    txt = T(gl.node, 600)
    ds, loc = gl.params()
    mb = [c for c in calls_named(gl, "map_backward")]
    r = A.returns_of(gl.node)
    # form A: the whole location through the document, then re-keyed by tag
    okA = len(mb) == 1 and T(mb[0].func.value) == ds and len(mb[0].args) == 1 and T(mb[0].args[0]) == loc \
        and len(r) == 1 and isinstance(r[0].value, ast.DictComp) and ".tag" in T(r[0].value.key) and "getAxis" in T(r[0].value.key)
    # form B: axis by axis - result[axis.tag] = axis.map_backward(<this axis' design coordinate>)
    okB = False
    loops = [n for n in A.body_nodes(gl.node) if isinstance(n, ast.For) and isinstance(n.target, ast.Name) and T(n.iter) == f"{ds}.axes"]
    if len(loops) == 1 and len(mb) == 1:
        ax = loops[0].target.id
        sts = [(s_, t, v) for s_, t, v in subscript_stores(gl) if T(t.slice) == f"{ax}.tag" and v is mb[0]]
        okB = len(sts) == 1 and T(mb[0].func.value) == ax and len(mb[0].args) == 1 and len(r) == 1 and T(r[0].value) == T(sts[0][1].value) \
            and not any(isinstance(x, (ast.Continue, ast.Break)) for x in ast.walk(loops[0]))
        if okB:
            okv, _ = every_origin(prog, gl, mb[0].args[0], lambda x, ff: (isinstance(x, ast.Subscript) and T(x.value) == loc and T(x.slice) == f"{ax}.name")
                                  or (isinstance(x, ast.Call) and isinstance(x.func, ast.Attribute) and x.func.attr == "get" and T(x.func.value) == loc and x.args and T(x.args[0]) == f"{ax}.name")
                                  or (isinstance(x, ast.Call) and isinstance(x.func, ast.Attribute) and x.func.attr == "map_forward" and T(x.func.value) == ax), allow_const=False)
            okB = okv
    ok = okA or okB
    # a coordinate is never chosen by truthiness: 0 is a position on the axis, not "no value"
    truthy = [n for n in A.body_nodes(gl.node) if (isinstance(n, ast.BoolOp) and not isinstance(ix.parent(n), (ast.If, ast.While, ast.BoolOp, ast.IfExp, ast.UnaryOp)))
              or (isinstance(n, ast.IfExp) and not isinstance(n.test, (ast.Compare, ast.BoolOp)))
              or (isinstance(n, ast.If) and isinstance(n.test, (ast.Name, ast.Attribute, ast.Subscript, ast.Call)) and not (isinstance(n.test, ast.Call) and A.callee_name(n.test) in ("isinstance", "hasattr")))]
    chk.ob("R10.5", f"{gl.short}|no axis coordinate is chosen by truthiness", not truthy, where(gl, truthy[0]) if truthy else where(gl), detail="0 is a coordinate",
           message=f"{gl.short}: an axis coordinate goes through a truthiness test (`{T(truthy[0], 60) if truthy else ''}`): a master at coordinate 0 is treated as having no value "
                   f"on that axis and its kerning / anchor values are filed at the default location")
    chk.ob("R10.5", f"{gl.short}|design location mapped backward to user space, keyed by axis tag", ok, where(gl), detail="designspace.map_backward(location); {getAxis(k).tag: v}",
           message="get_userspace_location no longer converts a design-space location to user space keyed by axis tag (values land at the wrong place of the axis mapping)")
    chk.minimum("R10.5", 4)


# ----------------------------------------------------------------------------- R10.6
def r106(prog, chk):
    ix = prog.ix
    fc = ix.get_func("ufo2ft.featureCompiler:_featuresCompatible")
    rets = A.returns_of(fc.node)
    need(len(rets) == 1, "cannot interpret _featuresCompatible")
    v = rets[0].value
    ok = isinstance(v, ast.BoolOp) and isinstance(v.op, ast.Or) and len(v.values) == 2 and all(isinstance(x, ast.Call) and A.callee_name(x) == "all" for x in v.values)
    if ok:
        a, b = v.values
        ga, gb = a.args[0], b.args[0]
        ok = isinstance(ga.elt, ast.Compare) and isinstance(ga.elt.ops[0], ast.Eq) and isinstance(gb.elt, ast.UnaryOp) and isinstance(gb.elt.op, ast.Not) \
            and isinstance(ga.generators[0].iter, ast.Subscript) and A.is_const(ga.generators[0].iter.slice.lower, 1) and T(ga.generators[0].iter) == T(gb.generators[0].iter)
        if ok:
            first = [x for x in (ga.elt.left, ga.elt.comparators[0]) if isinstance(x, ast.Name) and x.id not in A.target_names(ga.generators[0].target)]
            ok = len(first) == 1
            if ok:
                ds = prog.reaching(fc, first[0].id, first[0])
                ok = len(ds) == 1 and isinstance(ds[0].value, ast.Subscript) and A.is_const(ds[0].value.slice, 0) and T(ds[0].value.value) == T(ga.generators[0].iter.value)
    chk.ob("R10.6", f"{fc.short}|all other masters equal the first, or all others are empty", ok, where(fc, rets[0]), detail=T(v, 100),
           message="_featuresCompatible accepts masters whose features differ from the default master's")
    srt = [s for s in A.stmts_of(fc.node) if isinstance(s, ast.Assign) and isinstance(s.value, ast.Call) and A.callee_name(s.value) == "sorted"]
    ok = len(srt) == 1 and ".default" in T(A.kwarg(srt[0].value, "key")) and "!=" in T(A.kwarg(srt[0].value, "key"))
    asr = [s for s in A.stmts_of(fc.node) if isinstance(s, ast.Assert) and ".default" in T(s.test) and "[0]" in T(s.test)]
    chk.ob("R10.6", f"{fc.short}|the reference (first) is the default source", ok and len(asr) == 1, where(fc), detail="sorted(sources, key=lambda s: s != default); assert sources[0] == default",
           message="_featuresCompatible compares against a master other than the default (whose features the variable build uses)")
    tr = [s for s in A.stmts_of(fc.node) if isinstance(s, ast.Assign) and isinstance(s.value, ast.ListComp) and A.callee_name(s.value.elt) == "transform"]
    ok = len(tr) == 1 and srt and T(tr[0].value.generators[0].iter) == srt[0].targets[0].id and not tr[0].value.generators[0].ifs
    chk.ob("R10.6", f"{fc.short}|every source takes part in the comparison", ok, where(fc), detail="[transform(s) for s in sources]", message="_featuresCompatible leaves some masters out of the comparison")
    chk.minimum("R10.6", 3)


# ----------------------------------------------------------------------------- R10.7
def r107(prog, chk):
    """Variable kerning is recorded per source from that source's kerning dict (R10.1); a class pair only survives when its
    group is known, so the groups must be collected from every source as well."""
    from .common import atoms_of
    ix = prog.ix

    def is_ds(fs, truth):
        op = "truthy" if truth else "falsy"
        return any(o == op and ("DesignSpaceDocument" in l or l.endswith("isVariable")) for o, l, r in fs)

    for f in (ix.get_method(f"{KERN1}.KernFeatureWriter", "getKerningGroups"), ix.get_func(f"{KERN2}:get_kerning_groups")):
        loops = [n for n in A.body_nodes(f.node) if isinstance(n, ast.For) and isinstance(n.target, ast.Name)
                 and any(isinstance(x, ast.Attribute) and x.attr == "groups" and isinstance(x.value, ast.Name) and x.value.id == n.target.id for x in ast.walk(n))]
        need(len(loops) == 1, f"cannot interpret {f.short}: loop over the fonts whose groups are read")
        lp = loops[0]
        cands = []  # (expression, facts in force)

        def expand(e, fs):
            if isinstance(e, ast.IfExp):
                expand(e.body, fs | set(atoms_of(e.test, True)))
                expand(e.orelse, fs | set(atoms_of(e.test, False)))
            else:
                cands.append((e, fs))

        if isinstance(lp.iter, ast.Name):
            for d in prog.reaching(f, lp.iter.id, lp.iter):
                need(d.kind == "assign" and d.value is not None, f"cannot interpret {f.short}: definition of `{lp.iter.id}`")
                expand(d.value, set(facts(prog, f, d.binder)))
        else:
            expand(lp.iter, set(facts(prog, f, lp)))

        def all_sources(e):
            if not isinstance(e, (ast.ListComp, ast.GeneratorExp)) or len(e.generators) != 1:
                return False
            g = e.generators[0]
            if not (isinstance(g.target, ast.Name) and isinstance(g.iter, ast.Attribute) and g.iter.attr == "sources" and T(g.iter.value).endswith("font")):
                return False
            if not (isinstance(e.elt, ast.Attribute) and e.elt.attr == "font" and isinstance(e.elt.value, ast.Name) and e.elt.value.id == g.target.id):
                return False
            # sparse layer sources share their parent's font object: leaving them out loses nothing
            return all(T(c) == f"{g.target.id}.layerName is None" for c in g.ifs)

        ds = [(e, fs) for e, fs in cands if not is_ds(fs, False)]  # what a designspace can reach
        ok = bool(ds) and all(is_ds(fs, True) and all_sources(e) for e, fs in ds)
        chk.ob("R10.7", f"{f.short}|for a designspace, groups are read from every source's font", ok, where(f, lp), detail="; ".join(T(e, 70) for e, fs in ds),
               message=f"{f.short}: for a designspace the kerning groups are read from `{'; '.join(T(e, 60) for e, fs in ds)}`, not from every source: a class pair of a master "
                       f"whose group the chosen font lacks is dropped and that master's kerning is not reproduced at its own location")
    chk.minimum("R10.7", 2)


# ----------------------------------------------------------------------------- R10.10
def r1010(prog, chk):
    ix = prog.ix
    f = ix.get_func("ufo2ft.util:ensure_all_sources_have_names")
    sts = [(s_, t, v) for s_, t, v in attr_stores(f, "name")]
    need(len(sts) == 1, f"cannot interpret {f.short}: renaming store")
    s_, t, v = sts[0]
    src = T(t.value)
    wl = [a for a in ix.ancestors(s_) if isinstance(a, ast.While)]
    ok = len(wl) == 1
    if ok:
        from ..core.cfg import nnf
        tst = nnf(wl[0].test)
        lits = tst.values if isinstance(tst, ast.BoolOp) and isinstance(tst.op, ast.Or) else []
        has_none = any(A.compare_parts(x) and isinstance(A.compare_parts(x)[1], ast.Is) and T(A.compare_parts(x)[0]) == f"{src}.name" and A.is_const(A.compare_parts(x)[2], None) for x in lits)
        used = [A.compare_parts(x)[2] for x in lits if A.compare_parts(x) and isinstance(A.compare_parts(x)[1], ast.In) and T(A.compare_parts(x)[0]) == f"{src}.name"]
        ok = len(lits) == 2 and has_none and len(used) == 1
        if ok:
            # every final name is recorded in that set, for every source
            adds = [c for c in calls_named(f, "add") if T(c.func.value) == T(used[0]) and c.args and T(c.args[0]) == f"{src}.name"]
            loops = [a for a in ix.ancestors(s_) if isinstance(a, ast.For)]
            ok = len(adds) == 1 and bool(loops) and T(loops[-1].iter).endswith(".sources") and any(a is loops[-1] for a in ix.ancestors(adds[0])) \
                and not any(isinstance(a, (ast.If, ast.While)) for a in ix.ancestors(adds[0]))
    chk.ob("R10.10", f"{f.short}|a source is renamed while its name is None or already taken; every final name is recorded", ok, where(f, s_), detail="while source.name is None or source.name in used_names: ...; used_names.add(source.name)",
           message=f"{f.short}: sources can keep a missing or duplicate name: the tables keyed by source name (compiled masters, original UFOs, glyph sets) then hold one entry for two masters")
    chk.minimum("R10.10", 1)


# ----------------------------------------------------------------------------- R10.13 (= R08.13)
_CONTAINER_CALLS = {"dict", "list", "set", "defaultdict", "OrderedDict", "Counter", "WeakKeyDictionary", "WeakValueDictionary", "ChainMap", "deque"}
_GLOBAL_MUTATORS = {"add", "append", "extend", "update", "setdefault", "pop", "popitem", "clear", "remove", "discard", "insert", "__setitem__", "appendleft"}


def check_no_module_state(prog, chk, rule):
    """No function of the package writes to a container defined at module level (or rebinds a module global): such a
    container lives as long as the process, so what one compile leaves there - e.g. user-space locations memoised under
    a key that does not identify the designspace - is handed to the next compile."""
    ix = prog.ix
    n_containers = 0
    for mi in ix.modules.values():
        glob = {}
        for st in mi.tree.body:
            if isinstance(st, (ast.Assign, ast.AnnAssign)) and st.value is not None:
                v = st.value
                if isinstance(v, (ast.Dict, ast.List, ast.Set, ast.DictComp, ast.ListComp, ast.SetComp)) or (isinstance(v, ast.Call) and A.callee_name(v) in _CONTAINER_CALLS):
                    for tg in (st.targets if isinstance(st, ast.Assign) else [st.target]):
                        if isinstance(tg, ast.Name):
                            glob[tg.id] = st
        n_containers += len(glob)
        writes = []
        for fi in ix.functions.values():
            if fi.module is not mi or isinstance(fi.node, ast.Lambda):
                continue
            declared = {nm for g_ in ast.walk(fi.node) if isinstance(g_, ast.Global) for nm in g_.names}
            for nm in sorted(declared):
                writes.append((fi, next(g_ for g_ in ast.walk(fi.node) if isinstance(g_, ast.Global)), nm))
            local = {x.id for x in ast.walk(fi.node) if isinstance(x, ast.Name) and isinstance(x.ctx, ast.Store)} | set(fi.params())
            for x in ast.walk(fi.node):
                tgt = None
                if isinstance(x, ast.Subscript) and isinstance(x.ctx, (ast.Store, ast.Del)):
                    tgt = x.value
                elif isinstance(x, ast.Call) and isinstance(x.func, ast.Attribute) and x.func.attr in _GLOBAL_MUTATORS:
                    tgt = x.func.value
                elif isinstance(x, ast.AugAssign):
                    tgt = x.target
                if isinstance(tgt, ast.Name) and tgt.id in glob and (tgt.id not in local or tgt.id in declared):
                    writes.append((fi, x, tgt.id))
        for fi, x, nm in writes:
            chk.ob(rule, f"{fi.short}|{nm}|no write to module-level state", False, where(fi, x), detail=T(x, 60),
                   message=f"{fi.short}: `{T(x, 60)}` writes to the module-level `{nm}`, which outlives the compile: results of one compile (of one designspace / font) are handed to the next one in the same process")
    chk.ob(rule, "module-level containers of the package are never written from function bodies", True, "Lib/ufo2ft", detail=f"{n_containers} module-level container(s) in {len(ix.modules)} modules examined")
    need(n_containers >= 10, f"only {n_containers} module-level containers found: the scan lost its footing")


MUTANTS = [
    M("user-space locations memoised in a module-level dict under a key that does not identify the designspace (seeded C10m)", "ufo2ft/util.py", "get_userspace_location",
      "location_user = designspace.map_backward(location)", "location_user = _USERSPACE.setdefault(tuple(sorted(location.items())), designspace.map_backward(location))", rule="R10.13",
      also=(("ufo2ft/util.py", "", "<append-module>", "_USERSPACE = {}"),)),
    M("sources whose anchor equals the default's are left out of the variable scalar (seeded C18l)", "ufo2ft/featureWriters/baseFeatureWriter.py", "BaseFeatureWriter._getAnchor",
      "if anchor.name == anchorName:\n    location = get_userspace_location(designspace, source.location)\n    x_value.add_value(location, otRound(anchor.x))\n    y_value.add_value(location, otRound(anchor.y))\n    found = True",
      "if anchor.name == anchorName and (source is designspace.findDefault() or (anchor.x, anchor.y) != (0, 0)):\n    location = get_userspace_location(designspace, source.location)\n    x_value.add_value(location, otRound(anchor.x))\n    y_value.add_value(location, otRound(anchor.y))\n    found = True", rule="R10.2"),
    M("sources only renamed when the name is both missing and taken (mutation scan 4, k=118)", "ufo2ft/util.py", "ensure_all_sources_have_names",
      "source.name is None or source.name in used_names", "source.name is None and source.name in used_names", rule="R10.10"),
    M("2x2 mismatch check skipped when the first master's components are all plain (seeded C10k)", "ufo2ft/preProcessor.py", "TTFInterpolatablePreProcessor.check_for_nonmatching_components",
      "if not any(component_counts):\n    continue", "if not any(component_counts):\n    continue\nif all((c.transformation[0:4] == (1, 0, 0, 1) for c in layers[0].components)):\n    continue", rule="R10.9"),
    M("user-space location computed axis by axis, coordinate 0 taken for 'missing' (seeded C10i)", "ufo2ft/util.py", "get_userspace_location",
      "location_user = designspace.map_backward(location)\nreturn {designspace.getAxis(k).tag: v for k, v in location_user.items()}",
      "location_user = {}\nfor axis in designspace.axes:\n    value = location.get(axis.name) or axis.map_forward(axis.default)\n    location_user[axis.tag] = axis.map_backward(value)\nreturn location_user", rule="R10.5"),
    M("user-space location computed axis by axis", "ufo2ft/util.py", "get_userspace_location",
      "location_user = designspace.map_backward(location)\nreturn {designspace.getAxis(k).tag: v for k, v in location_user.items()}",
      "location_user = {}\nfor axis in designspace.axes:\n    value = location.get(axis.name, axis.map_forward(axis.default))\n    location_user[axis.tag] = axis.map_backward(value)\nreturn location_user", kind="equiv"),
    M("kerning groups read from the default source only (seeded C10h)", "ufo2ft/featureWriters/kernFeatureWriter.py", "KernFeatureWriter.getKerningGroups",
      "fonts = [source.font for source in self.context.font.sources]", "fonts = [self.context.font.findDefault().font]", rule="R10.7"),
    M("kern writer 2: groups of the first source only", "ufo2ft/featureWriters/kernFeatureWriter2.py", "get_kerning_groups",
      "fonts = [source.font for source in context.font.sources]", "fonts = [source.font for source in context.font.sources[:1]]", rule="R10.7"),
    M("groups: sparse layer sources left out (they share the parent's font)", "ufo2ft/featureWriters/kernFeatureWriter2.py", "get_kerning_groups",
      "fonts = [source.font for source in context.font.sources]", "fonts = [source.font for source in context.font.sources if source.layerName is None]", kind="equiv"),
    M("pairs collected from the default source only", "ufo2ft/featureWriters/kernFeatureWriter.py", "KernFeatureWriter.getVariableKerningPairs",
      "all_pairs |= set(source.font.kerning)", "all_pairs |= set(designspace.findDefault().font.kerning)", rule="R10.1"),
    M("sources without any kerning skipped", "ufo2ft/featureWriters/kernFeatureWriter2.py", "get_variable_kerning_pairs",
      "kerning: Mapping[tuple[str, str], float] = source.font.kerning", "kerning: Mapping[tuple[str, str], float] = source.font.kerning\nif not kerning:\n    continue", rule="R10.1"),
    M("pairs absent from a master skipped there", "ufo2ft/featureWriters/kernFeatureWriter.py", "KernFeatureWriter.getVariableKerningPairs",
      "side1, side2 = pair", "side1, side2 = pair\nif pair not in kerning:\n    continue", rule="R10.1"),
    M("value recorded at the default location", "ufo2ft/featureWriters/kernFeatureWriter2.py", "get_variable_kerning_pairs",
      "location = VariableScalarLocation(get_userspace_location(designspace, source.location))",
      "location = VariableScalarLocation(get_userspace_location(designspace, designspace.findDefault().location))", rule="R10.1"),
    M("default location no longer filled", "ufo2ft/featureWriters/kernFeatureWriter.py", "KernFeatureWriter.getVariableKerningPairs",
      "if default_location not in value.values:\n    value.values[default_location] = 0", "pass", rule="R10.1"),
    M("sparse anchors read from the default layer", "ufo2ft/featureWriters/baseFeatureWriter.py", "BaseFeatureWriter._getAnchor",
      "layer = source.font.layers[source.layerName]", "layer = source.font", rule="R10.2"),
    M("anchor loop stops at the first source", "ufo2ft/featureWriters/baseFeatureWriter.py", "BaseFeatureWriter._getAnchor",
      "found = True", "found = True\nbreak", rule="R10.2"),
    M("variable features without compatibility check", "ufo2ft/_compilers/baseCompiler.py", "BaseInterpolatableCompiler._compileNeededSources",
      "self.variableFeatures and all((_featuresCompatible(doc) for doc in interpolableSubDocs))", "self.variableFeatures and all((_featuresCompatible(doc) for doc in interpolableSubDocs[:1]))", rule="R10.3"),
    M("GSUB always excluded from the merge", "ufo2ft/_compilers/baseCompiler.py", "BaseInterpolatableCompiler.compile_variable",
      "if buildVariableFeatures:\n    excludeVariationTables = set(excludeVariationTables) | {'GSUB'}", "excludeVariationTables = set(excludeVariationTables) | {'GSUB'}", rule="R10.3"),
    M("feature variations not added back", "ufo2ft/_compilers/baseCompiler.py", "BaseInterpolatableCompiler.compile_variable_features",
      "varLib.addGSUBFeatureVariations(ttFont, designSpaceDoc)", "pass", rule="R10.3"),
    M("masters always compiled without features", "ufo2ft/_compilers/baseCompiler.py", "BaseInterpolatableCompiler._compileNeededSources",
      "save_skip_features, self.skipFeatureCompilation = (self.skipFeatureCompilation, can_optimize_features)", "save_skip_features, self.skipFeatureCompilation = (self.skipFeatureCompilation, True)", rule="R10.4"),
    M("UFO remembered after it was replaced", "ufo2ft/_compilers/baseCompiler.py", "BaseInterpolatableCompiler._compileNeededSources",
      "if can_optimize_features:\n    originalSources[ttfSource.name] = sourcesByName[ttfSource.name].font\nsourcesByName[ttfSource.name].font = ttfSource.font",
      "sourcesByName[ttfSource.name].font = ttfSource.font\nif can_optimize_features:\n    originalSources[ttfSource.name] = sourcesByName[ttfSource.name].font", rule="R10.4"),
    M("collapse tolerates one unit", "ufo2ft/util.py", "collapse_varscalar", "abs(v - values[0]) > threshold", "abs(v - values[0]) > threshold + 1", rule="R10.5"),
    M("location keyed by axis name", "ufo2ft/util.py", "get_userspace_location", "designspace.getAxis(k).tag", "designspace.getAxis(k).name", rule="R10.5"),
    M("design location used as user location", "ufo2ft/util.py", "get_userspace_location", "designspace.map_backward(location)", "dict(location)", rule="R10.5"),
    M("compatibility compares only the first two masters", "ufo2ft/featureCompiler.py", "_featuresCompatible",
      "all((s == first for s in transformed[1:]))", "all((s == first for s in transformed[1:2]))", rule="R10.6"),
]
