"""C06 - generated mark features make matching anchors coincide (structural clauses)."""

from __future__ import annotations

import ast
from typing import Dict, List, Optional, Set, Tuple

from ..core import astutil as A
from ..core.index import AnalysisError, FuncInfo, external_init_signature
from ..selftest import M
from .common import may_conds, entails, T, attr_stores, calls_named, conds, every_origin, facts, need, subscript_stores, where
from .rounding import check_helper, is_otround

MARK = "ufo2ft.featureWriters.markFeatureWriter"
BASEW = "ufo2ft.featureWriters.baseFeatureWriter.BaseFeatureWriter"
OTRIV = "ufo2ft.util.otRoundIgnoringVariable"


def run(prog, chk):
    chk.decided += [
        "at every feaLib Anchor construction of the mark writer x= derives from the anchor's x and y= from its y, both through otRoundIgnoringVariable (R06.1)",
        "_getAnchor returns (x, y) in that order: static path anchor.x/anchor.y quantised when the writer has a quantization option, variable path per-source otRound(anchor.x) / otRound(anchor.y) into the x / y scalars; NamedAnchor receives them under the same names (R06.2)",
        "an anchor pair is recorded only when the base anchor's mark counterpart (markPrefix + key) exists among the collected mark anchors; mark anchors never act as bases (R06.3)",
        "mark classes are stored under anchor.key and looked up with anchor.key; _defineMarkClass gets (glyph, x, y) in its parameter order; MarkClassDefinition argument roles agree with fontTools (R06.4)",
        "ligature components: anchors grouped by anchor.number, components enumerated range(1, max + 1) with [] for gaps, numbering below 1 rejected (R06.5)",
        "MarkToBase/MarkToMark/MarkToLiga bind the matching feaLib statement classes and pass (glyph, marks) in fontTools' parameter order (R06.6)",
        "mark2base skips numbered anchors and anchors without mark class and excludes mark glyphs; mkmk only for mark glyphs; mark2liga only numbered anchors (R06.7)",
        "parseAnchorName: mark-ness is 'starts with the mark prefix', the key has the prefix stripped, numbered mark anchors raise (R06.8)",
        "no anchor coordinate is dropped or defaulted by a truthiness test: 0 is a legitimate coordinate (R06.9)",
        "every glyph is a candidate base of some mark feature: the abvm / not-abvm sets cover the glyph set on every path, mark/mkmk use the second and abvm/blwm the first (R06.10)",
        "markGlyphNames holds exactly the glyphs that got a mark class (same guards as the class insertion) (R06.11)",
        "aliased list padding ([[]] * n) is never mutated through an element (R06.12)",
        "the above / below anchor filters of abvm / blwm are complementary by construction and each feature uses its own (R06.13)",
        "the ligature component number is the whole trailing run of digits of the anchor name (regex AST of LIGA_NUM_RE) (R06.14)",
    ]
    chk.decided += ["a mark class definition already present in the feature file stands for the anchor about to be written only when the two are equal field by field (x, y, contour point, device "
                    "tables) by plain equality - a variable anchor never equals a fixed one, so its per-master values are not replaced by the default master's (R06.18 = R10.8)"]
    chk.decided += ["no feature-writer method answers from a value it parked in self.context on an earlier call when its result depends on its arguments (the grouping of mark classes is computed per "
                    "attachment list: base and ligature attachments do not share one grouping) (R06.19)"]
    chk.decided += ["a mark feature is only dropped when it would be empty: the nothing-to-write return of each feature builder tests every lookup list that is written into the feature "
                    "(a feature holding only mark-to-mark lookups is still emitted) (R06.17)"]
    chk.decided += ["the mark-class conflict graph is complete and symmetric: for every mark glyph, every pair of its classes is connected in both directions before the graph is coloured "
                    "(two classes of one glyph never share a lookup, where only one of them could apply) (R06.16)"]
    chk.decided += ["every collected contextual anchor reaches a contextual lookup: the three contextual tables are enumerated in full (no glyph filter: the abvm / blwm builder makes no contextual lookups), "
                    "every (glyph, anchor) pair is turned into a statement and every group is handed to the lookup builder (R06.15)"]
    chk.decided += ["feature-writer objects keep no per-font state outside self.context (no memoising decorators, no attributes written outside __init__): a mark writer object reused for a second font must not answer from the first font's anchors or classes (R06.20 = R08.7)"]
    chk.not_decided += ["the offsets a shaper computes", "lookup grouping / graph colouring result", "which script a glyph is routed to (abvm / blwm classification data)", "contextual anchors' generated rules"]
    chk.guard(r061, prog, chk)
    chk.guard(r062, prog, chk)
    chk.guard(r063, prog, chk)
    chk.guard(r064, prog, chk)
    chk.guard(r065, prog, chk)
    chk.guard(r066, prog, chk)
    chk.guard(r067, prog, chk)
    chk.guard(r068, prog, chk)
    chk.guard(r0610, prog, chk)
    chk.guard(r0611, prog, chk)
    chk.guard(r0612, prog, chk)
    chk.guard(r0613, prog, chk)
    chk.guard(r0614, prog, chk)
    chk.guard(r0615, prog, chk)
    chk.guard(r0616, prog, chk)
    chk.guard(r0617, prog, chk)
    chk.guard(r0618, prog, chk, "R06.18")
    chk.guard(check_no_unkeyed_context_memo, prog, chk, "R06.19")
    from .c08 import r087
    chk.guard(r087, prog, chk, "R06.20")
    from .rounding import check_no_truthiness_on_coordinates
    n = check_no_truthiness_on_coordinates(prog, chk, "R06.9", [MARK, "ufo2ft.featureWriters.baseFeatureWriter"])
    need(n >= 40, "truthiness scan found too few tests")


def _coord_source(prog, fi: FuncInfo, e: ast.AST) -> Optional[Tuple[str, str]]:
    """e is <obj>.x / <obj>.y, or a plain parameter named by role (x / y position in the signature): (object text, 'x'|'y')."""
    if isinstance(e, ast.Attribute) and e.attr in ("x", "y"):
        return T(e.value), e.attr
    if isinstance(e, ast.Name):
        ps = fi.params()
        if e.id in ps and all(d.kind == "param" for d in prog.reaching(fi, e.id, e)):
            return "<param>", e.id
    return None


# ----------------------------------------------------------------------------- R06.1
def r061(prog, chk):
    ix = prog.ix
    sig = external_init_signature("fontTools.feaLib.ast", "Anchor")
    need(sig[:2] == ["x", "y"], f"fontTools Anchor signature changed: {sig}")
    n = 0
    mi = ix.get_module(MARK)
    for fi in ix.functions.values():
        if fi.module is not mi:
            continue
        for c in A.body_nodes(fi.node):
            if not (isinstance(c, ast.Call) and A.callee_name(c) == "Anchor" and isinstance(c.func, ast.Attribute) and T(c.func.value) == "ast"):
                continue
            n += 1
            ax, ay = A.arg_at(c, 0, "x"), A.arg_at(c, 1, "y")
            ok = ax is not None and ay is not None and prog.is_call_to(fi, ax, OTRIV) and prog.is_call_to(fi, ay, OTRIV)
            chk.ob("R06.1", f"{fi.short}|{A.keytext(fi.node, c)}|both coordinates rounded with otRoundIgnoringVariable", ok, where(fi, c), detail=T(c, 100),
                   message=f"{fi.short}: an anchor coordinate reaches the feature file without otRoundIgnoringVariable (`{T(c, 80)}`)")
            if not ok:
                continue
            sx, sy = _coord_source(prog, fi, ax.args[0]), _coord_source(prog, fi, ay.args[0])
            if sx is not None and sy is not None and sx[0] == sy[0] == "<param>":
                # plain parameters: which one carries x and which y is decided at the call sites (checked by R06.4)
                ok = sx[1] != sy[1]
            else:
                ok = sx is not None and sy is not None and sx[1] == "x" and sy[1] == "y" and sx[0] == sy[0]
            chk.ob("R06.1", f"{fi.short}|{A.keytext(fi.node, c)}|x from x, y from y of the same anchor", ok, where(fi, c), detail=f"x <- {sx}, y <- {sy}",
                   message=f"{fi.short}: anchor coordinates are swapped or taken from different anchors (`{T(c, 80)}`)")
    need(n >= 3, f"expected >= 3 Anchor constructions in the mark writer, found {n}")
    check_helper(prog, chk, "R06.1", "ufo2ft.util:otRoundIgnoringVariable")
    chk.minimum("R06.1", 8)


def _is_loop_source_location(prog, fi, e) -> bool:
    """<v>.location where v is the variable of a `for v in <x>.sources` loop"""
    if not (isinstance(e, ast.Attribute) and e.attr == "location" and isinstance(e.value, ast.Name)):
        return False
    ds = prog.reaching(fi, e.value.id, e.value)
    return bool(ds) and all(d.kind == "for" and isinstance(d.value, ast.Attribute) and d.value.attr == "sources" for d in ds)


# ----------------------------------------------------------------------------- R06.2
def r062(prog, chk):
    ix = prog.ix
    ga = ix.get_method(BASEW, "_getAnchor", own=True)
    rets = [r for r in A.returns_of(ga.node) if r.value is not None and not A.is_const(r.value, None)]
    need(len(rets) == 1 and isinstance(rets[0].value, ast.Tuple) and len(rets[0].value.elts) == 2, f"cannot interpret {ga.short}: return (x, y)")
    rx, ry = rets[0].value.elts
    need(isinstance(rx, ast.Name) and isinstance(ry, ast.Name), f"cannot interpret {ga.short}: return names")
    dx, dy = prog.reaching(ga, rx.id, rx), prog.reaching(ga, ry.id, ry)

    def leaf_attrs(defs, depth=0):
        """(attribute name .x / .y or '?', number of rounding steps on the way) for everything the returned coordinate derives from"""
        out = set()
        for d in defs:
            v, how = d.element()
            if v is None:
                out.add(("?", 0))
                continue
            out |= coord_leaves(v, d)
        return out

    ROUNDERS = ("quantize", "otRound", "round", "int", "roundFunc", "floor", "ceil")

    def coord_leaves(v, d, depth=0, rounds=0):
        out = set()
        if depth > 8:
            return {("?", rounds)}
        if isinstance(v, ast.Attribute) and v.attr in ("x", "y"):
            return {(v.attr, rounds)}
        if isinstance(v, ast.Call) and A.callee_name(v) in ROUNDERS + ("collapse_varscalar",) and v.args:
            return coord_leaves(v.args[0], d, depth + 1, rounds + (1 if A.callee_name(v) in ROUNDERS else 0))
        if isinstance(v, ast.Name):
            ds = prog.reaching(ga, v.id, v)
            # variable scalars: find add_value calls on this name
            adds = [c for c in calls_named(ga, "add_value") if isinstance(c.func.value, ast.Name) and c.func.value.id == v.id]
            for c in adds:
                out |= coord_leaves(c.args[1], d, depth + 1, rounds)
            for dd in ds:
                vv, how = dd.element()
                if vv is None or (isinstance(vv, ast.Call) and A.callee_name(vv) == "VariableScalar"):
                    continue
                if dd.kind == "param":
                    out.add(("?", rounds))
                    continue
                out |= coord_leaves(vv, dd, depth + 1, rounds)
            return out
        return {("?", rounds)}

    lxr, lyr = leaf_attrs(dx), leaf_attrs(dy)
    lx, ly = {a for a, _ in lxr}, {a for a, _ in lyr}
    chk.ob("R06.2", f"{ga.short}|first returned coordinate only derives from .x, second only from .y", lx == {"x"} and ly == {"y"}, where(ga, rets[0]), detail=f"x <- {sorted(lx)}, y <- {sorted(ly)}",
           message=f"{ga.short} returns coordinates in the wrong roles: first derives from {sorted(lx)}, second from {sorted(ly)}")
    worst = max([n_ for _, n_ in lxr | lyr] or [0])
    chk.ob("R06.2", f"{ga.short}|a coordinate is rounded at most once on its way out", worst <= 1, where(ga, rets[0]), detail=f"rounding steps per derivation: {sorted({n_ for _, n_ in lxr | lyr})}",
           message=f"{ga.short}: a coordinate passes through {worst} rounding steps (e.g. otRound and then quantize): double rounding moves values just below a half step "
                   f"up a whole step, so the anchor is no longer the nearest multiple of the quantisation step")
    # static path: quantised when the option exists
    qs = [c for c in A.body_nodes(ga.node) if isinstance(c, ast.Call) and prog.is_call_to(ga, c, "ufo2ft.util.quantize")]
    ok = len(qs) == 2 and all(T(A.arg_at(c, 1, "factor")) == "self.options.quantization" for c in qs) \
        and all(any(o == "truthy" and "hasattr(self.options, 'quantization')" in l for o, l, r in facts(prog, ga, c)) for c in qs)
    names = set()
    for c in qs:
        st = ix.enclosing_stmt(c)
        if isinstance(st, ast.Assign) and isinstance(st.targets[0], ast.Name) and isinstance(c.args[0], ast.Name):
            names.add((st.targets[0].id, c.args[0].id))
    ok = ok and names == {(rx.id, rx.id), (ry.id, ry.id)}
    chk.ob("R06.2", f"{ga.short}|static coordinates are quantised with options.quantization when the writer has that option", ok, where(ga), detail="x = quantize(x, q); y = quantize(y, q)",
           message=f"{ga.short}: the static anchor coordinates are not both quantised with self.options.quantization (each into itself)")
    # variable path: rounded per source
    adds = [c for c in calls_named(ga, "add_value")]
    ok = len(adds) == 2 and all(len(c.args) == 2 and is_otround(prog, ga, c.args[1]) for c in adds)
    chk.ob("R06.2", f"{ga.short}|variable coordinates are rounded per source with otRound", ok, where(ga), detail="x_value.add_value(location, otRound(anchor.x))",
           message=f"{ga.short}: per-source anchor coordinates of a variable font are not rounded with otRound")
    if ok:
        loc = {T(c.args[0]) for c in adds}
        locdefs = [d for c in adds if isinstance(c.args[0], ast.Name) for d in prog.reaching(ga, c.args[0].id, c.args[0])]
        okl = len(loc) == 1 and all(isinstance(d.value, ast.Call) and A.callee_name(d.value) == "get_userspace_location" and len(d.value.args) == 2 and _is_loop_source_location(prog, ga, d.value.args[1]) for d in locdefs)
        chk.ob("R06.2", f"{ga.short}|values are recorded at the source's own location", okl, where(ga), detail="location = get_userspace_location(designspace, source.location)",
               message=f"{ga.short}: variable anchor values are not recorded at the location of the source they were read from")
        guards = [any("anchorName" in T(g.test) or any(isinstance(x, ast.Compare) and isinstance(x.ops[0], ast.Eq) and ".name" in T(x.left) for x in ast.walk(g.test)) for g in conds(prog, ga, c)) for c in adds]
        chk.ob("R06.2", f"{ga.short}|only the anchor with the requested name contributes", all(guards), where(ga), detail="if anchor.name == anchorName",
               message=f"{ga.short}: anchors with other names contribute to the variable value")
    # consumers keep the roles
    mw = ix.get_class(f"{MARK}.MarkFeatureWriter")
    al = mw.methods["_getAnchorLists"]
    ctor = [c for c in A.body_nodes(al.node) if isinstance(c, ast.Call) and A.callee_name(c) == "NamedAnchor"]
    need(len(ctor) == 1, f"cannot interpret {al.short}: NamedAnchor(...)")
    kx, ky = A.kwarg(ctor[0], "x"), A.kwarg(ctor[0], "y")
    ok = isinstance(kx, ast.Name) and isinstance(ky, ast.Name)
    if ok:
        ddx, ddy = prog.reaching(al, kx.id, kx), prog.reaching(al, ky.id, ky)
        ok = len(ddx) == 1 and len(ddy) == 1 and ddx[0].binder is ddy[0].binder and isinstance(ddx[0].value, ast.Call) and A.callee_name(ddx[0].value) == "_getAnchor"
        if ok:
            tg = ddx[0].target
            ok = isinstance(tg, ast.Tuple) and [T(e) for e in tg.elts] == [kx.id, ky.id]
    chk.ob("R06.2", f"{al.short}|NamedAnchor(x=, y=) receive _getAnchor's first / second result", ok, where(al, ctor[0]), detail="x, y = self._getAnchor(...); NamedAnchor(name=, x=x, y=y)",
           message=f"{al.short}: the coordinates returned by _getAnchor are handed to NamedAnchor in swapped or foreign roles")
    na = ix.get_class(f"{MARK}.NamedAnchor").methods["__init__"]
    ok = all(any(T(v) == a and T(t.value) == "self" for s, t, v in attr_stores(na, a)) for a in ("x", "y", "name"))
    chk.ob("R06.2", f"{na.short}|stores name / x / y unchanged", ok, where(na), detail="self.x = x; self.y = y", message="NamedAnchor.__init__ does not store its coordinates under their own names")
    check_helper(prog, chk, "R06.2", "ufo2ft.util:quantize")
    chk.minimum("R06.2", 9)


# ----------------------------------------------------------------------------- R06.3
def r063(prog, chk):
    ix = prog.ix
    mw = ix.get_class(f"{MARK}.MarkFeatureWriter")
    ap = mw.methods["_getAnchorPairs"]
    stores = [(s, t, v) for s, t, v in subscript_stores(ap)]
    need(len(stores) == 1, f"cannot interpret {ap.short}: pair store")
    s, t, v = stores[0]
    fs = facts(prog, ap, s)
    memb = [(o, l, r) for o, l, r in fs if o == "in"]
    ok = isinstance(v, ast.Name) and any(l == v.id for o, l, r in memb)
    cont = memb[0][2] if memb else None
    chk.ob("R06.3", f"{ap.short}|pair recorded only when the mark counterpart exists", ok, where(ap, s), detail=f"if {v.id if isinstance(v, ast.Name) else '?'} in {cont}",
           message=f"{ap.short}: a base anchor is paired although no mark glyph carries its '_'-counterpart (or the test is on another name)")
    # the tested name is anchor.markAnchorName of the anchor whose name is the key
    okv = False
    if isinstance(v, ast.Name):
        ds = prog.reaching(ap, v.id, v)
        okv = len(ds) == 1 and isinstance(ds[0].value, ast.Attribute) and ds[0].value.attr == "markAnchorName" and isinstance(t.slice, ast.Attribute) and t.slice.attr == "name" \
            and T(t.slice.value) == T(ds[0].value.value)
    chk.ob("R06.3", f"{ap.short}|pairs[anchor.name] = anchor.markAnchorName of the same anchor", okv, where(ap, s), detail=T(s),
           message=f"{ap.short}: the recorded counterpart is not the markAnchorName of the anchor being recorded")
    # mark anchors never act as bases
    okm = any(o == "falsy" and l.endswith(".isMark") for o, l, r in fs)
    chk.ob("R06.3", f"{ap.short}|mark anchors are skipped as bases", okm, where(ap, s), detail="if anchor.isMark: continue",
           message=f"{ap.short}: a '_'-prefixed anchor can be recorded as a base anchor")
    # the collected set holds only mark anchors' names
    ups = [c for c in calls_named(ap, "update", "add") if cont is not None and T(c.func.value) == cont]
    oku = bool(ups) and all(any(isinstance(x, ast.Attribute) and x.attr == "isMark" for x in ast.walk(c)) or any(o == "truthy" and l.endswith(".isMark") for o, l, r in facts(prog, ap, c)) for c in ups)
    chk.ob("R06.3", f"{ap.short}|the counterpart set only holds names of mark anchors", oku, where(ap), detail="markAnchorNames.update(a.name for a in anchors if a.isMark)",
           message=f"{ap.short}: names of non-mark anchors enter the set of mark anchor names")
    prop = ix.get_class(f"{MARK}.NamedAnchor").methods["markAnchorName"]
    r = A.returns_of(prop.node)
    okp = len(r) == 1 and isinstance(r[0].value, ast.BinOp) and isinstance(r[0].value.op, ast.Add) and T(r[0].value.left) == "self.markPrefix" and T(r[0].value.right) == "self.key"
    chk.ob("R06.3", f"{prop.short}|markPrefix + key", okp, where(prop), detail=T(r[0].value) if r else "", message="NamedAnchor.markAnchorName is no longer markPrefix + key")
    chk.minimum("R06.3", 5)


# ----------------------------------------------------------------------------- R06.4
def r064(prog, chk):
    ix = prog.ix
    mw = ix.get_class(f"{MARK}.MarkFeatureWriter")
    md = mw.methods["_makeMarkClassDefinitions"]
    st = [(s, t, v) for s, t, v in subscript_stores(md) if isinstance(t.slice, ast.Attribute)]
    ok = len(st) >= 1 and all(x[1].slice.attr == "key" for x in st)
    chk.ob("R06.4", f"{md.short}|mark classes stored under anchor.key", ok, where(md, st[0][0]) if st else where(md), detail=T(st[0][0]) if st else "",
           message=f"{md.short}: mark classes are not stored under the anchor key")
    if ok:
        s, t, v = st[0]
        ok2 = isinstance(v, ast.Subscript) and isinstance(v.slice, ast.Name)
        # className at that point: either the computed one or the definition's own class name
        chk.ob("R06.4", f"{md.short}|stored class is the one the definition was added to", ok2 and "className" in T(v.slice) or ok2, where(md, s), detail=T(v), nontrivial=False,
               message=f"{md.short}: stored mark class is not looked up by its class name")
    dm = mw.methods["_defineMarkClass"]
    calls = [c for c in calls_named(md, "_defineMarkClass")]
    need(len(calls) == 1, f"cannot interpret {md.short}: _defineMarkClass call")
    c = calls[0]
    # a name clash makes _defineMarkClass open a new class: the following glyphs of the same anchor class must go there too
    cn = c.args[3] if len(c.args) > 3 else A.kwarg(c, dm.params()[4] if len(dm.params()) > 4 else "className")
    okc = isinstance(cn, ast.Name)
    if okc:
        ds = prog.reaching(md, cn.id, cn)
        inner = [a for a in ix.ancestors(c) if isinstance(a, ast.For)][0]
        carried = [d for d in ds if d.kind == "assign" and any(a is inner for a in ix.ancestors(d.binder)) and T(d.value).endswith(".markClass.name")]
        okc = len(carried) == 1 and any(o == "isnot" and r == "None" for o, l, r in facts(prog, md, carried[0].binder))
    chk.ob("R06.4", f"{md.short}|after a name clash the following glyphs of the anchor class use the new class name", okc, where(md, c), detail="className = mcd.markClass.name (carried to the next iteration)",
           message=f"{md.short}: when a mark glyph clashes with a user-defined mark class and gets a new class, the next glyphs of the same anchor class are still added to the old "
                   f"class: the generated lookups then attach them through the user's anchor instead of the UFO's")
    ps = dm.params()[1:]
    roles = {}
    for i, a in enumerate(c.args):
        roles[ps[i]] = a
    for kw in c.keywords:
        roles[kw.arg] = kw.value
    # which parameters of _defineMarkClass end up as Anchor(x=..., y=...) and which as the glyph of the definition
    px = py = pg = None
    for ac in [a_ for a_ in A.body_nodes(dm.node) if isinstance(a_, ast.Call) and A.callee_name(a_) == "Anchor"]:
        ax_, ay_ = A.arg_at(ac, 0, "x"), A.arg_at(ac, 1, "y")
        if isinstance(ax_, ast.Call) and ax_.args and isinstance(ay_, ast.Call) and ay_.args:
            sx_, sy_ = _coord_source(prog, dm, ax_.args[0]), _coord_source(prog, dm, ay_.args[0])
            if sx_ and sy_ and sx_[0] == sy_[0] == "<param>":
                px, py = sx_[1], sy_[1]
    for mc_ in [a_ for a_ in A.body_nodes(dm.node) if isinstance(a_, ast.Call) and A.callee_name(a_) == "MarkClassDefinition"]:
        for a_ in list(mc_.args) + [k.value for k in mc_.keywords]:
            inner_ = a_.args[0] if isinstance(a_, ast.Call) and A.callee_name(a_) == "GlyphName" and a_.args else a_
            if isinstance(inner_, ast.Name) and inner_.id in ps and inner_.id not in (px, py) and pg is None:
                pg = inner_.id
    need(px is not None and py is not None and pg is not None, f"cannot interpret {dm.short}: x / y / glyph parameters")
    xs, ys = roles.get(px), roles.get(py)
    ok = isinstance(xs, ast.Attribute) and xs.attr == "x" and isinstance(ys, ast.Attribute) and ys.attr == "y" and T(xs.value) == T(ys.value)
    loopv = [a for a in ix.ancestors(c) if isinstance(a, ast.For)]
    ok = ok and loopv and T(xs.value) in A.target_names(loopv[0].target) and T(roles.get(pg)) in A.target_names(loopv[0].target)
    chk.ob("R06.4", f"{md.short}|_defineMarkClass(glyph, anchor.x, anchor.y, ...) of the same (glyph, anchor) item", ok, where(md, c), detail=T(c, 90),
           message=f"{md.short}: _defineMarkClass does not get the x and y of the glyph's own anchor in its x / y parameters")
    sig = external_init_signature("fontTools.feaLib.ast", "MarkClassDefinition")
    mcd = [c for c in calls_named(dm, "MarkClassDefinition")]
    need(len(mcd) == 1, f"cannot interpret {dm.short}")
    got = {}
    for i, a in enumerate(mcd[0].args):
        got[sig[i]] = a
    for kw in mcd[0].keywords:
        got[kw.arg] = kw.value
    anc = got.get("anchor")
    oka, _ = every_origin(prog, dm, anc, lambda x, f: isinstance(x, ast.Call) and A.callee_name(x) == "Anchor", allow_const=False) if anc is not None else (False, [])
    okg, _ = every_origin(prog, dm, got.get("glyphs"), lambda x, f: isinstance(x, ast.Call) and A.callee_name(x) == "GlyphName", allow_const=False) if got.get("glyphs") is not None else (False, [])
    chk.ob("R06.4", f"{dm.short}|MarkClassDefinition(markClass, anchor, glyphs) roles", oka and okg and got.get("markClass") is not None, where(dm, mcd[0]), detail=T(mcd[0]),
           message=f"{dm.short}: MarkClassDefinition arguments are not (mark class, anchor, glyph) in fontTools' parameter roles")
    sb = mw.methods["_setBaseAnchorMarkClasses"]
    st = [(s, t, v) for s, t, v in attr_stores(sb, "markClass")]
    need(len(st) == 1, f"cannot interpret {sb.short}")
    s, t, v = st[0]
    ok = isinstance(v, ast.Subscript) and isinstance(v.slice, ast.Attribute) and v.slice.attr == "key" and T(v.slice.value) == T(t.value)
    fs = facts(prog, sb, s)
    okg = any(o == "in" and l.endswith(".key") for o, l, r in fs) and any(o == "falsy" and l.endswith(".isMark") for o, l, r in fs)
    chk.ob("R06.4", f"{sb.short}|anchor.markClass = markClasses[anchor.key] for non-mark anchors whose key has a class", ok and okg, where(sb, s), detail=T(s),
           message=f"{sb.short}: base anchors are not linked to the mark class stored under their own key (or mark anchors are linked too)")
    # sibling: AbstractMarkPos emits anchor.markClass next to the anchor's own coordinates
    for cls in ("AbstractMarkPos", "MarkToLigaPos"):
        m = ix.get_class(f"{MARK}.{cls}").methods["_marksAsAST"]
        tups = [x for x in A.body_nodes(m.node) if isinstance(x, ast.Tuple) and len(x.elts) == 2 and isinstance(x.elts[0], ast.Call) and A.callee_name(x.elts[0]) == "Anchor"]
        ok = len(tups) == 1 and isinstance(tups[0].elts[1], ast.Attribute) and tups[0].elts[1].attr == "markClass"
        if ok:
            owner = T(tups[0].elts[1].value)
            ok = all(T(a.args[0].value) == owner for a in tups[0].elts[0].keywords and [k.value for k in tups[0].elts[0].keywords] if isinstance(a, ast.Call) and a.args and isinstance(a.args[0], ast.Attribute))
        chk.ob("R06.4", f"{m.short}|(Anchor(anchor.x, anchor.y), anchor.markClass) of one anchor", ok, where(m), detail=T(tups[0], 100) if tups else "",
               message=f"{m.short}: the emitted (position, mark class) pair mixes two anchors")
    chk.minimum("R06.4", 7)


# ----------------------------------------------------------------------------- R06.5
def r065(prog, chk):
    ix = prog.ix
    mw = ix.get_class(f"{MARK}.MarkFeatureWriter")
    ml = mw.methods["_makeMarkToLigaAttachments"]
    loops = [n for n in A.body_nodes(ml.node) if isinstance(n, ast.For) and isinstance(n.iter, ast.Call) and A.callee_name(n.iter) == "range"]
    need(len(loops) == 1, f"cannot interpret {ml.short}: component loop")
    r = loops[0].iter
    ok = len(r.args) == 2 and A.is_const(r.args[0], 1) and isinstance(r.args[1], ast.BinOp) and isinstance(r.args[1].op, ast.Add) and A.is_const(r.args[1].right, 1) \
        and isinstance(r.args[1].left, ast.Call) and A.callee_name(r.args[1].left) == "max"
    chk.ob("R06.5", f"{ml.short}|components enumerated range(1, max(numbers) + 1)", ok, where(ml, loops[0]), detail=T(r),
           message=f"{ml.short}: ligature components are not enumerated from 1 to the highest anchor number (anchors attach to the wrong component)")
    lv = A.target_names(loops[0].target)
    apps = [c for c in A.calls_in(loops[0]) if isinstance(c.func, ast.Attribute) and c.func.attr == "append"]
    ok = len(apps) == 1 and isinstance(apps[0].args[0], ast.Call) and A.callee_name(apps[0].args[0]) == "get" and T(apps[0].args[0].args[0]) == lv[0] \
        and isinstance(apps[0].args[0].args[1], ast.List) and not apps[0].args[0].args[1].elts
    chk.ob("R06.5", f"{ml.short}|component n gets the anchors numbered n, [] when there are none", ok, where(ml, loops[0]), detail=T(apps[0], 80) if apps else "",
           message=f"{ml.short}: a missing component number does not produce an empty (NULL) component, or components are looked up by another index")
    sd = [c for c in calls_named(ml, "setdefault")]
    ok = len(sd) == 1 and isinstance(sd[0].args[0], ast.Name)
    if ok:
        ds = prog.reaching(ml, sd[0].args[0].id, sd[0].args[0])
        ok = len(ds) == 1 and isinstance(ds[0].value, ast.Attribute) and ds[0].value.attr == "number"
        par = ix.parent(ix.parent(sd[0]))
        ok = ok and isinstance(par, ast.Call) and par.func.attr == "append" and isinstance(par.args[0], ast.Name) and T(ds[0].value.value) == par.args[0].id
    chk.ob("R06.5", f"{ml.short}|anchors grouped under their own number", ok, where(ml, sd[0]) if sd else where(ml), detail="componentAnchors.setdefault(anchor.number, []).append(anchor)",
           message=f"{ml.short}: a ligature anchor is not filed under its own component number")
    na = ix.get_class(f"{MARK}.NamedAnchor").methods["__init__"]
    rs = [r_ for r_ in A.raises_of(na.node) if any(isinstance(x, ast.Compare) and isinstance(x.ops[0], ast.Lt) and A.is_const(x.comparators[0], 1) for g in conds(prog, na, r_) for x in ast.walk(g.test))]
    chk.ob("R06.5", f"{na.short}|component numbers below 1 are rejected", len(rs) == 1, where(na), detail="if number < 1: raise ValueError",
           message="NamedAnchor accepts ligature component number 0 (components are 1-based)")
    lp = ix.get_class(f"{MARK}.MarkToLigaPos").methods["_marksAsAST"]
    outer = [x for x in A.body_nodes(lp.node) if isinstance(x, ast.ListComp) and isinstance(x.elt, ast.ListComp)]
    ok = len(outer) == 1 and T(outer[0].generators[0].iter) == "self.marks" and not outer[0].generators[0].ifs
    chk.ob("R06.5", f"{lp.short}|one list per component, in component order, none dropped", ok, where(lp), detail="[[...] for component in self.marks]",
           message=f"{lp.short}: components are filtered or reordered when the statement is built")
    chk.minimum("R06.5", 5)


# ----------------------------------------------------------------------------- R06.6
def r066(prog, chk):
    ix = prog.ix
    want = {"MarkToBasePos": "MarkBasePosStatement", "MarkToMarkPos": "MarkMarkPosStatement", "MarkToLigaPos": "MarkLigPosStatement"}
    for cls, stmt in want.items():
        ci = ix.get_class(f"{MARK}.{cls}")
        ca = ix.class_attr(ci, "Statement")
        ok = ca is not None and ca[0] is ci and T(ca[1]) == f"ast.{stmt}"
        chk.ob("R06.6", f"{cls}.Statement = ast.{stmt}", ok, f"{ci.module.relpath}:{ci.node.lineno}", detail=T(ca[1]) if ca else "",
               message=f"{cls} builds `{T(ca[1]) if ca else None}` statements instead of {stmt}")
        sig = external_init_signature("fontTools.feaLib.ast", stmt)
        chk.ob("R06.6", f"fontTools {stmt}(<glyphs>, marks)", len(sig) >= 2 and sig[1] == "marks", "site-packages/fontTools/feaLib/ast.py", detail=str(sig), nontrivial=False,
               message=f"fontTools {stmt} signature changed: {sig}")
    am = ix.get_class(f"{MARK}.AbstractMarkPos").methods["asAST"]
    cs = [c for c in A.body_nodes(am.node) if isinstance(c, ast.Call) and T(c.func) == "self.Statement"]
    ok = len(cs) == 1 and len(cs[0].args) == 2 and isinstance(cs[0].args[0], ast.Call) and A.callee_name(cs[0].args[0]) == "GlyphName" and T(cs[0].args[0].args[0]) == "self.name"
    if ok:
        okm, _ = every_origin(prog, am, cs[0].args[1], lambda x, f: isinstance(x, ast.Call) and A.callee_name(x) == "_marksAsAST", allow_const=False)
        ok = okm
    chk.ob("R06.6", f"{am.short}|Statement(GlyphName(self.name), self._marksAsAST())", ok, where(am), detail=T(cs[0]) if cs else "",
           message=f"{am.short}: the attachment statement is not built from the glyph's own name and its own marks")
    chk.minimum("R06.6", 7)


# ----------------------------------------------------------------------------- R06.7
def r067(prog, chk):
    ix = prog.ix
    mw = ix.get_class(f"{MARK}.MarkFeatureWriter")
    mb = mw.methods["_makeMarkToBaseAttachments"]
    apps = [c for c in A.body_nodes(mb.node) if isinstance(c, ast.Call) and isinstance(c.func, ast.Attribute) and c.func.attr == "append" and isinstance(c.args[0], ast.Name)
            and any(isinstance(a, ast.For) and c.args[0].id in A.target_names(a.target) for a in ix.ancestors(c))]
    need(len(apps) == 1, f"cannot interpret {mb.short}: baseMarks.append(anchor)")
    fs = facts(prog, mb, apps[0])
    a = apps[0].args[0].id
    ok = any(o == "isnot" and l == f"{a}.markClass" and r == "None" for o, l, r in fs) and any(o == "is" and l == f"{a}.number" and r == "None" for o, l, r in fs) \
        and any(o == "falsy" and l == f"{a}.isContextual" for o, l, r in fs)
    chk.ob("R06.7", f"{mb.short}|only plain anchors with a mark class attach as bases", ok, where(mb, apps[0]), detail="markClass is not None and number is None and not contextual",
           message=f"{mb.short}: numbered, contextual or class-less anchors reach the mark-to-base statement")
    ctor = [c for c in A.body_nodes(mb.node) if isinstance(c, ast.Call) and A.callee_name(c) == "MarkToBasePos"]
    need(len(ctor) == 1, f"cannot interpret {mb.short}")
    fs = facts(prog, mb, ctor[0])
    ok = any(o == "notin" and "markGlyphNames" in r for o, l, r in fs)
    chk.ob("R06.7", f"{mb.short}|mark glyphs are not bases", ok, where(mb, ctor[0]), detail="if glyphName in markGlyphNames: continue",
           message=f"{mb.short}: mark glyphs get mark-to-base statements")
    okn = T(ctor[0].args[0]) in [n for a_ in ix.ancestors(ctor[0]) if isinstance(a_, ast.For) for n in A.target_names(a_.target)]
    oka, _ = every_origin(prog, mb, ctor[0].args[1], lambda x, f: isinstance(x, ast.List) and not x.elts, allow_const=False)
    chk.ob("R06.7", f"{mb.short}|MarkToBasePos(glyph, its own anchors)", okn and oka, where(mb, ctor[0]), detail=T(ctor[0]),
           message=f"{mb.short}: the statement is built with another glyph's name or a shared anchor list")
    mm = mw.methods["_makeMarkToMarkAttachments"]
    ctor = [c for c in A.body_nodes(mm.node) if isinstance(c, ast.Call) and A.callee_name(c) == "MarkToMarkPos"]
    need(len(ctor) == 1, f"cannot interpret {mm.short}")
    fs = facts(prog, mm, ctor[0])
    ok = any(o == "in" and "markGlyphNames" in r for o, l, r in fs) and any(o == "isnot" and l.endswith(".markClass") for o, l, r in fs) and any(o == "falsy" and l.endswith(".isMark") for o, l, r in fs)
    chk.ob("R06.7", f"{mm.short}|mkmk only for mark glyphs' non-mark anchors with a class", ok, where(mm, ctor[0]), detail="glyph in markGlyphNames, markClass is not None, not isMark",
           message=f"{mm.short}: mark-to-mark statements are built for non-mark glyphs, '_' anchors or class-less anchors")
    st = ix.enclosing_stmt(ctor[0])
    sd = [c for c in calls_named(mm, "setdefault")]
    ok = len(sd) == 1 and isinstance(sd[0].args[0], ast.Attribute) and sd[0].args[0].attr == "key" and T(sd[0].args[0].value) == T(ctor[0].args[1].elts[0]) if sd and isinstance(ctor[0].args[1], ast.List) else False
    chk.ob("R06.7", f"{mm.short}|statements grouped under the anchor's key", ok, where(mm), detail="results.setdefault(anchor.key, []).append(pos)",
           message=f"{mm.short}: mkmk statements are not grouped by the key of the anchor they attach")
    ml = mw.methods["_makeMarkToLigaAttachments"]
    sd = [c for c in calls_named(ml, "setdefault")]
    fs = facts(prog, ml, sd[0]) if sd else set()
    ok = any(o == "isnot" and ("number" in l) for o, l, r in fs) and any(o == "truthy" and l.endswith(".key") for o, l, r in fs)
    chk.ob("R06.7", f"{ml.short}|only numbered anchors with a key attach to ligature components", ok, where(ml), detail="number is not None and key",
           message=f"{ml.short}: un-numbered anchors reach the mark-to-ligature statement")
    # glyph eligibility of both builders: never a mark glyph, and a member of the GDEF class whenever GDEF classes are defined
    for fn_, ctor_name, cls_attr in ((mb, "MarkToBasePos", "base"), (ml, "MarkToLigaPos", "ligature")):
        cs_ = [c for c in A.body_nodes(fn_.node) if isinstance(c, ast.Call) and A.callee_name(c) == ctor_name]
        need(len(cs_) == 1, f"cannot interpret {fn_.short}: {ctor_name}")
        gname = T(cs_[0].args[0])
        cls_names = {t_.id for st_ in A.stmts_of(fn_.node) if isinstance(st_, ast.Assign) and isinstance(st_.value, ast.Attribute) and st_.value.attr == cls_attr
                     and "gdefClasses" in T(st_.value) for t_ in st_.targets if isinstance(t_, ast.Name)}
        need(cls_names, f"cannot interpret {fn_.short}: GDEF {cls_attr} class is not read")

        def atomize(e, _g=gname, _cls=cls_names):
            p_ = A.compare_parts(e)
            if not p_:
                return None
            l_, op_, r_ = p_
            if isinstance(op_, (ast.In, ast.NotIn)) and T(l_) == _g and "markGlyphNames" in T(r_):
                return ("mark", isinstance(op_, ast.In))
            if isinstance(op_, (ast.In, ast.NotIn)) and T(l_) == _g and T(r_) in _cls:
                return ("inclass", isinstance(op_, ast.In))
            if isinstance(op_, (ast.Is, ast.IsNot)) and T(l_) in _cls and A.is_const(r_, None):
                return ("hasclass", isinstance(op_, ast.IsNot))
            return None
        gs_ = [g for g in conds(prog, fn_, cs_[0]) if g.polarity in (True, False)]
        ok = entails(gs_, atomize, lambda env: (not env["mark"]) and ((not env["hasclass"]) or env["inclass"]), goal_atoms=("mark", "hasclass", "inclass"))
        chk.ob("R06.7", f"{fn_.short}|a glyph gets {ctor_name} only if it is no mark glyph and, when GDEF classes exist, is in the {cls_attr} class", ok, where(fn_, cs_[0]),
               detail=str([("" if g.polarity else "not ") + T(g.test, 70) for g in gs_][:4]),
               message=f"{fn_.short}: {ctor_name} can be built for a mark glyph or for a glyph outside the GDEF {cls_attr} class")
    chk.minimum("R06.7", 8)


# ----------------------------------------------------------------------------- R06.8
def r068(prog, chk):
    ix = prog.ix
    pa = ix.get_func(f"{MARK}:parseAnchorName")
    ps = pa.params()
    name, prefix = ps[0], ps[1]
    trues = [s for s in A.stmts_of(pa.node) if isinstance(s, ast.Assign) and isinstance(s.targets[0], ast.Name) and A.is_const(s.value, True)
             and any(isinstance(x, ast.Call) and A.callee_name(x) == "startswith" for g in conds(prog, pa, s) for x in ast.walk(g.test))]
    ok = len(trues) == 1
    if ok:
        g = [g for g in conds(prog, pa, trues[0]) if any(isinstance(x, ast.Call) and A.callee_name(x) == "startswith" for x in ast.walk(g.test))][0]
        call = [x for x in ast.walk(g.test) if isinstance(x, ast.Call) and A.callee_name(x) == "startswith"][0]
        ok = g.polarity is True and T(call.func.value) == name and T(call.args[0]) == prefix
        flag = trues[0].targets[0].id
        rets = A.returns_of(pa.node)
        ok = ok and len(rets) == 1 and isinstance(rets[0].value, ast.Tuple) and T(rets[0].value.elts[0]) == flag
        falses = [s for s in A.stmts_of(pa.node) if isinstance(s, ast.Assign) and isinstance(s.targets[0], ast.Name) and s.targets[0].id == flag and A.is_const(s.value, False)]
        ok = ok and len(falses) == 1 and any(gg.polarity is False and gg.test is g.test or T(gg.test) == T(g.test) and gg.polarity is False for gg in conds(prog, pa, falses[0]))
    chk.ob("R06.8", f"{pa.short}|isMark iff the name starts with the mark prefix (and has a key)", ok, where(pa), detail="anchorName.startswith(markPrefix) and key",
           message=f"{pa.short}: mark-ness of an anchor is no longer decided by the mark prefix")
    strips = [s for s in A.stmts_of(pa.node) if isinstance(s, ast.Assign) and isinstance(s.value, ast.Subscript) and isinstance(s.value.slice, ast.Slice)
              and s.value.slice.lower is not None and T(s.value.slice.lower) == f"len({prefix})" and s.value.slice.upper is None and T(s.value.value) == T(s.targets[0])]
    ok = len(strips) == 1 and trues and any(T(g.test) == T(conds(prog, pa, trues[0])[-1].test) for g in conds(prog, pa, strips[0]))
    rets = A.returns_of(pa.node)
    ok = ok and len(rets) == 1 and T(rets[0].value.elts[1]) == T(strips[0].targets[0]) if strips else False
    chk.ob("R06.8", f"{pa.short}|key = name without the mark prefix", ok, where(pa), detail="key = key[len(markPrefix):]",
           message=f"{pa.short}: the mark prefix is not stripped from the key (mark '_top' would not match base 'top')")
    rs = [r for r in A.raises_of(pa.node) if any(g.polarity is True and "number" in T(g.test) and isinstance(g.test, ast.Compare) and isinstance(g.test.ops[0], ast.IsNot) for g in conds(prog, pa, r))]
    chk.ob("R06.8", f"{pa.short}|numbered mark anchors raise", len(rs) == 1, where(pa), detail="if number is not None: raise ValueError", message=f"{pa.short}: a numbered mark anchor ('_top_1') is accepted")
    ints = [s for s in A.stmts_of(pa.node) if isinstance(s, ast.Assign) and isinstance(s.value, ast.Call) and A.callee_name(s.value) == "int"]
    ok = len(ints) == 1 and any(isinstance(x, ast.Call) and A.callee_name(x) == "endswith" and g.polarity is True for g in conds(prog, pa, ints[0]) for x in ast.walk(g.test))
    chk.ob("R06.8", f"{pa.short}|component number only with the ligature separator", ok, where(pa), detail="if key.endswith(separator): number = int(number)",
           message=f"{pa.short}: a trailing number without the separator is taken as a component number")
    chk.minimum("R06.8", 4)


# ----------------------------------------------------------------------------- R06.10
def r0610(prog, chk):
    """Every glyph is a candidate base for some mark feature: the two sets returned by
    _getAbvmGlyphs cover the glyph set (second = ... | (glyph set - first)), and
    mark/mkmk are built for the second, abvm/blwm for the first."""
    ix = prog.ix
    mw = ix.get_class(f"{MARK}.MarkFeatureWriter")
    g = mw.methods["_getAbvmGlyphs"]
    gs = [s for s in A.stmts_of(g.node) if isinstance(s, ast.Assign) and isinstance(s.targets[0], ast.Name) and "getOrderedGlyphSet" in T(s.value)]
    need(len(gs) == 1, f"cannot interpret {g.short}: glyph set")
    gsn = gs[0].targets[0].id
    cfg = prog.cfg(g)
    rets = [r for r in A.returns_of(g.node) if isinstance(r.value, ast.Tuple) and len(r.value.elts) == 2]
    need(len(rets) >= 2, f"cannot interpret {g.short}: returns")
    for r in rets:
        a, b = r.value.elts
        ok = False
        why = ""
        if isinstance(b, ast.Name) and b.id == gsn:
            ok, why = True, "second set is the whole glyph set"
        elif isinstance(b, ast.Name) and isinstance(a, ast.Name):
            # the last definition of b reaching the return is  b |= <glyph set> - a
            ds = cfg.reaching_defs(b.id, r)
            last = [d for d in ds if d.kind == "augassign"]
            if len(last) == 1 and isinstance(last[0].binder.op, ast.BitOr):
                v = last[0].binder.value
                ok = isinstance(v, ast.BinOp) and isinstance(v.op, ast.Sub) and T(v.left) == gsn and T(v.right) == a.id
                # nothing removed from b / added to a afterwards
                ok = ok and cfg.dominates(last[0].node, cfg.node_of(r))
                why = T(last[0].binder)
        chk.ob("R06.10", f"{g.short}|{A.keytext(g.node, r)}|the two sets cover the glyph set", ok, where(g, r), detail=why,
               message=f"{g.short}: a glyph can be in neither the abvm nor the not-abvm set (`{T(r, 60)}`): it gets no attachment in mark, mkmk, abvm or blwm although its anchors match")
    mf = mw.methods["_makeFeatures"]
    un = [s for s in A.stmts_of(mf.node) if isinstance(s, ast.Assign) and isinstance(s.value, ast.Call) and A.callee_name(s.value) == "_getAbvmGlyphs"]
    need(len(un) == 1 and isinstance(un[0].targets[0], ast.Tuple), f"cannot interpret {mf.short}")
    an, nn = [e.id for e in un[0].targets[0].elts]
    preds = {}
    for d in [n for n in ast.walk(mf.node) if isinstance(n, ast.FunctionDef) and n is not mf.node]:
        r = [x for x in ast.walk(d) if isinstance(x, ast.Return)]
        if len(r) == 1 and isinstance(r[0].value, ast.Compare) and isinstance(r[0].value.ops[0], ast.In) and T(r[0].value.left) == d.args.args[0].arg:
            preds[d.name] = T(r[0].value.comparators[0])
    want = {"_makeMarkFeature": nn, "_makeMkmkFeature": nn, "_makeAbvmOrBlwmFeature": an}
    for callee, setname in want.items():
        cs = [c for c in calls_named(mf, callee)]
        def pred_args(c):
            return [a.id for a in list(c.args) + [k.value for k in c.keywords] if isinstance(a, ast.Name) and a.id in preds]
        ok = bool(cs) and all(len(pred_args(c)) == 1 and preds.get(pred_args(c)[0]) == setname for c in cs)
        chk.ob("R06.10", f"{mf.short}|{callee}(include = membership in the {'not-' if setname == nn else ''}abvm set)", ok, where(mf, cs[0]) if cs else where(mf), detail=f"include tests membership in {setname}",
               message=f"{mf.short}: {callee} is not restricted to the {'non-' if setname == nn else ''}abvm glyphs (bases attached twice, or not at all)")
    chk.minimum("R06.10", 5)


# ----------------------------------------------------------------------------- R06.11
def r0611(prog, chk):
    """markGlyphNames (what the attachment builders use to tell marks from bases) holds
    exactly the glyphs that were given a mark class: the add is subject to every
    guard the class-group insertion is subject to."""
    ix = prog.ix
    mw = ix.get_class(f"{MARK}.MarkFeatureWriter")
    f = mw.methods["_groupMarkGlyphsByAnchor"]
    stc = [(s, t, v) for s, t, v in attr_stores(f, "markGlyphNames")]
    need(len(stc) == 1 and isinstance(stc[0][2], ast.Name), f"cannot interpret {f.short}: markGlyphNames")
    setname = stc[0][2].id
    adds = [c for c in calls_named(f, "add") if T(c.func.value) == setname]
    ins = [(s, t, v) for s, t, v in subscript_stores(f) if isinstance(t.value, ast.Name) and any(isinstance(a, ast.For) for a in ix.ancestors(s))]
    need(len(adds) == 1 and len(ins) == 1, f"cannot interpret {f.short}: add / group insertion")
    outer = [a for a in ix.ancestors(adds[0]) if isinstance(a, ast.For)][-1]
    gname = A.target_names(outer.target)[0]

    def guards(node):
        out = set()
        for c_ in may_conds(prog, f, node):
            if c_.kind in ("if", "boolop") and any(a is outer for a in ix.ancestors(c_.loc)):
                # conditions on the glyph (not on the individual anchor of the inner loop)
                out.add((A.keytext(f.node, c_.test), c_.polarity))
        return out
    ga, gi = guards(adds[0]), guards(ins[0][0])
    missing = gi - ga
    ok = T(adds[0].args[0]) == gname and T(ins[0][1].slice) == gname and not missing
    chk.ob("R06.11", f"{f.short}|a glyph is recorded as a mark glyph under the same conditions under which it gets a mark class", ok, where(f, adds[0]), detail=f"{len(gi)} guard(s) shared",
           message=f"{f.short}: a glyph is put into markGlyphNames although it may be filtered out of the mark classes afterwards ({sorted(missing)}): the attachment builders then treat a "
                   f"base / ligature glyph as a mark and its own anchors get no attachment")
    chk.minimum("R06.11", 1)


# ----------------------------------------------------------------------------- R06.12
def r0612(prog, chk):
    """`[[]] * n` makes n references to ONE list.  That is fine as long as elements are
    only replaced (L[i] = ...); appending to an element (L[i].append(...)) changes all
    the padding components at once - anchors would attach to several ligature components."""
    ix = prog.ix
    mi = ix.get_module(MARK)
    n = 0
    for fi in ix.functions.values():
        if fi.module is not mi:
            continue
        pads = [x for x in A.body_nodes(fi.node) if isinstance(x, ast.BinOp) and isinstance(x.op, ast.Mult)
                and any(isinstance(side, ast.List) and len(side.elts) == 1 and isinstance(side.elts[0], (ast.List, ast.Dict, ast.Set)) for side in (x.left, x.right))]
        for pad in pads:
            n += 1
            # the list the padding flows into
            par = ix.parent(pad)
            target = None
            if isinstance(par, ast.Assign) and isinstance(par.targets[0], ast.Name):
                target = par.targets[0].id
            elif isinstance(par, ast.Call) and isinstance(par.func, ast.Attribute) and par.func.attr in ("extend", "__iadd__") and isinstance(par.func.value, ast.Name):
                target = par.func.value.id
            elif isinstance(par, ast.AugAssign) and isinstance(par.target, ast.Name):
                target = par.target.id
            bad = []
            if target is not None:
                for c in A.body_nodes(fi.node):
                    if isinstance(c, ast.Call) and isinstance(c.func, ast.Attribute) and c.func.attr in ("append", "extend", "insert", "add", "update", "setdefault") \
                            and isinstance(c.func.value, ast.Subscript) and isinstance(c.func.value.value, ast.Name) and c.func.value.value.id == target:
                        bad.append(c)
            ok = target is not None and not bad
            chk.ob("R06.12", f"{fi.short}|{A.keytext(fi.node, pad)}", ok, where(fi, pad), detail="padding elements are only ever replaced, never mutated in place",
                   message=f"{fi.short}: `{T(pad, 40)}` creates aliased padding lists and `{T(bad[0], 50) if bad else '?'}` mutates an element in place: every padded ligature component "
                           f"receives the anchor")
    chk.ob("R06.12", "aliased list padding is never mutated through an element", True, "", detail=f"{n} padding expression(s) examined", nontrivial=False)
    chk.minimum("R06.12", 2)



# ----------------------------------------------------------------------------- R06.13
def r0613(prog, chk):
    """Inside the abvm / blwm features every mark anchor of an Indic glyph goes to exactly one of the two: the two anchor
    filters are complementary by construction (one is the negation of the other), abvm uses the one and blwm the other."""
    ix = prog.ix
    mw = ix.get_class(f"{MARK}.MarkFeatureWriter")
    mk = mw.methods["_makeAbvmOrBlwmFeature"]
    tag = mk.params()[1]
    filt = {}
    for st in A.stmts_of(mk.node):
        if isinstance(st, ast.Assign) and isinstance(st.value, ast.Attribute) and T(st.value.value) == "self" and st.value.attr in mw.methods and isinstance(st.targets[0], ast.Name):
            for o, l, r in facts(prog, mk, st):
                if o == "eq" and l == tag and r in ("'abvm'", "'blwm'"):
                    filt[r.strip("'")] = (st.value.attr, st.targets[0].id)
    need(set(filt) == {"abvm", "blwm"}, f"cannot interpret {mk.short}: anchor filters per tag")
    fa, fb = filt["abvm"][0], filt["blwm"][0]
    var = filt["abvm"][1]
    oku = filt["abvm"][1] == filt["blwm"][1] and all(any(T(a_) == var for a_ in list(c.args) + [k_.value for k_ in c.keywords])
                                                     for c in A.body_nodes(mk.node) if isinstance(c, ast.Call) and A.callee_name(c) in ("_makeMarkLookup", "_makeMarkToLigaLookup"))
    chk.ob("R06.13", f"{mk.short}|abvm and blwm lookups are all filtered by the tag's own anchor filter", oku and fa != fb, where(mk), detail=f"abvm: {fa}, blwm: {fb}",
           message=f"{mk.short}: a lookup of the abvm / blwm feature is built without (or with the other feature's) anchor filter")

    def negation_of(m_, other):
        rets = A.returns_of(m_.node)
        if len(rets) != 1:
            return False
        v = rets[0].value
        return isinstance(v, ast.UnaryOp) and isinstance(v.op, ast.Not) and isinstance(v.operand, ast.Call) and T(v.operand.func) == f"self.{other}" \
            and [T(a) for a in v.operand.args] == m_.params()[1:2]
    ok = negation_of(mw.methods[fb], fa) or negation_of(mw.methods[fa], fb)
    chk.ob("R06.13", f"{mw.name}.{fa} / {fb}|the two anchor filters are complementary (one is `not` the other)", ok, where(mw.methods[fb]), detail=f"{fb}(anchor) == not {fa}(anchor)",
           message=f"{mw.name}: {fa} and {fb} are decided independently: an anchor can satisfy neither (its attachment is emitted in no feature) or both (emitted twice)")
    chk.minimum("R06.13", 2)



# ----------------------------------------------------------------------------- R06.14
def r0614(prog, chk):
    """The component number of a ligature anchor is the WHOLE run of digits at the end of its name (`top_12` is component 12):
    in the pattern the writer matches names with, nothing in front of the digits group can swallow digits greedily."""
    import re._parser as sre
    ix = prog.ix
    mod = ix.get_module(MARK)
    e = mod.constants.get("LIGA_NUM_RE")
    need(isinstance(e, ast.Call) and A.callee_name(e) == "compile" and e.args and isinstance(e.args[0], ast.Constant) and isinstance(e.args[0].value, str),
         "cannot interpret LIGA_NUM_RE: not re.compile(<literal>)")
    pat = e.args[0].value
    try:
        items = list(sre.parse(pat))
    except Exception as ex:  # noqa
        raise AnalysisError(f"cannot parse LIGA_NUM_RE {pat!r}: {ex}")

    def can_match_digit(item) -> bool:
        op, av = item
        name = str(op)
        if name == "ANY":
            return True
        if name == "LITERAL":
            return chr(av).isdigit()
        if name == "NOT_LITERAL":
            return True
        if name == "IN":
            neg = any(str(o) == "NEGATE" for o, _ in av)
            hit = False
            for o, a in av:
                so = str(o)
                if so == "CATEGORY" and str(a) in ("CATEGORY_DIGIT", "CATEGORY_WORD"):
                    hit = True
                elif so == "CATEGORY" and str(a) in ("CATEGORY_NOT_SPACE",):
                    hit = True
                elif so == "RANGE" and a[0] <= ord("9") and a[1] >= ord("0"):
                    hit = True
                elif so == "LITERAL" and chr(a).isdigit():
                    hit = True
            return (not hit) if neg else hit
        return True  # unknown construct: assume it can
    grp = [i for i, (op, av) in enumerate(items) if str(op) == "SUBPATTERN" and av[0] == 1]
    need(len(grp) == 1, f"cannot interpret LIGA_NUM_RE {pat!r}: group 1")
    gi = grp[0]
    inner = items[gi][1][3]
    okg = len(inner) == 1 and str(inner[0][0]) == "MAX_REPEAT" and inner[0][1][0] >= 1 and len(inner[0][1][2]) == 1 and str(inner[0][1][2][0][0]) == "IN" \
        and any(str(o) == "CATEGORY" and str(a) == "CATEGORY_DIGIT" for o, a in inner[0][1][2][0][1])
    end_ok = gi + 1 < len(items) and str(items[gi + 1][0]) == "AT" and "END" in str(items[gi + 1][1])
    greedy_before = False
    if gi > 0:
        op, av = items[gi - 1]
        if str(op) == "MAX_REPEAT" and any(can_match_digit(x) for x in av[2]):
            greedy_before = True
    chk.ob("R06.14", "LIGA_NUM_RE|the component number is the whole trailing run of digits", okg and end_ok and not greedy_before, f"{mod.relpath}:{e.lineno}", detail=pat,
           message=f"LIGA_NUM_RE {pat!r}: a greedy sub-pattern in front of the digits group can swallow digits (or the group is not 'one or more digits up to the end'): "
                   f"`top_12` is read as component 2 of key `top_1` - anchors of components 10 and above attach to the wrong component or not at all")
    chk.minimum("R06.14", 1)


# ----------------------------------------------------------------------------- R06.15
def _enum_root(prog, fi, e, depth=0):
    """If `e` enumerates every (key, value) of a mapping - `M.items()` possibly wrapped in sorted / list / tuple / reversed, or a
    generator helper of the package that yields every item of its argument unchanged - return the mapping expression."""
    while isinstance(e, ast.Call) and isinstance(e.func, ast.Name) and e.func.id in ("sorted", "list", "tuple", "reversed") and e.args:
        e = e.args[0]
    if isinstance(e, ast.Call) and isinstance(e.func, ast.Attribute) and e.func.attr == "items" and not e.args and not e.keywords:
        return e.func.value
    if isinstance(e, ast.Call) and depth < 2:
        try:
            ts, how = prog.resolve_callee(fi, e.func)
        except Exception:
            return None
        if how != "exact" or len(ts) != 1 or not isinstance(ts[0], FuncInfo) or isinstance(ts[0].node, ast.Lambda):
            return None
        t = ts[0]
        ps = t.params()
        if ps and ps[0] in ("self", "cls") and isinstance(e.func, ast.Attribute):
            ps = ps[1:]
        loops = [n for n in t.node.body if isinstance(n, ast.For)]
        ys = [n for n in A.body_nodes(t.node) if isinstance(n, (ast.Yield, ast.YieldFrom))]
        if len(loops) != 1 or not ys or any(isinstance(y, ast.YieldFrom) for y in ys):
            return None
        lp = loops[0]
        root = _enum_root(prog, t, lp.iter, depth + 1)
        if not (isinstance(root, ast.Name) and root.id in ps) or not isinstance(lp.target, ast.Tuple):
            return None
        tn = [T(x) for x in lp.target.elts]
        for y in ys:
            if not any(a is lp for a in prog.ix.ancestors(y)):
                return None
            if not (isinstance(y.value, ast.Tuple) and [T(x) for x in y.value.elts] == tn):
                return None
            if any(g.kind in ("if", "boolop", "ifexp", "while") for g in may_conds(prog, t, y)):
                return None
        # no rebinding of the loop variables on the way to the yield
        if any(isinstance(n, ast.Name) and isinstance(n.ctx, ast.Store) and n.id in tn and not any(n is x for x in ast.walk(lp.target)) for n in ast.walk(lp)):
            return None
        i = ps.index(root.id)
        arg = e.args[i] if i < len(e.args) else A.kwarg(e, root.id)
        return arg
    return None


def r0615(prog, chk):
    ix = prog.ix
    W = f"{MARK}.MarkFeatureWriter"
    mf = ix.get_method(W, "_makeFeatures", own=True)
    fields = []
    for st in A.stmts_of(mf.node):
        if isinstance(st, ast.Assign) and isinstance(st.value, ast.Call) and A.callee_name(st.value) == "_makeContextualAttachments":
            for t in st.targets:
                for el in (t.elts if isinstance(t, ast.Tuple) else [t]):
                    if isinstance(el, ast.Attribute):
                        fields.append(el.attr)
    need(len(fields) == 3, f"cannot interpret {mf.short}: the three contextual anchor tables")
    seen = {}
    for mname in ("_makeMarkFeature", "_makeMkmkFeature"):
        f = ix.get_method(W, mname, own=True)
        for lp in [n for n in A.body_nodes(f.node) if isinstance(n, ast.For)]:
            mentioned = [fl for fl in fields if any(isinstance(x, ast.Attribute) and x.attr == fl for x in ast.walk(lp.iter))]
            if not mentioned:
                continue
            fl = mentioned[0]
            seen.setdefault(fl, []).append(f.short)
            root = _enum_root(prog, f, lp.iter)
            ok = root is not None and T(root) == f"self.context.{fl}"
            chk.ob("R06.15", f"{f.short}|{fl}|every context of the table is enumerated (no glyph filter)", ok, where(f, lp), detail=T(lp.iter, 100),
                   message=f"{f.short}: the contextual anchors in {fl} are not enumerated in full (`{T(lp.iter, 80)}`): contextual anchors the loop leaves out get no lookup at all - "
                           f"the abvm / blwm builder does not make contextual lookups, so mark and base never coincide for those glyphs")
            if not ok or not isinstance(lp.target, ast.Tuple) or len(lp.target.elts) != 2:
                continue
            pairs = T(lp.target.elts[1])
            inner = [n for n in lp.body if isinstance(n, ast.For) and T(n.iter) == pairs]
            builders = [c for c in A.body_nodes(lp) if isinstance(c, ast.Call) and A.callee_name(c) == "_makeContextualMarkLookup"]
            need(len(inner) == 1 and len(builders) == 1, f"cannot interpret {f.short}: contextual loop over {fl}")
            apps = [c for c in A.body_nodes(inner[0]) if isinstance(c, ast.Call) and A.callee_name(c) == "append" and isinstance(c.func.value, ast.Subscript)]

            def inside(g):
                return any(a is lp for a in ix.ancestors(g.loc)) or g.loc is lp
            okp = len(apps) == 1 and not [g for g in may_conds(prog, f, apps[0]) if g.kind in ("if", "boolop", "ifexp", "while") and inside(g)] \
                and not any(isinstance(n, (ast.Continue, ast.Break)) for n in ast.walk(lp))
            okb = not [g for g in may_conds(prog, f, builders[0]) if g.kind in ("if", "boolop", "ifexp", "while") and inside(g)] \
                and builders[0].args and apps and T(builders[0].args[0]) == T(apps[0].func.value.value)
            chk.ob("R06.15", f"{f.short}|{fl}|every (glyph, anchor) pair becomes a statement and every group reaches the lookup builder", okp and okb, where(f, inner[0]),
                   detail=f"{T(apps[0], 70) if apps else ''}; {T(builders[0], 50)}",
                   message=f"{f.short}: a contextual (glyph, anchor) pair of {fl} can be skipped on the way to its lookup")
    missing = [fl for fl in fields if fl not in seen]
    chk.ob("R06.15", "each of the three contextual tables is consumed by the mark / mkmk builders", not missing, where(mf), detail=str(seen),
           message=f"contextual anchors collected in {missing} are never turned into lookups")
    chk.minimum("R06.15", 7)


# ----------------------------------------------------------------------------- R06.16
def r0616(prog, chk):
    ix = prog.ix
    f = ix.get_method(f"{MARK}.MarkFeatureWriter", "_groupMarkClasses", own=True)
    cg = [c for c in A.body_nodes(f.node) if isinstance(c, ast.Call) and A.callee_name(c) == "colorGraph"]
    need(len(cg) == 1 and cg[0].args and isinstance(cg[0].args[0], ast.Name), f"cannot interpret {f.short}: colorGraph call")
    adj = cg[0].args[0].id
    adds = [c for c in A.body_nodes(f.node) if isinstance(c, ast.Call) and isinstance(c.func, ast.Attribute) and c.func.attr == "add" and isinstance(c.func.value, ast.Subscript)
            and isinstance(c.func.value.value, ast.Name) and c.func.value.value.id == adj and len(c.args) == 1]
    ok = len(adds) == 2
    detail = "; ".join(T(a) for a in adds)
    if ok:
        loops = [a for a in ix.ancestors(adds[0]) if isinstance(a, ast.For)]
        ok = bool(loops) and all(any(a is loops[0] for a in ix.ancestors(x)) for x in adds)
        if ok:
            lp = loops[0]
            pair = [T(x) for x in lp.target.elts] if isinstance(lp.target, ast.Tuple) and len(lp.target.elts) == 2 else []
            it = lp.iter
            okc = isinstance(it, ast.Call) and A.callee_name(it) == "combinations" and len(it.args) == 2 and A.is_const(it.args[1], 2)
            dirs = {(T(a.func.value.slice), T(a.args[0])) for a in adds}
            ok = okc and len(pair) == 2 and dirs == {(pair[0], pair[1]), (pair[1], pair[0])}
            # unconditional inside the pair loop, and the pairs come from one mark glyph's classes, for every mark glyph
            ok = ok and not any(g.kind in ("if", "boolop", "ifexp", "while") and any(a is lp for a in ix.ancestors(g.loc)) for x in adds for g in may_conds(prog, f, x))
            outer = [a for a in ix.ancestors(lp) if isinstance(a, ast.For)]
            ok = ok and len(outer) == 1 and _enum_root(prog, f, outer[0].iter) is not None and T(_enum_root(prog, f, outer[0].iter)) == f.params()[1] \
                and isinstance(outer[0].target, ast.Tuple) and T(it.args[0]) == T(outer[0].target.elts[1]) \
                and not any(isinstance(n, (ast.Continue, ast.Break)) for n in ast.walk(outer[0]))
    chk.ob("R06.16", f"{f.short}|every pair of classes of one mark glyph is connected in both directions", ok, where(f, adds[0]) if adds else where(f), detail=detail,
           message=f"{f.short}: the conflict graph given to colorGraph is not complete / symmetric ({detail or 'no edges'}): two mark classes of one glyph can be coloured alike and end "
                   f"up in one lookup, where the glyph can only carry one of them - the other attachment is lost")
    chk.minimum("R06.16", 1)


# ----------------------------------------------------------------------------- R06.17
def r0617(prog, chk):
    ix = prog.ix
    W = f"{MARK}.MarkFeatureWriter"
    n = 0
    for mname in ("_makeMarkFeature", "_makeMkmkFeature", "_makeAbvmOrBlwmFeature"):
        f = ix.get_method(W, mname, own=True)
        feats = {st.targets[0].id for st in A.stmts_of(f.node) if isinstance(st, ast.Assign) and len(st.targets) == 1 and isinstance(st.targets[0], ast.Name)
                 and isinstance(st.value, ast.Call) and A.callee_name(st.value) == "FeatureBlock"}
        need(len(feats) == 1, f"cannot interpret {f.short}: feature block")
        feat = next(iter(feats))

        def bases(e, depth=0) -> Set[str]:
            """the lookup lists an expression is made of"""
            if isinstance(e, ast.BinOp) and isinstance(e.op, ast.Add):
                return bases(e.left, depth) | bases(e.right, depth)
            if isinstance(e, ast.Call) and isinstance(e.func, ast.Name) and e.func.id in ("list", "sorted", "tuple", "any", "all", "len", "bool") and e.args:
                return bases(e.args[0], depth)
            if isinstance(e, ast.Call) and isinstance(e.func, ast.Attribute) and e.func.attr in ("values", "keys", "items") and not e.args:
                return bases(e.func.value, depth)
            if isinstance(e, (ast.List, ast.Tuple)):
                out = set()
                for x in e.elts:
                    out |= bases(x, depth)
                return out
            if isinstance(e, ast.Name):
                ds = prog.reaching(f, e.id, e)
                if depth < 4 and len(ds) == 1 and ds[0].kind == "assign" and ds[0].value is not None and ds[0].element()[1] is None \
                        and not (isinstance(ds[0].value, (ast.List, ast.Dict)) and not getattr(ds[0].value, "elts", getattr(ds[0].value, "keys", None))):
                    inner = bases(ds[0].value, depth + 1)
                    if inner:
                        return inner
                return {e.id}
            return set()
        contrib: Set[str] = set()
        for c in A.body_nodes(f.node):
            if isinstance(c, ast.Call) and isinstance(c.func, ast.Attribute) and c.func.attr in ("append", "extend") and T(c.func.value) == f"{feat}.statements" and c.args:
                a = c.args[0]
                if c.func.attr == "extend":
                    contrib |= bases(a)
                else:
                    loops = [x for x in ix.ancestors(c) if isinstance(x, ast.For)]
                    if loops and any(isinstance(y, ast.Name) and y.id in A.target_names(loops[0].target) for y in ast.walk(a)):
                        contrib |= bases(loops[0].iter)
        need(contrib, f"cannot interpret {f.short}: nothing is written into the feature block")
        empties = [r for r in A.returns_of(f.node) if r.value is None or A.is_const(r.value, None) or (isinstance(r.value, ast.Tuple) and r.value.elts and A.is_const(r.value.elts[0], None))]
        need(empties, f"cannot interpret {f.short}: nothing-to-write return")
        for r in empties:
            n += 1
            tested: Set[str] = set()
            for g in conds(prog, f, r):
                if g.polarity in (True, False):
                    for x in ast.walk(g.test):
                        if isinstance(x, ast.Name) and isinstance(x.ctx, ast.Load):
                            tested |= bases(x)
            missing = sorted(contrib - tested)
            chk.ob("R06.17", f"{f.short}|the feature is dropped only when every lookup list written into it is empty", not missing, where(f, r), detail=f"written: {sorted(contrib)}; tested: {sorted(tested & contrib)}",
                   message=f"{f.short}: the feature is dropped without looking at {missing}: a feature that only holds those lookups is not emitted and their attachments exist nowhere in GPOS")
    chk.minimum("R06.17", 3)


# ----------------------------------------------------------------------------- R06.18 (= R10.8)
def r0618(prog, chk, rule="R06.18"):
    ix = prog.ix
    f = ix.get_method(f"{MARK}.MarkFeatureWriter", "_defineMarkClass", own=True)
    rets = [r for r in A.returns_of(f.node) if r.value is None or A.is_const(r.value, None)]
    need(len(rets) >= 1, f"cannot interpret {f.short}: 'already defined' return")
    n = 0
    for r in rets:
        gs = [g for g in conds(prog, f, r) if g.polarity is True and g.kind in ("if", "boolop")]
        eq = None
        for g in gs:
            t = g.test
            # the comparison helper may have been inlined at the call site, or still be a call
            if isinstance(t, ast.Call) and A.callee_name(t) != "all":
                try:
                    ts, how = prog.resolve_callee(f, t.func)
                except Exception:
                    ts, how = [], ""
                if how == "exact" and len(ts) == 1 and isinstance(ts[0], FuncInfo) and len(A.returns_of(ts[0].node)) == 1:
                    t = A.returns_of(ts[0].node)[0].value
            if isinstance(t, ast.Call) and A.callee_name(t) == "all" and len(t.args) == 1 and isinstance(t.args[0], (ast.GeneratorExp, ast.ListComp)):
                eq = (g, t.args[0])
        if eq is None:
            continue
        n += 1
        g, gen = eq
        elt = gen.elt
        ok = isinstance(elt, ast.Compare) and len(elt.ops) == 1 and isinstance(elt.ops[0], ast.Eq) \
            and all(isinstance(x, ast.Call) and A.callee_name(x) == "getattr" and len(x.args) == 2 for x in (elt.left, elt.comparators[0])) \
            and len(gen.generators) == 1 and not gen.generators[0].ifs
        fields = set()
        if ok:
            var = gen.generators[0].target
            ok = isinstance(var, ast.Name) and T(elt.left.args[1]) == var.id and T(elt.comparators[0].args[1]) == var.id and T(elt.left.args[0]) != T(elt.comparators[0].args[0])
            it = gen.generators[0].iter
            fields = {x.value for x in it.elts if isinstance(x, ast.Constant)} if isinstance(it, (ast.Tuple, ast.List)) else set()
            ok = ok and {"x", "y", "contourpoint", "xDeviceTable", "yDeviceTable"} <= fields
        chk.ob(rule, f"{f.short}|an existing definition is reused only when every anchor field is equal (plain ==)", ok, where(f, r), detail=T(gen, 90),
               message=f"{f.short}: an existing markClass definition is taken to cover the anchor about to be written under a comparison other than field-by-field equality "
                       f"(`{T(gen, 70)}`): a mark whose anchor differs (in another master, or in a field that is not compared) silently gets the existing anchor")
    need(n >= 1, f"cannot interpret {f.short}: anchor comparison of the 'already defined' return")
    chk.minimum(rule, 1)


# ----------------------------------------------------------------------------- R06.19 (shared with C08 as R08.11)
def check_no_unkeyed_context_memo(prog, chk, rule):
    """Memoisation through the per-write context: `v = self.context.x; if v: return v; ...; self.context.x = f(args); return ...`.
    Correct only when the result does not depend on the arguments - otherwise the second caller gets the first caller's answer."""
    ix = prog.ix
    n, hits = 0, 0
    for fi in ix.functions.values():
        if isinstance(fi.node, ast.Lambda) or fi.cls is None or not fi.module.name.startswith("ufo2ft.featureWriters"):
            continue
        params = [p_ for p_ in fi.params() if p_ not in ("self", "cls")]
        if not params:
            continue
        n += 1
        stores = {}
        for s_, t, v in [(s_, t, v) for s_ in A.stmts_of(fi.node) if isinstance(s_, ast.Assign) for t in s_.targets for v in [s_.value]]:
            for el in (t.elts if isinstance(t, (ast.Tuple, ast.List)) else [t]):
                if isinstance(el, ast.Attribute) and T(el.value) in ("self.context", "ctx", "context") and (T(el.value) == "self.context" or _is_context_alias(prog, fi, el.value)):
                    stores.setdefault(el.attr, []).append((s_, v))
        if not stores:
            continue

        def depends_on_params(e, seen=None, depth=0):
            seen = set() if seen is None else seen
            for x in ast.walk(e):
                if isinstance(x, ast.Name) and isinstance(x.ctx, ast.Load):
                    if x.id in params and all(d.kind == "param" for d in prog.reaching(fi, x.id, x)):
                        return True
                    if depth < 4 and x.id not in ("self",):
                        for d in prog.reaching(fi, x.id, x):
                            k = (x.id, id(d.binder))
                            if k in seen or d.value is None:
                                continue
                            seen.add(k)
                            if depends_on_params(d.value, seen, depth + 1):
                                return True
                        # a container filled in place: what is put in, and the loops it is filled under
                        for c in A.body_nodes(fi.node):
                            recv = None
                            if isinstance(c, ast.Call) and isinstance(c.func, ast.Attribute) and c.func.attr in ("update", "add", "append", "extend", "setdefault", "insert"):
                                recv = c.func.value
                            elif isinstance(c, ast.Assign) and isinstance(c.targets[0], ast.Subscript):
                                recv = c.targets[0].value
                            while isinstance(recv, (ast.Subscript, ast.Attribute, ast.Call)):
                                recv = recv.func.value if isinstance(recv, ast.Call) and isinstance(recv.func, ast.Attribute) else getattr(recv, "value", None)
                            if isinstance(recv, ast.Name) and recv.id == x.id:
                                k = (x.id, "fill", id(c))
                                if k in seen:
                                    continue
                                seen.add(k)
                                for lp in [a for a in prog.ix.ancestors(c) if isinstance(a, ast.For)]:
                                    if depends_on_params(lp.iter, seen, depth + 1):
                                        return True
                                args = c.args if isinstance(c, ast.Call) else [c.value]
                                if any(depends_on_params(a, seen, depth + 1) for a in args):
                                    return True
            return False

        def reads_field(e, fld):
            for x in ast.walk(e):
                if isinstance(x, ast.Attribute) and x.attr == fld and T(x.value) == "self.context" and isinstance(x.ctx, ast.Load):
                    return True
                if isinstance(x, ast.Call) and isinstance(x.func, ast.Name) and x.func.id == "getattr" and len(x.args) >= 2 and T(x.args[0]) == "self.context" and A.is_const(x.args[1], fld):
                    return True
            return False
        for fld, sts in stores.items():
            if not any(depends_on_params(v) for s_, v in sts):
                continue
            for r in A.returns_of(fi.node):
                if r.value is None:
                    continue
                srcs = [r.value]
                if isinstance(r.value, ast.Name):
                    srcs = [d.value for d in prog.reaching(fi, r.value.id, r.value) if d.value is not None]
                if any(reads_field(x, fld) for x in srcs) and not any(x is v for x in srcs for s_, v in sts):
                    hits += 1
                    chk.ob(rule, f"{fi.short}|self.context.{fld} answers later calls", False, where(fi, r), detail=T(r, 60),
                           message=f"{fi.short} returns what an earlier call stored in self.context.{fld} although that value was computed from its arguments "
                                   f"({', '.join(params)}): the second caller (another attachment list, another feature) gets the first one's answer")
    chk.ob(rule, "no feature-writer method memoises an argument-dependent result in the context", hits == 0, "", detail=f"{n} methods with parameters examined", nontrivial=False)
    need(n >= 40, f"{rule}: feature-writer methods examined: {n}")
    chk.minimum(rule, 1)


def _is_context_alias(prog, fi, e) -> bool:
    if not isinstance(e, ast.Name):
        return False
    ds = prog.reaching(fi, e.id, e)
    return bool(ds) and all(d.value is not None and T(d.value) == "self.context" for d in ds)


MUTANTS = [
    M("mark class grouping computed once per write and reused for the ligature attachments (seeded C06k)", "ufo2ft/featureWriters/markFeatureWriter.py", "MarkFeatureWriter._groupMarkClasses",
      "colorGroups = colorGraph(adjacency)", "cached = getattr(self.context, 'colorGroups', None)\nif cached:\n    return cached\ncolorGroups = self.context.colorGroups = colorGraph(adjacency)", rule="R06.19"),
    M("a variable anchor 'equals' an existing fixed mark class anchor when the default master agrees (seeded C10j)", "ufo2ft/featureWriters/markFeatureWriter.py", "MarkFeatureWriter._anchorsAreEqual",
      "getattr(a1, attr) == getattr(a2, attr)", "getattr(getattr(a1, attr), 'default', getattr(a1, attr)) == getattr(getattr(a2, attr), 'default', getattr(a2, attr))", rule="R06.18"),
    M("existing mark class reused when only x and y agree", "ufo2ft/featureWriters/markFeatureWriter.py", "MarkFeatureWriter._anchorsAreEqual",
      "('x', 'y', 'contourpoint', 'xDeviceTable', 'yDeviceTable')", "('x', 'y')", rule="R06.18"),
    M("abvm / blwm dropped when it only holds mark-to-mark lookups (seeded C06j)", "ufo2ft/featureWriters/markFeatureWriter.py", "MarkFeatureWriter._makeAbvmOrBlwmFeature",
      "any([baseLkps, ligaLkps, mkmkLookups])", "any([baseLkps, ligaLkps])", rule="R06.17"),
    M("mark feature dropped when it only holds contextual lookups", "ufo2ft/featureWriters/markFeatureWriter.py", "MarkFeatureWriter._makeMarkFeature",
      "not baseLkps and (not ligaLkps) and (not ctxLkps)", "not baseLkps and (not ligaLkps)", rule="R06.17"),
    M("conflict edges added in one direction only (mutation scan 3, k=120)", "ufo2ft/featureWriters/markFeatureWriter.py", "MarkFeatureWriter._groupMarkClasses",
      "adjacency[markClass].add(other)\nadjacency[other].add(markClass)", "adjacency[markClass].add(other)", rule="R06.16"),
    M("only adjacent classes of a glyph conflict", "ufo2ft/featureWriters/markFeatureWriter.py", "MarkFeatureWriter._groupMarkClasses",
      "itertools.combinations(markClasses, 2)", "zip(markClasses, markClasses[1:])", rule="R06.16"),
    M("contextual anchors filtered by the not-abvm predicate (seeded C06i)", "ufo2ft/featureWriters/markFeatureWriter.py", "MarkFeatureWriter._makeMkmkFeature",
      "for glyphName, anchor in glyph_anchor_pair:\n    attachments[anchor.key].append(MarkToMarkPos(glyphName, [anchor]))",
      "for glyphName, anchor in glyph_anchor_pair:\n    if include(glyphName):\n        attachments[anchor.key].append(MarkToMarkPos(glyphName, [anchor]))", rule="R06.15"),
    M("only contexts with a lookahead get contextual mark lookups", "ufo2ft/featureWriters/markFeatureWriter.py", "MarkFeatureWriter._makeMarkFeature",
      "sorted(self.context.contextualMarkToBaseAnchors.items(), key=lambda x: -len(x[0]))",
      "sorted(((k, v) for k, v in self.context.contextualMarkToBaseAnchors.items() if ';' in k), key=lambda x: -len(x[0]))", rule="R06.15"),
    M("contextual tables enumerated through a generator helper", "ufo2ft/featureWriters/markFeatureWriter.py", "MarkFeatureWriter._makeMkmkFeature",
      "sorted(self.context.contextualMarkToMarkAnchors.items(), key=lambda x: -len(x[0]))", "self._iterContexts(self.context.contextualMarkToMarkAnchors)", kind="equiv",
      also=(("ufo2ft/featureWriters/markFeatureWriter.py", "MarkFeatureWriter", "<add-method>",
             "@staticmethod\ndef _iterContexts(table):\n    for context, pairs in sorted(table.items(), key=lambda x: -len(x[0])):\n        yield context, pairs\n"),)),
    M("greedy prefix in the ligature-number pattern (seeded C06g)", "ufo2ft/featureWriters/markFeatureWriter.py", None,
      "re.compile(r'.*?(\\d+)$')", "re.compile(r'.*(\\d+)$')", rule="R06.14"),
    M("below-mark filter decided on its own (seeded C06f)", "ufo2ft/featureWriters/markFeatureWriter.py", "MarkFeatureWriter._isBelowMark",
      "not self._isAboveMark(anchor)", "anchor.name in self.blwmAnchorNames or anchor.name.startswith('bottom')", rule="R06.13"),
    M("blwm uses the above-mark filter", "ufo2ft/featureWriters/markFeatureWriter.py", "MarkFeatureWriter._makeAbvmOrBlwmFeature",
      "marksFilter = self._isBelowMark", "marksFilter = self._isAboveMark", rule="R06.13"),
    M("static anchors rounded to integers before quantisation (seeded C06e)", "ufo2ft/featureWriters/baseFeatureWriter.py", "BaseFeatureWriter._getAnchor",
      "x = anchor.x\ny = anchor.y", "x = otRound(anchor.x)\ny = otRound(anchor.y)", rule="R06.2"),
    M("ligature eligibility: or -> and (mutation scan k=270)", "ufo2ft/featureWriters/markFeatureWriter.py", "MarkFeatureWriter._makeMarkToLigaAttachments",
      "glyphName in markGlyphNames or (ligatureClass is not None and glyphName not in ligatureClass)", "glyphName in markGlyphNames and (ligatureClass is not None and glyphName not in ligatureClass)", rule="R06.7"),
    M("base eligibility ignores the GDEF base class", "ufo2ft/featureWriters/markFeatureWriter.py", "MarkFeatureWriter._makeMarkToBaseAttachments",
      "glyphName in markGlyphNames or (baseClass is not None and glyphName not in baseClass)", "glyphName in markGlyphNames", rule="R06.7"),
    M("ligature components padded with aliased lists that are appended to (seeded C06d)", "ufo2ft/featureWriters/markFeatureWriter.py", "MarkFeatureWriter._makeMarkToLigaAttachments",
      "ligatureMarks = []", "ligatureMarks = []\nligatureMarks.extend([[]] * 3)\nligatureMarks[0].append(None)", rule="R06.12"),
    M("glyphs recorded as marks before the GDEF mark filter (seeded C06c)", "ufo2ft/featureWriters/markFeatureWriter.py", "MarkFeatureWriter._groupMarkGlyphsByAnchor",
      "if gdefMarks is not None and glyphName not in gdefMarks:\n    continue", "markGlyphNames.add(glyphName)\nif gdefMarks is not None and glyphName not in gdefMarks:\n    continue", rule="R06.11"),
    M("class name not carried over after a clash (seeded C06b)", "ufo2ft/featureWriters/markFeatureWriter.py", "MarkFeatureWriter._makeMarkClassDefinitions",
      "className = mcd.markClass.name", "pass", rule="R06.4"),
    M("glyphs of undeclared abvm scripts fall between the two sets (seeded C06a)", "ufo2ft/featureWriters/markFeatureWriter.py", "MarkFeatureWriter._getAbvmGlyphs",
      "notAbvmGlyphs |= glyphSet - abvmGlyphs", "notAbvmGlyphs |= glyphSet - set().union(*glyphGroups.values())", rule="R06.10"),
    M("mark feature built for abvm glyphs", "ufo2ft/featureWriters/markFeatureWriter.py", "MarkFeatureWriter._makeFeatures",
      "self._makeMarkFeature(include=isNotAbvm)", "self._makeMarkFeature(include=isAbvm)", rule="R06.10"),
    M("anchors at x == 0 fall back to the default master", "ufo2ft/featureWriters/baseFeatureWriter.py", "BaseFeatureWriter._getAnchor",
      "x = anchor.x", "x = anchor.x or 0.0", rule="R06.9"),
    M("mark anchors on the baseline skipped", "ufo2ft/featureWriters/markFeatureWriter.py", "MarkFeatureWriter._makeMarkClassDefinitions",
      "mcd = self._defineMarkClass(glyphName, anchor.x, anchor.y, className, currentClasses)", "if not anchor.y:\n    continue\nmcd = self._defineMarkClass(glyphName, anchor.x, anchor.y, className, currentClasses)", rule="R06.9"),
    M("mark class anchor swaps x and y", "ufo2ft/featureWriters/markFeatureWriter.py", "MarkFeatureWriter._defineMarkClass",
      "ast.Anchor(x=otRoundIgnoringVariable(x), y=otRoundIgnoringVariable(y))", "ast.Anchor(x=otRoundIgnoringVariable(y), y=otRoundIgnoringVariable(x))", rule="R06.4"),
    M("base anchors not rounded", "ufo2ft/featureWriters/markFeatureWriter.py", "AbstractMarkPos._marksAsAST",
      "ast.Anchor(x=otRoundIgnoringVariable(anchor.x), y=otRoundIgnoringVariable(anchor.y))", "ast.Anchor(x=anchor.x, y=otRoundIgnoringVariable(anchor.y))", rule="R06.1"),
    M("ligature anchor y from x", "ufo2ft/featureWriters/markFeatureWriter.py", "MarkToLigaPos._marksAsAST",
      "ast.Anchor(x=otRoundIgnoringVariable(anchor.x), y=otRoundIgnoringVariable(anchor.y))", "ast.Anchor(x=otRoundIgnoringVariable(anchor.x), y=otRoundIgnoringVariable(anchor.x))", rule="R06.1"),
    M("otRoundIgnoringVariable truncates", "ufo2ft/util.py", "otRoundIgnoringVariable", "return otRound(number)", "return int(number)", rule="R06.1"),
    M("_getAnchor returns (y, x)", "ufo2ft/featureWriters/baseFeatureWriter.py", "BaseFeatureWriter._getAnchor", "return (x, y)", "return (y, x)", rule="R06.2"),
    M("variable y collected from x", "ufo2ft/featureWriters/baseFeatureWriter.py", "BaseFeatureWriter._getAnchor",
      "y_value.add_value(location, otRound(anchor.y))", "y_value.add_value(location, otRound(anchor.x))", rule="R06.2"),
    M("variable x not rounded", "ufo2ft/featureWriters/baseFeatureWriter.py", "BaseFeatureWriter._getAnchor",
      "x_value.add_value(location, otRound(anchor.x))", "x_value.add_value(location, anchor.x)", rule="R06.2"),
    M("y quantised from x", "ufo2ft/featureWriters/baseFeatureWriter.py", "BaseFeatureWriter._getAnchor",
      "y = quantize(y, self.options.quantization)", "y = quantize(x, self.options.quantization)", rule="R06.2"),
    M("NamedAnchor gets swapped coordinates", "ufo2ft/featureWriters/markFeatureWriter.py", "MarkFeatureWriter._getAnchorLists",
      "x, y = self._getAnchor(glyphName, anchorName, anchor=anchor)", "y, x = self._getAnchor(glyphName, anchorName, anchor=anchor)", rule="R06.2"),
    M("variable values recorded at the default location", "ufo2ft/featureWriters/baseFeatureWriter.py", "BaseFeatureWriter._getAnchor",
      "location = get_userspace_location(designspace, source.location)", "location = get_userspace_location(designspace, designspace.findDefault().location)", rule="R06.2"),
    M("pairs recorded without a counterpart", "ufo2ft/featureWriters/markFeatureWriter.py", "MarkFeatureWriter._getAnchorPairs",
      "if markAnchorName in markAnchorNames:\n    anchorPairs[anchor.name] = markAnchorName", "anchorPairs[anchor.name] = markAnchorName", rule="R06.3"),
    M("mark anchors recorded as bases", "ufo2ft/featureWriters/markFeatureWriter.py", "MarkFeatureWriter._getAnchorPairs",
      "if anchor.isMark:\n    continue", "pass", rule="R06.3"),
    M("counterpart name without the prefix", "ufo2ft/featureWriters/markFeatureWriter.py", "NamedAnchor.markAnchorName",
      "self.markPrefix + self.key", "self.key", rule="R06.3"),
    M("mark classes stored under the anchor name", "ufo2ft/featureWriters/markFeatureWriter.py", "MarkFeatureWriter._makeMarkClassDefinitions",
      "allMarkClasses[anchor.key] = currentClasses[className]", "allMarkClasses[anchor.name] = currentClasses[className]", rule="R06.4"),
    M("_defineMarkClass gets y, x", "ufo2ft/featureWriters/markFeatureWriter.py", "MarkFeatureWriter._makeMarkClassDefinitions",
      "self._defineMarkClass(glyphName, anchor.x, anchor.y, className, currentClasses)", "self._defineMarkClass(glyphName, anchor.y, anchor.x, className, currentClasses)", rule="R06.4"),
    M("mark anchors linked to classes too", "ufo2ft/featureWriters/markFeatureWriter.py", "MarkFeatureWriter._setBaseAnchorMarkClasses",
      "anchor.isMark or not anchor.key or anchor.key not in markClasses", "not anchor.key or anchor.key not in markClasses", rule="R06.4"),
    M("ligature components enumerated from 0", "ufo2ft/featureWriters/markFeatureWriter.py", "MarkFeatureWriter._makeMarkToLigaAttachments",
      "range(1, max(componentAnchors.keys()) + 1)", "range(0, max(componentAnchors.keys()))", rule="R06.5"),
    M("gaps skipped instead of NULL components", "ufo2ft/featureWriters/markFeatureWriter.py", "MarkFeatureWriter._makeMarkToLigaAttachments",
      "for number in range(1, max(componentAnchors.keys()) + 1):\n    ligatureMarks.append(componentAnchors.get(number, []))",
      "for number in sorted(componentAnchors):\n    ligatureMarks.append(componentAnchors[number])", rule="R06.5"),
    M("component 0 accepted", "ufo2ft/featureWriters/markFeatureWriter.py", "NamedAnchor.__init__", "number < 1", "number < 0", rule="R06.5"),
    M("mark-to-mark emitted as mark-to-base", "ufo2ft/featureWriters/markFeatureWriter.py", "MarkToMarkPos",
      "Statement = ast.MarkMarkPosStatement", "Statement = ast.MarkBasePosStatement", rule="R06.6"),
    M("numbered anchors also attach as bases", "ufo2ft/featureWriters/markFeatureWriter.py", "MarkFeatureWriter._makeMarkToBaseAttachments",
      "anchor.markClass is None or anchor.number is not None", "anchor.markClass is None", rule="R06.7"),
    M("mark glyphs get mark-to-base", "ufo2ft/featureWriters/markFeatureWriter.py", "MarkFeatureWriter._makeMarkToBaseAttachments",
      "glyphName in markGlyphNames or (baseClass is not None and glyphName not in baseClass)", "baseClass is not None and glyphName not in baseClass", rule="R06.7"),
    M("mkmk grouped by anchor name", "ufo2ft/featureWriters/markFeatureWriter.py", "MarkFeatureWriter._makeMarkToMarkAttachments",
      "results.setdefault(anchor.key, []).append(pos)", "results.setdefault(glyphName, []).append(pos)", rule="R06.7"),
    M("prefix not stripped from the key", "ufo2ft/featureWriters/markFeatureWriter.py", "parseAnchorName",
      "key = key[len(markPrefix):]", "pass", rule="R06.8"),
    M("numbered mark anchors accepted", "ufo2ft/featureWriters/markFeatureWriter.py", "parseAnchorName",
      "if number is not None:\n    raise ValueError('mark anchor cannot be numbered: %r' % anchorName)", "pass", rule="R06.8"),
    # equivalents
    M("positional Anchor arguments", "ufo2ft/featureWriters/markFeatureWriter.py", "MarkFeatureWriter._defineMarkClass",
      "ast.Anchor(x=otRoundIgnoringVariable(x), y=otRoundIgnoringVariable(y))", "ast.Anchor(otRoundIgnoringVariable(x), otRoundIgnoringVariable(y))", kind="equiv"),
    M("keyword call of _defineMarkClass", "ufo2ft/featureWriters/markFeatureWriter.py", "MarkFeatureWriter._makeMarkClassDefinitions",
      "self._defineMarkClass(glyphName, anchor.x, anchor.y, className, currentClasses)", "self._defineMarkClass(glyphName, y=anchor.y, x=anchor.x, className=className, markClasses=currentClasses)", kind="equiv"),
]
