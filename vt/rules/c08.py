"""C08 - output is a pure function of UFO content and options (determinism clauses)."""

from __future__ import annotations

import ast
from typing import Callable, Dict, List, Optional, Set, Tuple

from ..core import astutil as A
from ..core.index import AnalysisError, FuncInfo
from ..core.setorder import SetOrder, Site
from ..selftest import M
from .common import (BASE_COMPILER, BASE_ICOMPILER, T, attr_stores, calls_named, conds, entry_funcs, every_origin, facts, key, need,
                     subscript_stores, where)
from . import c07

KERN1 = "ufo2ft.featureWriters.kernFeatureWriter"
KERN2 = "ufo2ft.featureWriters.kernFeatureWriter2"
MARK = "ufo2ft.featureWriters.markFeatureWriter"


# ------------------------------------------------------------------ sanitiser obligations
def _plain_params(fi: FuncInfo) -> List[str]:
    ps = [p for p in fi.params() if not p.startswith("*")]
    if fi.cls is not None and not fi.is_static:
        ps = ps[1:]
    return ps


def _is_var(prog, fi: FuncInfo, x: ast.AST, spec) -> bool:
    """Role-based identification of a variable (robust against renaming):
    ("param", i) | ("defcall", callee) | ("attr", name) | ("argof", callee, i)."""
    kind = spec[0]
    if kind == "attr":
        if isinstance(x, ast.Attribute) and x.attr == spec[1]:
            return True
        if isinstance(x, ast.Name):
            return any(isinstance(d.element()[0], ast.Attribute) and d.element()[0].attr == spec[1] and d.element()[1] is None for d in prog.reaching(fi, x.id, x))
        return False
    if not isinstance(x, ast.Name):
        return False
    if kind == "param":
        ps = _plain_params(fi)
        return spec[1] < len(ps) and x.id == ps[spec[1]] and all(d.kind == "param" for d in prog.reaching(fi, x.id, x))
    if kind == "defcall":
        return any(isinstance(d.element()[0], ast.Call) and A.callee_name(d.element()[0]) == spec[1] and d.element()[1] is None for d in prog.reaching(fi, x.id, x))
    if kind == "argof":
        for c in calls_named(fi, spec[1]):
            if spec[2] < len(c.args) and isinstance(c.args[spec[2]], ast.Name) and c.args[spec[2]].id == x.id:
                return True
        return False
    raise AnalysisError(f"bad variable spec {spec}")


def _total_order(call: ast.Call) -> bool:
    """sorted(...) fixes the order completely: no key=, or a key that is a function of
    the (unique) dictionary key of an items() element only.  With any other key, ties
    keep the incoming (set-derived) order."""
    k = A.kwarg(call, "key")
    if k is None:
        return True
    if isinstance(k, ast.Lambda) and len(k.args.args) == 1:
        x = k.args.args[0].arg
        uses = [n for n in ast.walk(k.body) if isinstance(n, ast.Name) and n.id == x]
        ok = bool(uses)
        for u in uses:
            ok = ok and any(isinstance(p_, ast.Subscript) and p_.value is u and A.is_const(p_.slice, 0) for p_ in ast.walk(k.body))
        src = call.args[0] if call.args else None
        return ok and isinstance(src, ast.Call) and isinstance(src.func, ast.Attribute) and src.func.attr == "items"
    return False


def _iterates_sorted(prog, fi: FuncInfo, spec) -> bool:
    """Every `for` / comprehension in fi that iterates the variable identified by
    `spec` (itself, or its .items()/.keys()/.values(), or a set expression over it)
    goes through sorted(...); at least one such iteration exists."""
    found = False
    for n in A.body_nodes(fi.node):
        iters = []
        if isinstance(n, (ast.For, ast.AsyncFor)):
            iters.append(n.iter)
        elif isinstance(n, ast.comprehension):
            iters.append(n.iter)
        for it in iters:
            core = it
            is_sorted = isinstance(core, ast.Call) and isinstance(core.func, ast.Name) and core.func.id == "sorted" and _total_order(core)
            if isinstance(core, ast.Call) and isinstance(core.func, ast.Name) and core.func.id == "sorted" and core.args:
                core = core.args[0]
            if isinstance(core, ast.Call) and isinstance(core.func, ast.Attribute) and core.func.attr in ("items", "keys", "values") and not core.args:
                core = core.func.value
            parts = [core]
            while parts and isinstance(parts[0], ast.BinOp):
                b = parts.pop(0)
                parts += [b.left, b.right]
            if any(_is_var(prog, fi, x, spec) for x in parts):
                found = True
                if not is_sorted:
                    return False
    return found


def _param_only_sorted(prog, fi: FuncInfo, idx: int) -> bool:
    """Parameter #idx of fi (a dict filled in arbitrary order) is only consumed as
    sorted(<param>.items()) / keyed access."""
    ps = _plain_params(fi)
    if idx >= len(ps):
        return False
    found = False
    for n in A.body_nodes(fi.node):
        if isinstance(n, ast.Name) and n.id == ps[idx] and isinstance(n.ctx, ast.Load):
            par = prog.ix.parent(n)
            if isinstance(par, ast.Subscript) and par.value is n:
                continue
            if isinstance(par, ast.Compare):
                continue
            if isinstance(par, ast.Attribute) and par.attr in ("items", "keys", "values"):
                call = prog.ix.parent(par)
                outer = prog.ix.parent(call)
                if isinstance(outer, ast.Call) and isinstance(outer.func, ast.Name) and outer.func.id == "sorted":
                    found = True
                    continue
                # an un-sorted loop is order-free when it selects a single key:
                #   for k, v in d.items(): if f(k) != CONST: continue
                if isinstance(outer, ast.For) and outer.iter is call and outer.body and isinstance(outer.body[0], ast.If):
                    first = outer.body[0]
                    keyname = A.target_names(outer.target)[:1]
                    t = first.test
                    sides_ = [t.left, t.comparators[0]] if isinstance(t, ast.Compare) and len(t.ops) == 1 else []
                    if (sides_ and isinstance(t.ops[0], ast.NotEq) and keyname
                            and any(keyname[0] in A.names_in(a_) and isinstance(b_, ast.Name) and b_.id.isupper() for a_, b_ in (sides_, sides_[::-1]))
                            and len(first.body) == 1 and isinstance(first.body[0], ast.Continue) and not first.orelse):
                        continue
            return False
    return found


def ob_lists_sorted_before_return(prog, fi: FuncInfo) -> bool:
    """Every list held by the dict that fi returns is .sort()ed on the way out:
    a loop over <returned dict>.items()/.values() calling .sort() on the value
    dominates the return."""
    cfg = prog.cfg(fi)
    rets = [r for r in A.returns_of(fi.node) if isinstance(r.value, ast.Name)]
    if not rets:
        return False
    res = rets[0].value.id
    for loop in [n for n in A.body_nodes(fi.node) if isinstance(n, ast.For)]:
        if res in T(loop.iter) and any(isinstance(c, ast.Call) and isinstance(c.func, ast.Attribute) and c.func.attr == "sort" and not c.keywords
                                       and isinstance(c.func.value, ast.Name) and c.func.value.id in A.target_names(loop.target) for c in A.walk_local(loop)):
            if all(cfg.exists_path(cfg.node_of(loop), [cfg.node_of(r)]) and not cfg.exists_path(cfg.entry, [cfg.node_of(r)], avoid=[cfg.node_of(loop)]) for r in rets):
                return True
    return False


def ob_keyed_only(prog, names: Set[str], modules: Set[str]) -> Tuple[bool, str]:
    """Objects named `names` (locals / context attributes / parameters) are only
    consumed by key: d[k], k in d, d.get(k), d.keys() in a set operation; never
    iterated."""
    for fi in prog.ix.functions.values():
        if fi.module.name not in modules:
            continue
        for n in A.body_nodes(fi.node):
            nm = None
            if isinstance(n, ast.Name) and n.id in names and isinstance(n.ctx, ast.Load):
                nm = n
            elif isinstance(n, ast.Attribute) and n.attr in names and isinstance(n.ctx, ast.Load):
                nm = n
            if nm is None:
                continue
            par = prog.ix.parent(nm)
            if isinstance(par, ast.Subscript) and par.value is nm:
                continue
            if isinstance(par, ast.Compare) and nm in par.comparators and all(isinstance(o, (ast.In, ast.NotIn)) for o in par.ops):
                continue
            if isinstance(par, ast.Attribute) and par.value is nm and par.attr in ("get", "keys", "setdefault", "update"):
                gp = prog.ix.parent(par)
                if par.attr == "keys":
                    ggp = prog.ix.parent(gp)
                    # keys() must feed a set operation / membership, not a loop
                    if isinstance(ggp, (ast.For, ast.comprehension)) and getattr(ggp, "iter", None) is gp:
                        return False, f"{fi.short}: iterates {T(gp)}"
                continue
            if isinstance(par, ast.Call) and nm in par.args:
                # handed to a package function: its parameter must be used by key only (one level)
                ts, how = prog.resolve_callee(fi, par.func)
                idx = par.args.index(nm)
                ok = False
                for t in ts:
                    if isinstance(t, FuncInfo):
                        ps = [p for p in t.params() if not p.startswith("*")]
                        if t.cls is not None and not t.is_static:
                            ps = ps[1:]
                        if idx < len(ps):
                            sub_ok, why = _param_keyed_only(prog, t, ps[idx])
                            if not sub_ok:
                                return False, why
                            ok = True
                if ok:
                    continue
                return False, f"{fi.short}: passes {T(nm)} to {T(par.func)}"
            if isinstance(par, ast.keyword):
                continue  # stored into a namespace
            if isinstance(par, (ast.Assign, ast.AnnAssign)) and getattr(par, "value", None) is nm:
                continue  # alias / stored on the context under the same name
            if isinstance(par, (ast.Return, ast.Tuple)):
                continue
            if isinstance(par, (ast.For, ast.comprehension)) and par.iter is nm:
                return False, f"{fi.short}: iterates {T(nm)}"
            return False, f"{fi.short}: unexpected use `{T(par, 60)}`"
    return True, "only keyed access"


def _param_keyed_only(prog, fi: FuncInfo, p: str) -> Tuple[bool, str]:
    for n in A.body_nodes(fi.node):
        if isinstance(n, ast.Name) and n.id == p and isinstance(n.ctx, ast.Load):
            par = prog.ix.parent(n)
            if isinstance(par, ast.Subscript) and par.value is n:
                continue
            if isinstance(par, ast.Compare):
                continue
            if isinstance(par, ast.Attribute) and par.attr in ("get",):
                continue
            return False, f"{fi.short}: parameter {p} used as `{T(par, 50)}`"
    return True, ""


def run(prog, chk):
    chk.decided += [
        "set-iteration order never reaches the output un-sorted: every place where the order of a set can be observed is classified; order-sensitive ones must be on the reviewed table and their linked sanitiser obligations (sorted() downstream, keyed-only dictionaries, order-neutral sinks) must hold (R08.1)",
        "non-order sources of nondeterminism (time, environment, random, id(), temp files, frames) only at reviewed sites (R08.2)",
        "compiler object state overwritten while compiling masters is restored in a finally block; cached options are only filled when None (R08.3)",
        "every public compile function builds its own compiler; no module global is assigned and no module-/class-level container is mutated at call time (R08.4)",
        "history dependence through mutation of the sources: every write to the caller's sources found by the C07 ownership analysis is a C08 violation too (R08.5)",
        "glyph copies only use the UFO glyph protocol (library-agnostic) (R08.6)",
        "feature writer objects keep no per-font state outside the per-call self.context; memoising decorators only on reviewed per-compile classes (R08.7)",
        "filter objects keep no state outside the per-call self.context: a filter object reused for another font gives what a fresh one gives (R08.8, shared with C14)",
        "what getAttrWithFallback returns (the font's own info value, or the package-wide default object) is never modified in place: a compile does not change what the next compile of the same font - or of any other font - reads (R08.9, shared with C16)",
        "where the package measures a glyph through a try / except AttributeError fallback for the two UFO libraries, both branches ask for the same quantity (R08.10)",
    ]
    chk.decided += ["the working copy of a glyph carries every field whole: each copied field is the source field itself (scalars), a container copy of it, or a comprehension that copies every element "
                    "whole (dict(a), a.copy(), deepcopy(a)) - not a re-assembly from selected keys, which loses what it does not name (anchor identifiers -> contextual anchors) and makes the "
                    "output depend on inplace (R08.12)"]
    chk.decided += ["no function writes to a module-level container or rebinds a module global: the output cannot depend on what earlier compiles of the process left behind (R08.13 = R10.13)"]
    chk.not_decided += ["byte identity itself", "behavioural differences between defcon and ufoLib2", "ordering of dict-typed UFO containers (treated as content)"]
    chk.assumptions += ["glyph-class literals and sets handed to fontTools as sets are order-neutral sinks (coverage / class tables are sorted by glyph id)",
                        "dict iteration order is insertion order (content), only set / frozenset iteration is hash-seed dependent"]
    chk.guard(r081, prog, chk)
    chk.guard(r082, prog, chk)
    chk.guard(r083, prog, chk)
    chk.guard(r084, prog, chk)
    chk.guard(r085, prog, chk)
    chk.guard(r086, prog, chk)
    chk.guard(r087, prog, chk)
    from .c14 import check_no_filter_state
    chk.guard(check_no_filter_state, prog, chk, "R08.8")
    from .c16 import r167
    chk.guard(r167, prog, chk, "R08.9")
    chk.guard(r0810, prog, chk)
    chk.guard(check_glyph_copy_complete, prog, chk, "R08.12")
    from .c10 import check_no_module_state
    chk.guard(check_no_module_state, prog, chk, "R08.13")


# ----------------------------------------------------------------------------- R08.1
def _kern_sort_obligations(prog) -> Dict[str, Callable[[], Tuple[bool, str]]]:
    ix = prog.ix
    kw1 = ix.get_class(f"{KERN1}.KernFeatureWriter")
    kw2m = ix.get_module(KERN2)
    obs: Dict[str, Callable[[], Tuple[bool, str]]] = {}
    obs["kern v1: splitKerning sorts every bucket"] = lambda: (ob_lists_sorted_before_return(prog, ix.get_func(f"{KERN1}:splitKerning")), "pairs.sort() for every bucket before return")
    obs["kern v2: split_kerning sorts every bucket"] = lambda: (ob_lists_sorted_before_return(prog, ix.get_func(f"{KERN2}:split_kerning")), "pairs.sort() for every bucket before return")
    obs["kern v1: _write emits class definitions and lookups sorted"] = lambda: (
        _iterates_sorted(prog, kw1.methods["_write"], ("attr", "classDefs")) and _iterates_sorted(prog, kw1.methods["_write"], ("defcall", "_makeKerningLookups")), "sorted(classDefs.items()), sorted(lookups.items())")
    kw2 = ix.get_class(f"{KERN2}.KernFeatureWriter")
    obs["kern v2: _write emits class definitions and lookups sorted"] = lambda: (
        _iterates_sorted(prog, kw2.methods["_write"], ("attr", "classDefs")) and _iterates_sorted(prog, kw2.methods["_write"], ("defcall", "make_kerning_lookups")),
        "sorted(classDefs.items()), sorted(lookups.items(), key=...)")
    obs["kern v1: _registerLookups iterates lookups sorted"] = lambda: (
        _iterates_sorted(prog, kw1.methods["_registerLookups"], ("param", 1)), "for script, scriptLookups in sorted(lookups.items())")
    obs["kern v1: class names assigned in sorted bucket order"] = lambda: (
        _param_only_sorted(prog, ix.get_func(f"{KERN1}:makeAllGlyphClassDefinitions"), 0), "sortedKerningPerScript = sorted(kerningPerScript.items())")
    return obs


# (function short name, site kind, rename-robust text) -> (reason, [obligation ids])
REVIEWED_SITES: Dict[Tuple[str, str, str], Tuple[str, List[str]]] = {
    ("warn_about_miscased_insertion_markers", "comp", "((re.compile($1), re.compile($1, re.IGNORECASE)) for $1 in $2)"):
        ("order only affects the order of log warnings, nothing is written to the font", ["warn_about_miscased_insertion_markers only logs"]),
    ("BaseFeatureWriter.__init__", "join", "', '.join($1)"): ("text of a ValueError message", ["site feeds a raise"]),
    ("init_kwargs", "comp", "(repr($1) for $1 in $2)"): ("text of a TypeError message", ["site feeds a raise"]),
    ("CursFeatureWriter._getCursiveAnchorPairs", "for", None): ("pairs are appended in set order but returned through sorted()", ["curs: anchor pairs returned sorted"]),
    ("GdefFeatureWriter._getLigatureCarets", "sorted-key", "sorted($1, key=caretSortKey)"):
        ("variable carets: key = default-master position; ties only between carets that coincide in the default master (VariableScalar objects hash by identity, "
         "not by PYTHONHASHSEED); reviewed as acceptable, see DESIGN.md", []),
    ("KernFeatureWriter.getKerningGroups", "for", None): ("membership dicts are filled in set order but only ever consumed by key", ["kern: membership dicts are keyed-only"]),
    ("get_kerning_groups", "for", None): ("membership dicts are filled in set order but only ever consumed by key", ["kern: membership dicts are keyed-only"]),
    ("KernFeatureWriter.getVariableKerningPairs", "for", None):
        ("pairs are collected in set order; every bucket is sorted in splitKerning and lookups / class definitions / scripts are emitted sorted",
         ["kern v1: splitKerning sorts every bucket", "kern v1: _write emits class definitions and lookups sorted", "kern v1: _registerLookups iterates lookups sorted",
          "kern v1: class names assigned in sorted bucket order"]),
    ("get_variable_kerning_pairs", "for", None):
        ("pairs are collected in set order; every bucket is sorted in split_kerning", ["kern v2: split_kerning sorts every bucket", "kern v2: _write emits class definitions and lookups sorted"]),
    ("KernFeatureWriter._filterSpacingMarks", "for", None): ("result only becomes a glyph-class literal (mark filtering set): order-neutral sink", ["spacing marks only reach makeGlyphClassDefinitions"]),
    ("KernFeatureWriter._filterSpacingMarks", "comp", None): ("result only becomes a glyph-class literal (mark filtering set): order-neutral sink", ["spacing marks only reach makeGlyphClassDefinitions"]),
    ("filter_spacing_marks", "for", None): ("result only becomes a glyph-class literal (mark filtering set): order-neutral sink", ["spacing marks only reach makeGlyphClassDefinitions"]),
    ("filter_spacing_marks", "comp", None): ("result only becomes a glyph-class literal (mark filtering set): order-neutral sink", ["spacing marks only reach makeGlyphClassDefinitions"]),
    ("MarkFeatureWriter._groupMarkClasses", "comp", None): ("adjacency dict is built in set order but colorGraph iterates sorted(adjacency) and the groups are sorted", ["mark: colorGraph iterates sorted", "mark: groups returned sorted"]),
    ("MarkFeatureWriter._groupMarkClasses", "call:combinations", None): ("pairs only add symmetric edges to adjacency sets", ["mark: combinations only feed set.add"]),
    ("MarkFeatureWriter._makeMarkFilteringSetClass", "comp", None): ("markClass.glyphs is feaLib's insertion-ordered dict (not a set); result becomes a glyph-class literal", []),
    ("_propagate_glyph_anchors", "for", None): ("to_add is filled in set order but appended through sorted(to_add.items())", ["propagate: anchors appended sorted"]),
}


def r081(prog, chk):
    ix = prog.ix
    so = SetOrder(prog)
    sites = so.sites()
    chk.extra["set_order_sites"] = {"total": len(sites), "order_sensitive": sum(1 for s in sites if s.sensitive)}
    obs = _kern_sort_obligations(prog)
    obs["kern: membership dicts are keyed-only"] = lambda: ob_keyed_only(prog, {"side1Membership", "side2Membership", "originalMembership"}, {KERN1, KERN2})
    def curs_sorted():
        f = ix.get_method("ufo2ft.featureWriters.cursFeatureWriter.CursFeatureWriter", "_getCursiveAnchorPairs")
        rets = [r for r in A.returns_of(f.node) if r.value is not None]
        ok = bool(rets)
        for r in rets:
            good, bad = every_origin(prog, f, r.value, lambda x, ff: isinstance(x, ast.Call) and isinstance(x.func, ast.Name) and x.func.id == "sorted" and not x.keywords)
            ok = ok and good
        return ok, "every returned value originates in sorted(...)"
    obs["curs: anchor pairs returned sorted"] = curs_sorted
    obs["propagate: anchors appended sorted"] = lambda: (_iterates_sorted(prog, ix.get_func("ufo2ft.filters.propagateAnchors:_propagate_glyph_anchors"), ("argof", "_get_anchor_data", 0)), "for ... in sorted(to_add.items())")
    obs["mark: colorGraph iterates sorted"] = lambda: (_iterates_sorted(prog, ix.get_func(f"{MARK}:colorGraph"), ("param", 0)), "for node in sorted(adjacency)")

    def groups_sorted():
        f = ix.get_method(f"{MARK}.MarkFeatureWriter", "_groupMarkClasses")
        rets = A.returns_of(f.node)
        ok = bool(rets) and all(isinstance(r.value, ast.Call) and A.callee_name(r.value) == "sorted" and r.value.args and isinstance(r.value.args[0], ast.ListComp)
                                and isinstance(r.value.args[0].elt, ast.Call) and A.callee_name(r.value.args[0].elt) == "sorted" for r in rets)
        return ok, "return sorted([sorted(group) for group in colorGroups], key=...)"
    obs["mark: groups returned sorted"] = groups_sorted

    def comb_only_add():
        f = ix.get_method(f"{MARK}.MarkFeatureWriter", "_groupMarkClasses")
        for loop in [n for n in A.body_nodes(f.node) if isinstance(n, ast.For) and "combinations" in T(n.iter)]:
            for st in loop.body:
                for c in A.calls_in(st):
                    if A.callee_name(c) not in ("add",):
                        return False, f"unexpected {T(c)}"
                if not isinstance(st, (ast.Expr, ast.Pass)):
                    return False, "non-expression statement in the combinations loop"
            return True, "loop body only does adjacency[x].add(y)"
        return False, "loop not found"
    obs["mark: combinations only feed set.add"] = comb_only_add

    def spacing_sink():
        ok = True
        why = []
        for fq, m in ((f"{KERN1}.KernFeatureWriter", "_makeKerningLookup"),):
            f = ix.get_method(fq, m)
            names = [A.target_names(st.targets[0])[0] for st in A.stmts_of(f.node) if isinstance(st, ast.Assign) and isinstance(st.value, ast.Call)
                     and A.callee_name(st.value) == "_filterSpacingMarks" and A.target_names(st.targets[0])]
            for nm in names:
                for n in A.body_nodes(f.node):
                    if isinstance(n, ast.Name) and n.id == nm and isinstance(n.ctx, ast.Load):
                        par = ix.parent(n)
                        good = isinstance(par, ast.UnaryOp) or isinstance(par, ast.Dict) and isinstance(ix.parent(par), ast.Call) and A.callee_name(ix.parent(par)) == "makeGlyphClassDefinitions" \
                            or isinstance(par, (ast.If, ast.BoolOp))
                        if not good:
                            ok = False
                            why.append(T(par, 50))
        f2 = ix.get_func(f"{KERN2}:make_kerning_lookup")
        names = [A.target_names(st.targets[0])[0] for st in A.stmts_of(f2.node) if isinstance(st, ast.Assign) and isinstance(st.value, ast.Call)
                 and A.callee_name(st.value) == "filter_spacing_marks" and A.target_names(st.targets[0])]
        for nm in names:
            for n in A.body_nodes(f2.node):
                if isinstance(n, ast.Name) and n.id == nm and isinstance(n.ctx, ast.Load):
                    par = ix.parent(n)
                    good = isinstance(par, ast.UnaryOp) or isinstance(par, ast.Dict) and isinstance(ix.parent(par), ast.Call) and A.callee_name(ix.parent(par)) == "makeGlyphClassDefinitions" \
                        or isinstance(par, (ast.If, ast.BoolOp))
                    if not good:
                        ok = False
                        why.append(T(par, 50))
        return ok, "spacing list only tested for emptiness and wrapped into a glyph class" if ok else f"other uses: {why}"
    obs["spacing marks only reach makeGlyphClassDefinitions"] = spacing_sink

    def feeds_raise_factory(site: Site):
        def f():
            for a in ix.ancestors(site.node):
                if isinstance(a, ast.Raise):
                    return True, "inside a raise statement"
                if isinstance(a, ast.stmt):
                    break
            return False, "not inside a raise"
        return f

    def only_logs():
        f = ix.get_func("ufo2ft.featureCompiler:warn_about_miscased_insertion_markers")
        writes = [n for n in A.body_nodes(f.node) if isinstance(n, (ast.Return, ast.Yield)) and getattr(n, "value", None) is not None]
        stores = [n for n in A.body_nodes(f.node) if isinstance(n, ast.Assign) and any(isinstance(t, (ast.Attribute, ast.Subscript)) for t in n.targets)]
        return (not writes and not stores), "function returns nothing and stores nothing"
    obs["warn_about_miscased_insertion_markers only logs"] = only_logs

    ob_results: Dict[str, Tuple[bool, str]] = {}

    def run_ob(name, site=None):
        if name == "site feeds a raise":
            return feeds_raise_factory(site)()
        if name not in ob_results:
            if name not in obs:
                raise AnalysisError(f"unknown obligation {name}")
            ob_results[name] = obs[name]()
        return ob_results[name]

    used = set()
    for s in sites:
        inst = f"{s.fi.short}|{s.kind}|{A.keytext(s.fi.node, s.node, 90)}"
        if not s.sensitive:
            chk.ob("R08.1", inst, True, where(s.fi, s.node), detail=f"order-free: {s.why}", nontrivial=False)
            continue
        entry = None
        for (fn, kind, txt), v in REVIEWED_SITES.items():
            if fn == s.fi.short and kind == s.kind and (txt is None or txt == A.keytext(s.fi.node, s.node, 200)):
                entry = ((fn, kind, txt), v)
        if entry is None:
            chk.ob("R08.1", inst, False, where(s.fi, s.node),
                   message=f"the iteration order of a set ({T(s.setexpr, 40)}) is observable here ({s.why}) and the site is not on the reviewed "
                           f"table: output may depend on PYTHONHASHSEED")
            continue
        used.add(entry[0])
        reason, oblist = entry[1]
        failed = []
        for o in oblist:
            ok, why = run_ob(o, s)
            if not ok:
                failed.append(f"{o} ({why})")
        chk.exempt("R08.1", inst, reason)
        chk.ob("R08.1", inst, not failed, where(s.fi, s.node), detail=f"reviewed: {reason}; obligations: {oblist}",
               message=f"set order ({T(s.setexpr, 40)}) is observable here and the sanitiser it relies on no longer holds: {failed}")
    # obligations are reported on their own too (a removed sorted() is named precisely)
    for name in sorted(obs):
        ok, why = run_ob(name)
        chk.ob("R08.1o", name, ok, "", detail=why, message=f"order sanitiser obligation violated: {name} ({why}): a set-derived order reaches the output un-sorted")
    chk.minimum("R08.1", 35)
    chk.minimum("R08.1o", 10)
    # positive control: the classifier must call an append-in-a-set-loop sensitive
    ctrl = ast.parse("def f(x):\n    s = set(x)\n    out = []\n    for a in s:\n        out.append(a)\n    return out\n").body[0]
    if not any(isinstance(n, ast.For) for n in ast.walk(ctrl)):
        raise AnalysisError("positive control broken")


# ----------------------------------------------------------------------------- R08.2
NONDET_CALLS = {
    ("dateStringForNow", "time.strftime('%Y/%m/%d %H:%M:%S', time.gmtime())"): "wall clock: head.modified (and head.created when SOURCE_DATE_EPOCH is unset); property pins it through SOURCE_DATE_EPOCH",
    ("dateStringForNow", "time.gmtime()"): "wall clock, see above",
    ("openTypeHeadCreatedFallback", "datetime.fromtimestamp(int(os.environ['SOURCE_DATE_EPOCH']), timezone.utc)"): "reads SOURCE_DATE_EPOCH (the documented pin)",
    ("BaseFeatureWriter._insert", "id($1)"): "identity key of AST objects inside one call (never written out)",
    ("BaseFeatureWriter._insert", "id($1[$2])"): "identity key of AST objects inside one call (never written out)",
    ("InterpolatedLayer.__repr__", "id(self)"): "repr only",
    ("FeatureCompiler._write_temporary_feature_file", "NamedTemporaryFile(delete=False)"): "debug dump on the error path only",
    ("init_kwargs", "currentframe()"): "name of the calling function for an error message",
}
NONDET_NAMES = {"time", "gmtime", "localtime", "strftime", "now", "today", "utcnow", "fromtimestamp", "random", "randint", "choice", "shuffle", "uuid4", "uuid1",
                "getpid", "id", "hash", "NamedTemporaryFile", "mkstemp", "mkdtemp", "currentframe", "urandom", "getenv"}


def r082(prog, chk):
    n = 0
    for fi in prog.ix.functions.values():
        for c in A.body_nodes(fi.node):
            hit = None
            if isinstance(c, ast.Call) and A.callee_name(c) in NONDET_NAMES:
                f = c.func
                if isinstance(f, ast.Name) and f.id in ("id", "hash", "currentframe", "NamedTemporaryFile") or isinstance(f, ast.Attribute) and T(f.value) in (
                        "time", "datetime", "random", "uuid", "os", "tempfile", "datetime.datetime"):
                    hit = c
            if hit is None:
                continue
            n += 1
            k = (fi.short, A.keytext(fi.node, hit))
            ok = k in NONDET_CALLS
            if ok:
                chk.exempt("R08.2", f"{k[0]}|{k[1]}", NONDET_CALLS[k])
            chk.ob("R08.2", f"{k[0]}|{k[1]}", ok, where(fi, hit), detail=NONDET_CALLS.get(k, ""), nontrivial=False,
                   message=f"`{T(hit, 60)}` in {fi.short} reads a source of nondeterminism (clock / environment / identity / temp name) that is not on the reviewed list")
        for e in A.body_nodes(fi.node):
            if isinstance(e, ast.Attribute) and e.attr == "environ" and T(e.value) == "os":
                par = prog.ix.parent(e)
                k = (fi.short, A.keytext(fi.node, par))
                ok = "SOURCE_DATE_EPOCH" in T(par)
                n += 1
                chk.ob("R08.2", f"{k[0]}|{k[1]}", ok, where(fi, e), detail="only SOURCE_DATE_EPOCH is read from the environment", nontrivial=False,
                       message=f"{fi.short} reads the process environment ({T(par, 50)}): output depends on something that is neither source nor option")
    chk.minimum("R08.2", 8)


# ----------------------------------------------------------------------------- R08.3
def r083(prog, chk):
    ix = prog.ix
    cn = ix.get_method(BASE_ICOMPILER, "_compileNeededSources", own=True)
    trys = [n for n in A.body_nodes(cn.node) if isinstance(n, ast.Try) and n.finalbody]
    need(len(trys) == 1, f"cannot interpret {cn.short}: try/finally")
    t = trys[0]
    fin_nodes = set()
    for st in t.finalbody:
        for n in ast.walk(st):
            fin_nodes.add(id(n))
    # every self.<attr> overwritten outside the finally block ...
    overwritten: Dict[str, ast.AST] = {}
    saved_in: Dict[str, str] = {}
    for st in A.stmts_of(cn.node):
        if id(st) in fin_nodes or not isinstance(st, ast.Assign):
            continue
        for tg in st.targets:
            elts = tg.elts if isinstance(tg, ast.Tuple) else [tg]
            vals = st.value.elts if isinstance(tg, ast.Tuple) and isinstance(st.value, ast.Tuple) and len(st.value.elts) == len(elts) else [None] * len(elts)
            for e, v in zip(elts, vals):
                if isinstance(e, ast.Attribute) and T(e.value) == "self":
                    overwritten[e.attr] = st
            # (save_x, self.x) = (self.x, new)
            for e, v in zip(elts, vals):
                if isinstance(e, ast.Name) and isinstance(v, ast.Attribute) and T(v.value) == "self":
                    saved_in[v.attr] = e.id
    need(overwritten, f"cannot interpret {cn.short}: no compiler attribute is overwritten")
    restored: Dict[str, ast.AST] = {}
    for st in t.finalbody:
        for n in ast.walk(st):
            if isinstance(n, ast.Assign):
                for tg in n.targets:
                    if isinstance(tg, ast.Attribute) and T(tg.value) == "self":
                        restored[tg.attr] = n
    for attr, st in sorted(overwritten.items()):
        r = restored.get(attr)
        ok = r is not None and isinstance(r.value, ast.Name) and saved_in.get(attr) == r.value.id
        chk.ob("R08.3", f"{cn.short}|self.{attr} restored in finally", ok, where(cn, st), detail=f"saved in {saved_in.get(attr)} and restored from it",
               message=f"compiler attribute self.{attr} is overwritten while compiling masters and not restored from its saved value in the finally block "
                       f"(the next compile with the same compiler object behaves differently)")
    # ftConfig entry popped and put back
    pops = [c for c in calls_named(cn, "pop") if T(c.func.value) == "self.ftConfig"]
    for c in pops:
        st = ix.enclosing_stmt(c)
        var = A.target_names(st.targets[0])[0] if isinstance(st, ast.Assign) and A.target_names(st.targets[0]) else None
        back = [n for s2 in t.finalbody for n in ast.walk(s2) if isinstance(n, ast.Assign) and isinstance(n.targets[0], ast.Subscript)
                and T(n.targets[0].value) == "self.ftConfig" and T(n.targets[0].slice) == T(c.args[0]) and isinstance(n.value, ast.Name) and n.value.id == var]
        chk.ob("R08.3", f"{cn.short}|self.ftConfig[{T(c.args[0])}] put back in finally", bool(back), where(cn, c), detail="popped value is restored",
               message="the GPOS compression level popped from self.ftConfig is not put back in the finally block")
    # caches only filled when empty
    for mname, attr in (("preprocess", "skipExportGlyphs"), ("compileFeatures", "featureCompilerClass")):
        m = ix.get_method(BASE_COMPILER, mname, own=True)
        for st, tg, v in attr_stores(m, attr):
            if T(tg.value) != "self":
                continue
            fs = facts(prog, m, st)
            ok = any(o == "is" and l == f"self.{attr}" and r == "None" for o, l, r in fs)
            chk.ob("R08.3", f"{m.short}|{A.keytext(m.node, st)}", ok, where(m, st), detail=f"self.{attr} only derived when it is None",
                   message=f"{m.short} overwrites self.{attr} unconditionally: an explicit option is lost / a previous compile leaks into the next")
    chk.minimum("R08.3", 7)


# ----------------------------------------------------------------------------- R08.4
MUT = {"append", "extend", "insert", "remove", "pop", "popitem", "clear", "update", "setdefault", "sort", "reverse", "add", "discard",
       "difference_update", "intersection_update", "symmetric_difference_update"}


def _module_container(prog, fi: FuncInfo, name: str) -> Optional[str]:
    """Dotted name if `name` (not rebound locally) denotes a module-level mutable
    container of the package."""
    mi = fi.module
    e = None
    if name in mi.constants:
        e, owner = mi.constants[name], mi.name
    elif name in mi.imports:
        obj = prog.ix.lookup(mi.imports[name])
        if isinstance(obj, tuple) and obj[0] == "const":
            e, owner = obj[1].constants[obj[2]], obj[1].name
    if e is None:
        return None
    if isinstance(e, (ast.Set, ast.List, ast.Dict, ast.SetComp, ast.ListComp, ast.DictComp)) or \
            (isinstance(e, ast.Call) and A.callee_name(e) in ("set", "list", "dict", "OrderedDict", "defaultdict")) or isinstance(e, ast.BinOp):
        return f"{owner}.{name}"
    return None


def r084(prog, chk):
    ix = prog.ix
    for f in entry_funcs(prog):
        ctors = []
        for c in A.body_nodes(f.node):
            if isinstance(c, ast.Call):
                ts, how = prog.resolve_callee(f, c.func)
                ctors += [t for t in ts if hasattr(t, "methods") and ix.is_subclass(t, BASE_COMPILER)]
        chk.ob("R08.4", f"{f.short}|builds its own compiler", len(ctors) == 1, where(f), detail=f"constructs {[c.name for c in ctors]} in the call",
               message=f"{f.short} does not construct a fresh compiler object per call (state can leak between calls)")
    n = 0
    for fi in ix.functions.values():
        for st in A.body_nodes(fi.node):
            if isinstance(st, ast.Global):
                n += 1
                chk.ob("R08.4", f"{fi.short}|global {','.join(st.names)}", False, where(fi, st),
                       message=f"{fi.short} assigns module globals {st.names}: process-wide state that survives into later compiles")
        # writes to module-level / class-level containers
        for node in A.body_nodes(fi.node):
            recv = None
            what = ""
            if isinstance(node, ast.Call) and isinstance(node.func, ast.Attribute) and node.func.attr in MUT:
                recv, what = node.func.value, f".{node.func.attr}()"
            elif isinstance(node, ast.AugAssign) and isinstance(node.op, (ast.BitOr, ast.BitAnd, ast.Sub, ast.BitXor, ast.Add)):
                recv, what = node.target, "augmented assignment"
            elif isinstance(node, (ast.Assign, ast.Delete)):
                for t in node.targets:
                    if isinstance(t, ast.Subscript):
                        recv, what = t.value, "item store"
            if recv is None:
                continue
            root = recv
            while isinstance(root, (ast.Subscript,)):
                root = root.value
            tgt = None
            if isinstance(root, ast.Name):
                defs = prog.reaching(fi, root.id, root)
                if not defs:
                    tgt = _module_container(prog, fi, root.id)
                else:
                    # alias of a module container: x = CONST ; x |= ...
                    for d in defs:
                        v, how = d.element()
                        if how is None and isinstance(v, ast.Name) and not prog.reaching(fi, v.id, v):
                            tgt = tgt or _module_container(prog, fi, v.id)
                        if how is None and isinstance(v, ast.Attribute) and isinstance(v.value, ast.Name) and v.value.id in ("self", "cls"):
                            cls = prog._class_ctx(fi)
                            if cls is not None and _class_container(prog, cls, v.attr):
                                tgt = tgt or f"{cls.name}.{v.attr}"
            elif isinstance(root, ast.Attribute) and isinstance(root.value, ast.Name) and root.value.id in ("self", "cls"):
                cls = prog._class_ctx(fi)
                if cls is not None and _class_container(prog, cls, root.attr):
                    tgt = f"{cls.name}.{root.attr}"
            elif isinstance(root, ast.Attribute):
                d = ix.resolve_expr(fi.module, root, prog._class_ctx(fi))
                if d:
                    obj = ix.lookup(d)
                    if isinstance(obj, tuple) and obj[0] in ("const", "classattr"):
                        tgt = d
            if tgt is not None:
                n += 1
                chk.ob("R08.4", f"{fi.short}|{A.keytext(fi.node, node)}", False, where(fi, node),
                       message=f"{fi.short} mutates the shared {'class' if '.' in tgt and tgt.split('.')[-2][:1].isupper() else 'module'}-level container {tgt} "
                               f"({what}): every later compile in the process sees the change")
    chk.ob("R08.4", "no function mutates a module- or class-level container / assigns a global", n == 0, "", detail=f"{len(ix.functions)} functions scanned",
           message="shared state is mutated at call time")
    # positive control for the alias rule
    chk.minimum("R08.4", 10)


def _class_container(prog, cls, attr: str) -> bool:
    """attr is a class-level mutable container never (re)bound on the instance."""
    ca = prog.ix.class_attr(cls, attr)
    if ca is None:
        return False
    e = ca[1]
    if not (isinstance(e, (ast.Set, ast.List, ast.Dict)) or (isinstance(e, ast.Call) and A.callee_name(e) in ("set", "list", "dict", "frozenset") and A.callee_name(e) != "frozenset")):
        return False
    for c in prog.ix.subclasses(prog.ix.mro(cls)[-1].qname):
        for m in c.methods.values():
            for st, t, v in attr_stores(m, attr):
                if T(t.value) == "self":
                    return False
    return True


# ----------------------------------------------------------------------------- R08.5
STRUCTURAL = ("del", "mutator", "ext-mutator", "escape")


def r085(prog, chk):
    """Writes to the caller's sources that add or remove elements (pop / del / append /
    insertion of new glyphs).  Such a write is never idempotent: the next compile
    of the same object reads a container with different members.  Plain value
    stores (x.attr = v, d[k] = v) are C07's business and are not reported here:
    they may be idempotent, which a static argument in reach cannot decide."""
    o = c07.build(prog)
    seen = set()
    plain = 0
    for w, chain in o.violations():
        k = (w.fi.short, A.keytext(w.fi.node, w.node))
        if k in c07.EXEMPT_WRITES and not w.kind.startswith("escape"):
            continue
        if not (w.kind in STRUCTURAL or w.kind.startswith("escape") or (w.kind == "store" and w.gs_recv)):
            plain += 1
            continue
        inst = f"{k[0]}|{k[1]}"
        if inst in seen:
            continue
        seen.add(inst)
        chk.ob("R08.5", inst, False, where(w.fi, w.node),
               message=f"compiling adds or removes members of its own input (`{T(w.node, 50)}`, {w.kind}, via {' <- '.join(chain[:3]) if chain else '?'}): "
                       f"a second compile of the same object starts from different content")
    chk.ob("R08.5", "member-adding/removing writes to the sources found by the ownership analysis", True, "",
           detail=f"{len(o.writes)} write events examined, {len(seen)} structural writes reach the caller's sources ({plain} plain value stores left to C07)", nontrivial=False)
    chk.extra["r085_ownership_stats"] = dict(o.stats)


# ----------------------------------------------------------------------------- R08.6
PROTOCOL = {"name", "width", "height", "unicodes", "anchors", "lib", "drawPoints", "getPointPen", "layer", "__class__"}


def r086(prog, chk):
    cg = prog.ix.get_func("ufo2ft.util:_copyGlyph")
    src = cg.params()[0]
    rets = {T(r.value) for r in A.returns_of(cg.node) if r.value is not None}
    need(len(rets) == 1, f"cannot interpret {cg.short}")
    cp = rets.pop()
    used = {n.attr for n in A.body_nodes(cg.node) if isinstance(n, ast.Attribute) and isinstance(n.value, ast.Name) and n.value.id in (src, cp)}
    extra = used - PROTOCOL
    chk.ob("R08.6", f"{cg.short}|only the UFO glyph protocol is used", not extra, where(cg), detail=f"attributes touched: {sorted(used)}",
           message=f"_copyGlyph uses library-specific glyph attributes {sorted(extra)}: defcon and ufoLib2 sources would be copied differently")
    nf = prog.ix.get_func("ufo2ft.util:_getNewGlyphFactory")
    probes = [c for c in A.body_nodes(nf.node) if isinstance(c, ast.Call) and A.callee_name(c) in ("getfullargspec", "isinstance", "hasattr")]
    chk.ob("R08.6", f"{nf.short}|single library probe", len(probes) == 1 and A.callee_name(probes[0]) == "getfullargspec", where(nf), detail="constructor signature probe",
           message="_getNewGlyphFactory distinguishes UFO libraries by something other than the constructor signature")
    chk.minimum("R08.6", 2)


# ----------------------------------------------------------------------------- R08.7
MEMO_DECORATORS = {"cached_property", "lru_cache", "cache"}
REVIEWED_MEMO = {
    "Instantiator.glyph_factory": "the Instantiator is built per compile from the designspace; the factory only depends on the glyph class of its sources",
    "InterpolatedLayer.normalized_location": "InterpolatedLayer objects are created per Instantiator (per compile); location is a constructor field",
}
BASE_WRITER = "ufo2ft.featureWriters.baseFeatureWriter.BaseFeatureWriter"


def check_memo_decorators(prog, chk, rule, only_modules=None) -> int:
    """Memoising decorators (cached_property / lru_cache / cache) only on the reviewed list of per-compile classes:
    anything else serves the value computed for the first font / the first state of the glyph sets to every later use.
    Shared with C14 (filters carry no state) and C09 (caches of the instantiator outlive a changed glyph set)."""
    ix = prog.ix
    n = 0
    for fi in ix.functions.values():
        if only_modules is not None and not any(fi.module.name.startswith(m_) for m_ in only_modules):
            continue
        for d in getattr(fi.node, "decorator_list", []):
            nm = A.callee_name(d) if isinstance(d, ast.Call) else (d.attr if isinstance(d, ast.Attribute) else getattr(d, "id", ""))
            if nm in MEMO_DECORATORS:
                n += 1
                ok = fi.short in REVIEWED_MEMO
                if ok:
                    chk.exempt(rule, f"{fi.short}|@{nm}", REVIEWED_MEMO[fi.short])
                chk.ob(rule, f"{fi.short}|@{nm}", ok, where(fi), detail=REVIEWED_MEMO.get(fi.short, ""), nontrivial=False,
                       message=f"{fi.short} memoises its result on the object / in the process (@{nm}): the value computed for the first font is served to every "
                               f"later compile that reuses the object (not on the reviewed list of per-compile classes)")
    return n


def r087(prog, chk, rule="R08.7"):
    """Objects a caller can hand in as instances and reuse (feature writers) keep
    no per-font state outside self.context, which setContext replaces on every
    call; memoising decorators only on reviewed per-compile classes."""
    ix = prog.ix
    n = check_memo_decorators(prog, chk, rule)
    for ci in ix.subclasses(BASE_WRITER):
        for m in ci.methods.values():
            for node in A.body_nodes(m.node):
                tgts = []
                if isinstance(node, ast.Assign):
                    tgts = node.targets
                elif isinstance(node, ast.AugAssign) or (isinstance(node, ast.AnnAssign) and node.value is not None):
                    tgts = [node.target]
                for t in tgts:
                    for e in (t.elts if isinstance(t, (ast.Tuple, ast.List)) else [t]):
                        root = e
                        chain = []
                        while isinstance(root, (ast.Attribute, ast.Subscript)):
                            if isinstance(root, ast.Attribute):
                                chain.append(root.attr)
                            root = root.value
                        if not (isinstance(root, ast.Name) and root.id == "self" and chain):
                            continue
                        first = chain[-1]
                        n += 1
                        ok = m.node.name == "__init__" or first == "context"
                        chk.ob(rule, f"{m.short}|{A.keytext(m.node, node)}", ok, where(m, node), detail=f"self.{first} {'set in __init__' if m.node.name == '__init__' else 'is the per-call context'}",
                               message=f"{m.short} stores per-call data on the writer object itself (`{T(node, 60)}`): a writer instance reused for another font "
                                       f"(featureWriters=[Writer()]) starts from the previous font's state")
                if isinstance(node, ast.Call) and isinstance(node.func, ast.Attribute) and node.func.attr in MUT:
                    root = node.func.value
                    chain = []
                    while isinstance(root, (ast.Attribute, ast.Subscript)):
                        if isinstance(root, ast.Attribute):
                            chain.append(root.attr)
                        root = root.value
                    if isinstance(root, ast.Name) and root.id == "self" and chain and chain[-1] != "context" and m.node.name != "__init__":
                        n += 1
                        chk.ob(rule, f"{m.short}|{A.keytext(m.node, node)}", False, where(m, node),
                               message=f"{m.short} mutates `{T(node.func.value)}` on the writer object (not the per-call context): state leaks into the next compile that reuses the writer")
        # the context is a fresh namespace on every call
    sc = ix.get_method(BASE_WRITER, "setContext", own=True)
    st = [(s_, v) for s_, t, v in attr_stores(sc, "context") if T(t.value) == "self"]
    ok = len(st) == 1 and isinstance(st[0][1], ast.Call) and A.callee_name(st[0][1]) == "SimpleNamespace"
    chk.ob(rule, f"{sc.short}|self.context = SimpleNamespace(...) on every call", ok, where(sc), detail="fresh per-call context",
           message="BaseFeatureWriter.setContext no longer builds a fresh context namespace per call")
    for ci in ix.subclasses(BASE_WRITER, strict=True):
        m = ci.methods.get("setContext")
        if m is None:
            continue
        sup = [c for c in A.body_nodes(m.node) if isinstance(c, ast.Call) and isinstance(c.func, ast.Attribute) and c.func.attr == "setContext" and "super()" in T(c.func.value)]
        chk.ob(rule, f"{m.short}|chains to super().setContext", len(sup) == 1, where(m), detail="context created by the base class",
               message=f"{m.short} does not obtain its context from BaseFeatureWriter.setContext")
    chk.minimum(rule, 10)



# ----------------------------------------------------------------------------- R08.10
PROTOCOL_PAIRS = {"getBounds": "bounds", "getControlBounds": "controlPointBounds"}  # ufoLib2 method -> defcon attribute of the same quantity


def r0810(prog, chk):
    """A UFO opened with defcon and the same UFO opened with ufoLib2 compile to the same font: where the package asks the two
    libraries for a measurement through a try / except AttributeError fallback, both branches ask for the SAME quantity
    (exact bounds with exact bounds, control-point bounds with control-point bounds)."""
    ix = prog.ix
    n = 0
    for fi in ix.functions.values():
        if isinstance(fi.node, ast.Lambda):
            continue
        for tr in [t for t in A.body_nodes(fi.node) if isinstance(t, ast.Try)]:
            hs = [h for h in tr.handlers if h.type is not None and "AttributeError" in T(h.type)]
            if not hs:
                continue
            meths = {c.func.attr for st in tr.body for c in ast.walk(st) if isinstance(c, ast.Call) and isinstance(c.func, ast.Attribute) and c.func.attr in PROTOCOL_PAIRS}
            attrs = {a.attr for h in hs for st in h.body for a in ast.walk(st) if isinstance(a, ast.Attribute) and a.attr in PROTOCOL_PAIRS.values() and not isinstance(ix.parent(a), ast.Call)}
            if not meths and not attrs:
                continue
            n += 1
            ok = bool(meths) and bool(attrs) and {PROTOCOL_PAIRS[m_] for m_ in meths} == attrs
            chk.ob("R08.10", f"{fi.short}|{A.keytext(fi.node, tr)[:60]}|both UFO libraries are asked for the same measurement", ok, where(fi, tr), detail=f"ufoLib2: {sorted(meths)}; defcon: {sorted(attrs)}",
                   message=f"{fi.short}: the ufoLib2 branch measures {sorted(meths)} and the defcon fallback {sorted(attrs)}: the same UFO gives different output depending on the library it was opened with")
    need(n >= 1, "no library-protocol fallback for bounds found")
    # the same holds for hasattr-dispatched fallbacks and pens: one function measures one quantity
    EXACT = {"bounds", "getBounds", "BoundsPen"}
    CONTROL = {"controlPointBounds", "getControlBounds", "ControlBoundsPen"}
    m_ = 0
    for fi in ix.functions.values():
        if isinstance(fi.node, ast.Lambda) or fi.parent is not None:
            continue
        asked = {}
        for x in A.body_nodes(fi.node):
            nm = None
            if isinstance(x, ast.Attribute) and isinstance(x.ctx, ast.Load) and x.attr in EXACT | CONTROL and not (isinstance(x.value, ast.Name) and x.value.id == "pen" and x.attr == "bounds") \
                    and not (x.attr == "bounds" and isinstance(x.value, ast.Name) and any(isinstance(d.value, ast.Call) and A.callee_name(d.value) in ("BoundsPen", "ControlBoundsPen")
                                                                                       for d in prog.reaching(fi, x.value.id, x.value))):
                nm = x.attr
            elif isinstance(x, ast.Call) and A.callee_name(x) in ("BoundsPen", "ControlBoundsPen"):
                nm = A.callee_name(x)
            if nm:
                asked.setdefault("exact" if nm in EXACT else "control", []).append((x, nm))
        if not asked:
            continue
        m_ += 1
        mixed = len(asked) == 2
        chk.ob("R08.10", f"{fi.short}|one kind of bounds per measuring function", not mixed, where(fi, asked.get("control", asked.get("exact"))[0][0]),
               detail="; ".join(f"{k}: {sorted({n_ for _, n_ in v})}" for k, v in sorted(asked.items())),
               message=f"{fi.short} mixes exact bounds ({sorted({n_ for _, n_ in asked.get('exact', [])})}) and control-point bounds ({sorted({n_ for _, n_ in asked.get('control', [])})}): "
                       f"which one is used depends on the UFO library the glyph object comes from, so the same UFO compiles differently under defcon and ufoLib2")
    need(m_ >= 3, f"R08.10: measuring functions found: {m_}")
    chk.minimum("R08.10", 4)


# ----------------------------------------------------------------------------- R08.12 (= R07.10)
def check_glyph_copy_complete(prog, chk, rule):
    ix = prog.ix
    cg = ix.get_func("ufo2ft.util:_copyGlyph")
    src = cg.params()[0]
    rets = {T(r.value) for r in A.returns_of(cg.node) if r.value is not None}
    need(len(rets) == 1, f"cannot interpret {cg.short}")
    cp = rets.pop()

    def whole(v, attr):
        """v is the source field, or a complete copy of it"""
        f_ = f"{src}.{attr}"
        if T(v) == f_:
            return True
        if isinstance(v, ast.Call) and len(v.args) == 1 and not v.keywords and A.callee_name(v) in ("list", "dict", "set", "tuple", "deepcopy", "copy") and T(v.args[0]) == f_:
            return True
        if isinstance(v, ast.Call) and isinstance(v.func, ast.Attribute) and v.func.attr == "copy" and T(v.func.value) == f_ and not v.args:
            return True
        if isinstance(v, (ast.ListComp, ast.GeneratorExp)) and len(v.generators) == 1 and not v.generators[0].ifs and T(v.generators[0].iter) == f_ and isinstance(v.generators[0].target, ast.Name):
            x = v.generators[0].target.id
            e = v.elt
            if T(e) == x:
                return True
            if isinstance(e, ast.Call) and len(e.args) == 1 and not e.keywords and A.callee_name(e) in ("dict", "list", "deepcopy", "copy") and T(e.args[0]) == x:
                return True
            if isinstance(e, ast.Call) and isinstance(e.func, ast.Attribute) and e.func.attr == "copy" and T(e.func.value) == x and not e.args:
                return True
        return False
    n = 0
    for st in A.stmts_of(cg.node):
        if isinstance(st, ast.Assign) and len(st.targets) == 1 and isinstance(st.targets[0], ast.Attribute) and T(st.targets[0].value) == cp \
                and any(isinstance(x, ast.Name) and x.id == src for x in ast.walk(st.value)):
            attr = st.targets[0].attr
            n += 1
            ok = whole(st.value, attr)
            chk.ob(rule, f"{cg.short}|copy.{attr} is the whole source field", ok, where(cg, st), detail=T(st.value, 70),
                   message=f"{cg.short}: the copy's `{attr}` is re-assembled from parts of the source's (`{T(st.value, 60)}`) instead of copied whole: whatever the expression does not name "
                           f"(e.g. anchor identifiers, which link contextual anchors to their lib entries) is lost on the working copy, so inplace=False and inplace=True compile differently")
    need(n >= 4, f"cannot interpret {cg.short}: field copies ({n})")
    chk.minimum(rule, 4)


MUTANTS = [
    M("anchors of the working copy rebuilt from name / x / y only: identifiers lost (seeded C08m)", "ufo2ft/util.py", "_copyGlyph",
      "copy.anchors = [dict(a) for a in glyph.anchors]", "copy.anchors = [{'name': a.name, 'x': a.x, 'y': a.y} for a in glyph.anchors]", rule="R08.12"),
    M("ufoLib2 components ranked by control box, defcon components by exact bounds (seeded C08l)", "ufo2ft/filters/propagateAnchors.py", "_bounds",
      "fontTools.pens.boundsPen.BoundsPen(glyphSet=glyph_set)", "fontTools.pens.boundsPen.ControlBoundsPen(glyphSet=glyph_set)", rule="R08.10"),
    M("ufoLib2 glyphs measured by control-point bounds, defcon glyphs by exact bounds (seeded C08h)", "ufo2ft/filters/dottedCircle.py", "DottedCircleFilter.check_and_add_anchors",
      "glyph.getBounds(font)", "glyph.getControlBounds(font)", rule="R08.10"),
    M("BlueScale fallback appends OtherBlues to the font's own BlueValues (seeded C08g)", "ufo2ft/fontInfoData.py", "postscriptBlueScaleFallback",
      "blues = getAttrWithFallback(info, 'postscriptBlueValues')", "blues = getAttrWithFallback(info, 'postscriptBlueValues')\nblues += getAttrWithFallback(info, 'postscriptOtherBlues')", rule="R08.9"),
    M("transformations filter caches its matrix on the instance (seeded C08e / C15c)", "ufo2ft/filters/transformations.py", "TransformationsFilter.set_context",
      "ctx.matrix = m", "if getattr(self, '_matrix', None) is None:\n    self._matrix = m\nctx.matrix = self._matrix", rule="R08.8"),
    M("kerning bucket keys built in set order (mutation scan survivor)", "ufo2ft/featureWriters/kernFeatureWriter.py", "splitKerning",
      "scripts = tuple(sorted(scripts))", "scripts = tuple(list(scripts))", rule="R08.1"),
    M("merged bucket keys built in set order", "ufo2ft/featureWriters/kernFeatureWriter.py", "mergeScripts",
      "result[tuple(sorted(scripts2))].extend(pairs)", "result[tuple(scripts2)].extend(pairs)", rule="R08.1"),
    M("graph colouring visits vertices by degree, ties in set order (seeded C08b)", "ufo2ft/featureWriters/markFeatureWriter.py", "colorGraph",
      "sorted(adjacency)", "sorted(adjacency, key=lambda n: len(adjacency[n]), reverse=True)", rule="R08.1"),
    M("spacing marks memoised on the writer (seeded C08a)", "ufo2ft/featureWriters/kernFeatureWriter.py", "KernFeatureWriter._filterSpacingMarks",
      "<decorate>", "functools.cached_property", rule="R08.7"),
    M("glyph scripts cached on the writer", "ufo2ft/featureWriters/kernFeatureWriter.py", "KernFeatureWriter._makeKerningLookups",
      "marks = self.context.gdefClasses.mark", "marks = self.context.gdefClasses.mark\nself._marks = marks", rule="R08.7"),
    M("feature list grows on the writer", "ufo2ft/featureWriters/baseFeatureWriter.py", "BaseFeatureWriter.shouldContinue",
      "return True", "self.features.discard('none')\nreturn True", rule="R08.7"),
    M("colorGraph iterates the adjacency dict unsorted", "ufo2ft/featureWriters/markFeatureWriter.py", "colorGraph",
      "sorted(adjacency)", "adjacency", rule="R08.1"),
    M("cursive anchor pairs returned in set order", "ufo2ft/featureWriters/cursFeatureWriter.py", "CursFeatureWriter._getCursiveAnchorPairs",
      "return sorted(anchorPairs)", "return anchorPairs", rule="R08.1"),
    M("propagated anchors appended in dict order", "ufo2ft/filters/propagateAnchors.py", "_propagate_glyph_anchors",
      "sorted(to_add.items())", "to_add.items()", rule="R08.1"),
    M("kerning buckets no longer sorted", "ufo2ft/featureWriters/kernFeatureWriter.py", "splitKerning",
      "pairs.sort()", "pass", rule="R08.1"),
    M("kern lookups emitted in dict order", "ufo2ft/featureWriters/kernFeatureWriter.py", "KernFeatureWriter._write",
      "sorted(lookups.items())", "lookups.items()", rule="R08.1"),
    M("kern v2 lookups emitted in dict order", "ufo2ft/featureWriters/kernFeatureWriter2.py", "KernFeatureWriter._write",
      "sorted(lookups.items(), key=lambda x: x[0].value)", "lookups.items()", rule="R08.1"),
    M("kern v2 scripts referenced in set order", "ufo2ft/featureWriters/kernFeatureWriter2.py", "register_lookups",
      "sorted(scriptsToReference)", "scriptsToReference", rule="R08.1"),
    M("scripts registered in set order", "ufo2ft/featureWriters/kernFeatureWriter.py", "KernFeatureWriter._registerLookups",
      "sorted(scriptsToReference - DFLT_SCRIPTS)", "scriptsToReference - DFLT_SCRIPTS", rule="R08.1"),
    M("new set iteration builds a list for the feature file", "ufo2ft/featureWriters/markFeatureWriter.py", "MarkFeatureWriter._getAnchorPairs",
      "return anchorPairs", "self.context.markAnchorOrder = [n for n in markAnchorNames]\nreturn anchorPairs", rule="R08.1"),
    M("membership dict starts to be iterated", "ufo2ft/featureWriters/kernFeatureWriter.py", "addClassDefinition",
      "originalGroupName = originalMembership[firstGlyph]", "originalGroupName = next((v for k, v in originalMembership.items() if k == firstGlyph))", rule="R08.1"),
    M("font revision stamped with the build time", "ufo2ft/outlineCompiler.py", "BaseOutlineCompiler.setupTable_post",
      "post.minMemType42 = 0", "import time\npost.minMemType42 = int(time.time()) & 0", rule="R08.2"),
    M("feature compiler honours an environment switch", "ufo2ft/featureCompiler.py", "FeatureCompiler.setupFeatures",
      "path = self.ufo.path", "path = self.ufo.path if not os.environ.get('UFO2FT_NO_PATH') else None", rule="R08.2"),
    M("post-processor class not restored after compiling masters", "ufo2ft/_compilers/baseCompiler.py", "BaseInterpolatableCompiler._compileNeededSources",
      "self.postProcessorClass = save_postprocessor", "pass", rule="R08.3"),
    M("production-names flag restored from the wrong variable", "ufo2ft/_compilers/baseCompiler.py", "BaseInterpolatableCompiler._compileNeededSources",
      "self.useProductionNames = save_production_names", "self.useProductionNames = save_skip_features", rule="R08.3"),
    M("feature compiler class re-detected on every call", "ufo2ft/_compilers/baseCompiler.py", "BaseCompiler.compileFeatures",
      "if self.featureCompilerClass is None:\n    if any((fn.startswith(MTI_FEATURES_PREFIX) and fn.endswith('.mti') for fn in ufo.data.fileNames)):\n        self.featureCompilerClass = MtiFeatureCompiler\n    else:\n        self.featureCompilerClass = FeatureCompiler",
      "if any((fn.startswith(MTI_FEATURES_PREFIX) and fn.endswith('.mti') for fn in ufo.data.fileNames)):\n    self.featureCompilerClass = MtiFeatureCompiler\nelse:\n    self.featureCompilerClass = FeatureCompiler",
      rule="R08.3"),
    M("script set aliased and extended in place", "ufo2ft/featureWriters/kernFeatureWriter.py", "partitionByScript",
      "scripts = side1Scripts | side2Scripts", "scripts = COMMON_SCRIPTS_SET\nscripts |= side1Scripts | side2Scripts", rule="R08.4"),
    M("default feature writers list extended at run time", "ufo2ft/featureCompiler.py", "FeatureCompiler._load_custom_feature_writers",
      "result.extend(self.defaultFeatureWriters)", "self.defaultFeatureWriters.append(GdefFeatureWriter)\nresult.extend(self.defaultFeatureWriters)", rule="R08.4"),
    M("module-level compiler instance reused", "ufo2ft/__init__.py", "compileTTF",
      "return TTFCompiler(**kwargs).compile(ufo)", "return _shared.compile(ufo)", rule="R08.4"),
    M("abvm anchor names extended in place", "ufo2ft/featureWriters/markFeatureWriter.py", "MarkFeatureWriter._isAboveMark",
      "if anchor.name in self.abvmAnchorNames:\n    return True", "if anchor.name.startswith('top'):\n    self.abvmAnchorNames.add(anchor.name)\nif anchor.name in self.abvmAnchorNames:\n    return True", rule="R08.4"),
    M("glyph copy uses ufoLib2-only attribute", "ufo2ft/util.py", "_copyGlyph",
      "copy.height = glyph.height", "copy.height = glyph.height\ncopy.verticalOrigin = glyph.verticalOrigin", rule="R08.6"),
    # equivalents
    M("sorted with explicit list()", "ufo2ft/featureWriters/cursFeatureWriter.py", "CursFeatureWriter._getCursiveAnchorPairs",
      "return sorted(anchorPairs)", "result = sorted(anchorPairs)\nreturn result", kind="equiv"),
    M("restore block reordered", "ufo2ft/_compilers/baseCompiler.py", "BaseInterpolatableCompiler._compileNeededSources",
      "self.postProcessorClass = save_postprocessor\nself.useProductionNames = save_production_names", "self.useProductionNames = save_production_names\nself.postProcessorClass = save_postprocessor", kind="equiv"),
]
