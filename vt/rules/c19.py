"""C19 - instances equal masters at master locations and the model's blend elsewhere (structural clauses)."""

from __future__ import annotations

import ast
from typing import Dict, List, Optional, Set, Tuple

from ..core import astutil as A
from ..core.index import AnalysisError, FuncInfo
from ..selftest import M
from .common import atoms_of, ext_name, may_conds, conjuncts, is_early_exit_guard, T, attr_stores, calls_named, conds, every_origin, facts, need, subscript_stores, where

INS = "ufo2ft.instantiator"
I = f"{INS}.Instantiator"
V = f"{INS}.Variator"


def run(prog, chk):
    chk.decided += [
        "Variator.instance_at returns a deep copy of the master whose location key equals the requested one, otherwise model.interpolateFromMasters(location, masters); masters, locations and the key table are built pairwise in one loop (R19.1)",
        "nothing reachable from the instantiator's copies of the default source (lib, info, groups, unicodes, skip list) is stored into the instance without a fresh copy (R19.2)",
        "swap_glyph_names: outlines, widths and anchors go through a temporary; component, kerning-side and group-member remaps have both directions; unicodes are never assigned; identical names are not swapped (R19.3)",
        "the instance gets exactly the default source's glyph names, one new glyph each (R19.4)",
        "swap_glyph_names is only applied to the freshly created instance font (R19.5)",
        "master collection: info / kerning skip non-default sparse layers only, kerning groups come from the default source; the default layer must contain every glyph; empty masters are only dropped when the default is not empty (R19.6)",
        "rounding: otRound is installed as fontMath's integer rounding; .round() only under round_geometry, for kerning, info and glyphs (R19.7)",
        "the instance location is the default location overridden by the instance's, normalised once and used for kerning, info and every glyph (R19.8)",
    ]
    chk.decided += ["designspace rules are applied exactly where the designspace library says they fire: process_rules_swaps asks designspaceLib.evaluateRule(rule, location) for every rule, in rule "
                    "order, and records every substitution whose glyph exists - no home-made condition test (a bound of 0 is a bound) (R19.9)"]
    chk.not_decided += ["interpolation arithmetic (fontTools.varLib / fontMath)", "rounded values"]
    chk.guard(r191, prog, chk)
    chk.guard(r192, prog, chk)
    chk.guard(r193, prog, chk)
    chk.guard(r194, prog, chk)
    chk.guard(r196, prog, chk)
    chk.guard(r197, prog, chk)
    chk.guard(r198, prog, chk)
    chk.guard(r199, prog, chk)


# ----------------------------------------------------------------------------- R19.1
def r191(prog, chk):
    ix = prog.ix
    ia = ix.get_method(V, "instance_at", own=True)
    loc = ia.params()[1]
    rets = A.returns_of(ia.node)
    need(len(rets) == 2, f"cannot interpret {ia.short}")
    hit = [r for r in rets if any(o == "in" and r_ == "self.location_to_master" for o, l, r_ in facts(prog, ia, r))]
    miss = [r for r in rets if r not in hit]
    ok = len(hit) == 1 and isinstance(hit[0].value, ast.Call) and T(hit[0].value.func) == "copy.deepcopy"
    key = None
    if ok:
        sub = hit[0].value.args[0]
        ok = isinstance(sub, ast.Subscript) and T(sub.value) == "self.location_to_master"
        key = sub.slice
        fs = [l for o, l, r_ in facts(prog, ia, hit[0]) if o == "in" and r_ == "self.location_to_master"]
        ok = ok and T(key) in fs
        ds = prog.reaching(ia, key.id, key) if isinstance(key, ast.Name) else []
        ok = ok and len(ds) == 1 and T(ds[0].value) == f"location_to_key({loc})"
    chk.ob("R19.1", f"{ia.short}|at a master location: deep copy of that master", ok, where(ia, hit[0]) if hit else where(ia), detail=T(hit[0].value) if hit else "",
           message=f"{ia.short}: an instance at a master's location is not a (deep) copy of the master stored under that location's key (the cached master itself would be handed out, or another master)")
    ok = len(miss) == 1 and isinstance(miss[0].value, ast.Call) and T(miss[0].value.func) == "self.model.interpolateFromMasters" and [T(a) for a in miss[0].value.args] == [loc, "self.masters"]
    chk.ob("R19.1", f"{ia.short}|elsewhere: model.interpolateFromMasters(location, masters)", ok, where(ia, miss[0]) if miss else where(ia), detail=T(miss[0].value) if miss else "",
           message=f"{ia.short}: away from master locations the result is not the variation model's interpolation of all masters at the requested location")
    fm = ix.get_method(V, "from_masters", own=True)
    loops = [n for n in A.body_nodes(fm.node) if isinstance(n, ast.For)]
    need(len(loops) == 1, f"cannot interpret {fm.short}")
    lp = loops[0]
    lv = A.target_names(lp.target)
    apps = {T(c.func.value): T(c.args[0]) for c in A.calls_in(lp) if isinstance(c.func, ast.Attribute) and c.func.attr == "append"}
    st = [(s, t, v) for s, t, v in subscript_stores(fm)]
    ok = T(lp.iter) == fm.params()[1] and len(lv) == 2 and sorted(apps.values()) == sorted(lv) and len(st) == 1 and T(st[0][1].slice) == f"location_to_key({lv[0]})" and T(st[0][2]) == lv[1] \
        and not [x for x in ast.walk(lp) if isinstance(x, (ast.If, ast.Continue, ast.Break))]
    chk.ob("R19.1", f"{fm.short}|locations, masters and the key table are filled pairwise from the same items", ok, where(fm, lp), detail=f"{apps}; {T(st[0][0]) if st else ''}",
           message=f"{fm.short}: master i is no longer paired with location i (in the model input or in the location-key table)")
    vm = [c for c in A.body_nodes(fm.node) if isinstance(c, ast.Call) and T(c.func).endswith("VariationModel")]
    ret = A.returns_of(fm.node)
    locs_name = [k for k, v in apps.items() if v == lv[0]]
    masters_name = [k for k, v in apps.items() if v == lv[1]]
    ok = len(vm) == 1 and locs_name and T(vm[0].args[0]) == locs_name[0] and T(vm[0].args[1]) == fm.params()[2] and len(ret) == 1 and isinstance(ret[0].value, ast.Call) \
        and [T(a) for a in ret[0].value.args][:2] == [masters_name[0] if masters_name else "?", T(st[0][1].value) if st else "?"]
    chk.ob("R19.1", f"{fm.short}|model built from those locations; Variator(masters, key table, model)", ok, where(fm), detail=T(vm[0]) if vm else "",
           message=f"{fm.short}: the variation model / Variator fields are not built from the collected locations and masters in field order")
    lk = ix.get_func(f"{INS}:location_to_key")
    r = A.returns_of(lk.node)
    ok = len(r) == 1 and T(r[0].value) == f"tuple(sorted({lk.params()[0]}.items()))"
    chk.ob("R19.1", f"{lk.short}|order-independent key", ok, where(lk), detail=T(r[0].value) if r else "", message="location_to_key is not the sorted item tuple (equal locations would get different keys)")
    chk.minimum("R19.1", 5)


# ----------------------------------------------------------------------------- R19.2
SCALAR_SOURCES = {"self.copy_feature_text": "str (annotated)", "self.copy_info.styleName": "str"}


def _fresh(e: ast.AST) -> bool:
    if isinstance(e, (ast.ListComp, ast.DictComp, ast.SetComp, ast.Constant, ast.JoinedStr)):
        return True
    if isinstance(e, ast.Call):
        f = T(e.func)
        if f in ("copy.deepcopy", "deepcopy", "list", "dict", "set", "tuple", "sorted", "typing.cast"):
            if f == "typing.cast":
                return _fresh(e.args[1])
            return True
    return False


def r192(prog, chk):
    ix = prog.ix
    n = 0
    for mname in ("generate_instance", "_generate_instance_info", "generate_glyph_instance"):
        m = ix.get_method(I, mname, own=True)
        # role-based: objects the method fills = its parameters + locals bound to a new Font() / newGlyph()
        roots = {p_ for p_ in m.params() if p_ != "self"}
        for s_ in A.stmts_of(m.node):
            if isinstance(s_, ast.Assign) and isinstance(s_.targets[0], ast.Name) and isinstance(s_.value, ast.Call) and (T(s_.value.func).endswith(".Font") or A.callee_name(s_.value) in ("newGlyph", "new_glyph")):
                roots.add(s_.targets[0].id)
        for s in A.stmts_of(m.node):
            tgts = []
            if isinstance(s, ast.Assign):
                tgts = [(t, s.value) for t in s.targets]
            elif isinstance(s, ast.Expr) and isinstance(s.value, ast.Call) and A.callee_name(s.value) == "setattr" and len(s.value.args) == 3:
                tgts = [(s.value.args[0], s.value.args[2])]
            for t, v in tgts:
                root = A.root_name(t)
                if root not in roots or isinstance(t, ast.Name):
                    continue
                def from_self(e, depth=0):
                    """the value reads the instantiator's own data, directly or as (a copy of) a field of a local that names it"""
                    if "self." in T(e, 400):
                        return True
                    if depth > 3:
                        return False
                    core = e
                    if isinstance(core, ast.Call) and len(core.args) == 1 and not core.keywords and isinstance(core.func, ast.Name):
                        core = core.args[0]  # list(x.unicodes), dict(x.lib)
                    if not isinstance(core, (ast.Name, ast.Attribute, ast.Subscript)):
                        return False
                    rn = core
                    while isinstance(rn, (ast.Attribute, ast.Subscript)):
                        rn = rn.value
                    if isinstance(rn, ast.Name) and rn.id not in roots:
                        for d in prog.reaching(m, rn.id, rn):
                            if d.kind == "assign" and d.value is not None and d.element()[1] is None and from_self(d.value, depth + 1):
                                return True
                    return False
                if not from_self(v):
                    continue
                n += 1
                txt = T(v, 200)
                ok = _fresh(v) or txt in SCALAR_SOURCES
                if txt in SCALAR_SOURCES:
                    chk.exempt("R19.2", f"{m.short}|{A.keytext(m.node, s)[:70]}", SCALAR_SOURCES[txt])
                chk.ob("R19.2", f"{m.short}|{A.keytext(m.node, s)[:70]}", ok, where(m, s), detail="fresh copy" if _fresh(v) else SCALAR_SOURCES.get(txt, ""),
                       message=f"{m.short}: `{T(s, 70)}` stores an object of the instantiator's default-source data in the instance without copying it: "
                               f"instances share (and can change) the source's data, and each other's")
    need(n >= 6, f"expected >= 6 stores of default-source data into the instance, found {n}")
    # the copy_info annotation: copy_feature_text is a str
    fd = ix.get_method(I, "from_designspace", own=True)
    ci = ix.get_class(I)
    fields = [n.target.id for n in ci.node.body if isinstance(n, ast.AnnAssign) and isinstance(n.target, ast.Name)]
    ctor = [r.value for r in A.returns_of(fd.node) if isinstance(r.value, ast.Call) and T(r.value.func) == "cls"]
    ok = len(ctor) == 1 and "copy_feature_text" in fields and fields.index("copy_feature_text") < len(ctor[0].args)
    detail = ""
    if ok:
        a = ctor[0].args[fields.index("copy_feature_text")]
        ds = prog.reaching(fd, a.id, a) if isinstance(a, ast.Name) else []
        ok = len(ds) == 1 and getattr(ds[0].binder, "ann", None) is not None and T(ds[0].binder.ann) == "str" and "features.text" in T(ds[0].binder.value)
        detail = T(ds[0].binder, 80) if ds else ""
    chk.ob("R19.2", f"{fd.short}|copy_feature_text is the default source's feature text (str)", ok, where(fd), detail=detail, nontrivial=False,
           message="copy_feature_text is no longer a plain string")
    chk.minimum("R19.2", 7)


# ----------------------------------------------------------------------------- R19.3
def _writes_in(loop: ast.For):
    for n in ast.walk(loop):
        if isinstance(n, (ast.Assign, ast.AugAssign)):
            yield n
        elif isinstance(n, ast.Expr) and isinstance(n.value, ast.Call) and A.callee_name(n.value) in ("append", "add", "insert", "extend"):
            yield n


def _both_directions(prog, f: FuncInfo, loop: ast.For, subject_pred, old: str, new: str) -> Tuple[bool, str]:
    """Inside loop: some write that holds under `X == old` uses `new`, and some write that holds under
    `X == new` uses `old` (X satisfying subject_pred); decided from the branch facts, not the if/elif layout."""
    fwd = bwd = False
    for w in _writes_in(loop):
        fs = facts(prog, f, w)
        names = {x.id for x in ast.walk(w.value if not isinstance(w, ast.Expr) else w.value) if isinstance(x, ast.Name)}
        for o, l, r in fs:
            if o != "eq":
                continue
            for subj, const in ((l, r), (r, l)):
                if not subject_pred(subj):
                    continue
                if const == old and new in names:
                    fwd = True
                if const == new and old in names:
                    bwd = True
    if fwd and bwd:
        return True, "two-way remap"
    return False, ("no write under `== old` uses the new name" if not fwd else "no write under `== new` puts the old name back")


def has_ne(fs, a: str, b: str) -> bool:
    return any(o == "ne" and {l, r} == {a, b} for o, l, r in fs)


def r193(prog, chk):
    ix = prog.ix
    f = ix.get_func(f"{INS}:swap_glyph_names")
    font, old, new = f.params()[:3]
    # unicodes never assigned
    bad = [s for s in A.body_nodes(f.node) if isinstance(s, (ast.Assign, ast.AugAssign)) and any("unicode" in T(t) for t in (s.targets if isinstance(s, ast.Assign) else [s.target]))]
    chk.ob("R19.3", f"{f.short}|code points are never assigned", not bad, where(f), detail="no store to .unicode / .unicodes", message=f"{f.short} swaps code points: rules are meant to swap glyphs, not characters")
    # outlines via a temporary: three draw events  old->tmp, new->old, tmp->new, each into a cleared glyph
    g = {}
    for s in A.stmts_of(f.node):
        if isinstance(s, ast.Assign) and isinstance(s.value, ast.Subscript) and T(s.value.value) == font:
            g[T(s.value.slice)] = s.targets[0].id
    need(old in g and new in g, f"cannot interpret {f.short}: glyph_old / glyph_new")
    go, gn = g[old], g[new]
    tmp = [s.targets[0].id for s in A.stmts_of(f.node) if isinstance(s, ast.Assign) and isinstance(s.value, ast.Call) and "_getNewGlyphFactory" in T(s.value)]
    need(len(tmp) == 1, f"cannot interpret {f.short}: temporary glyph")
    gt = tmp[0]
    seq = []
    pen_of = None
    for s in f.node.body:
        if isinstance(s, ast.Assign) and isinstance(s.value, ast.Call) and isinstance(s.value.func, ast.Attribute) and s.value.func.attr == "getPointPen":
            pen_of = T(s.value.func.value)
        elif isinstance(s, ast.Expr) and isinstance(s.value, ast.Call) and isinstance(s.value.func, ast.Attribute) and s.value.func.attr == "drawPoints":
            seq.append(("draw", T(s.value.func.value), pen_of))
        elif isinstance(s, ast.Expr) and isinstance(s.value, ast.Call) and isinstance(s.value.func, ast.Attribute) and s.value.func.attr in ("clearContours", "clearComponents"):
            seq.append((s.value.func.attr, T(s.value.func.value), None))
        elif isinstance(s, ast.Assign) and isinstance(s.targets[0], ast.Attribute) and s.targets[0].attr == "width":
            seq.append(("width", T(s.value).rsplit(".", 1)[0], T(s.targets[0].value)))
    draws = [x for x in seq if x[0] == "draw"]
    widths = [x for x in seq if x[0] == "width"]
    ok = [(a, b) for _, a, b in draws] == [(go, gt), (gn, go), (gt, gn)] and [(a, b) for _, a, b in widths] == [(go, gt), (gn, go), (gt, gn)]
    # each destination cleared (contours and components) before it is drawn into, after it was saved
    for dst in (go, gn):
        i_draw_into = [i for i, x in enumerate(seq) if x[0] == "draw" and x[2] == dst]
        i_clear = [i for i, x in enumerate(seq) if x[0] in ("clearContours", "clearComponents") and x[1] == dst]
        i_saved = [i for i, x in enumerate(seq) if x[0] == "draw" and x[1] == dst]
        ok = ok and len(i_clear) == 2 and i_draw_into and i_saved and max(i_clear) < i_draw_into[0] and i_saved[0] < min(i_clear)
    chk.ob("R19.3", f"{f.short}|outlines and widths are exchanged through the temporary (old->tmp, new->old, tmp->new), destinations cleared in between", ok, where(f), detail=str([(a, b) for _, a, b in draws]),
           message=f"{f.short}: outlines / widths of the two glyphs are not exchanged symmetrically through the temporary glyph (swapping twice would not restore the font)")
    an = [(T(s.targets[0].value), T(s.value.generators[0].iter).rsplit(".", 1)[0]) for s in f.node.body if isinstance(s, ast.Assign) and isinstance(s.targets[0], ast.Attribute) and s.targets[0].attr == "anchors" and isinstance(s.value, ast.ListComp)]
    ok = an == [(gt, go), (go, gn), (gn, gt)]
    chk.ob("R19.3", f"{f.short}|anchors are exchanged through the temporary, as copies", ok, where(f), detail=str(an), message=f"{f.short}: anchors are not exchanged symmetrically through the temporary")
    # the kerning dictionary is replaced as a whole: whatever writes it is dominated by a clear() of it
    cfg = prog.cfg(f)
    kcalls = [c for c in A.body_nodes(f.node) if isinstance(c, ast.Call) and isinstance(c.func, ast.Attribute) and T(c.func.value) == f"{font}.kerning"]
    clears = [c for c in kcalls if c.func.attr == "clear"]
    kwrites = [c for c in kcalls if c.func.attr in ("update", "__setitem__", "setdefault")]
    kwrites += [s_ for s_, t_, v_ in subscript_stores(f) if T(t_.value) == f"{font}.kerning"]
    kwrites += [s_ for s_, t_, v_ in attr_stores(f, "kerning") if T(t_) == f"{font}.kerning"]
    need(kwrites, f"cannot interpret {f.short}: no write to {font}.kerning")
    whole = [w for w in kwrites if isinstance(w, ast.Assign) and not isinstance(w.targets[0], ast.Subscript)]
    okw = all(w in whole or any(cfg.dominates(cfg.node_of(c), cfg.node_of(w)) for c in clears) for w in kwrites)
    chk.ob("R19.3", f"{f.short}|old kerning pairs are dropped before the remapped ones are written", okw, where(f, kwrites[0]), detail=f"{len(clears)} clear(), {len(kwrites)} write(s)",
           message=f"{f.short}: the remapped kerning is written over the existing pairs without clearing them: pairs under the old names survive the swap")
    loops = [n for n in f.node.body if isinstance(n, ast.For)]
    need(len(loops) == 3, f"cannot interpret {f.short}: expected the component, kerning and group loops")
    comp, kern, grp = loops
    ok, why = _both_directions(prog, f, comp, lambda t_: t_.endswith(".baseGlyph"), old, new)
    okc = T(comp.iter) == font and any(isinstance(n, ast.For) and T(n.iter).endswith(".components") for n in ast.walk(comp))
    chk.ob("R19.3", f"{f.short}|component references of every glyph are remapped both ways", ok and okc, where(f, comp), detail=why,
           message=f"{f.short}: component references are remapped one way only ({why}): composites of the swapped glyphs point at the wrong outline")
    kv = A.target_names(kern.target)
    ok1, why1 = _both_directions(prog, f, kern, lambda t_: t_ == kv[0], old, new)
    ok2, why2 = _both_directions(prog, f, kern, lambda t_: t_ == kv[1], old, new)
    after = [s_ for s_ in f.node.body[f.node.body.index(kern) + 1:] if not isinstance(s_, ast.Pass)][:2]
    okr = [T(s.value.func) for s in after if isinstance(s, ast.Expr) and isinstance(s.value, ast.Call)] == [f"{font}.kerning.clear", f"{font}.kerning.update"]
    st = [s for s in ast.walk(kern) if isinstance(s, ast.Assign) and isinstance(s.targets[0], ast.Subscript)]
    okv = len(st) == 1 and T(st[0].targets[0].slice) == f"({kv[0]}, {kv[1]})"
    chk.ob("R19.3", f"{f.short}|both kerning sides are remapped both ways; values kept; kerning replaced as a whole", ok1 and ok2 and okr and okv, where(f, kern), detail=f"first: {why1}; second: {why2}",
           message=f"{f.short}: kerning references are not swapped symmetrically on both sides (or old pairs are left behind)")
    gv = [n for n in ast.walk(grp) if isinstance(n, ast.For) and n is not grp]
    ok = len(gv) == 1
    if ok:
        nv = A.target_names(gv[0].target)[0]
        ok, why = _both_directions(prog, f, gv[0], lambda t_: t_ == nv, old, new)
        keep = False
        for w in _writes_in(gv[0]):
            if isinstance(w, ast.Expr) and A.callee_name(w.value) == "append" and T(w.value.args[0]) == nv:
                fs = facts(prog, f, w)
                keep = keep or (has_ne(fs, nv, old) and has_ne(fs, nv, new))
        ok = ok and keep
        st = [s for s in grp.body if isinstance(s, ast.Assign) and isinstance(s.targets[0], ast.Subscript) and T(s.targets[0].value) == f"{font}.groups"]
        ok = ok and len(st) == 1
    chk.ob("R19.3", f"{f.short}|group members are remapped both ways, other members kept in place", ok, where(f, grp), detail="append(new) / append(old) / append(name)",
           message=f"{f.short}: group membership is not swapped symmetrically (or other members are lost)")
    gi = ix.get_method(I, "generate_instance", own=True)
    c = [c for c in calls_named(gi, "swap_glyph_names")]
    ok = len(c) == 1 and any(o == "ne" for o, l, r in facts(prog, gi, c[0]))
    chk.ob("R19.3", f"{gi.short}|identical names are not swapped", ok, where(gi), detail="if name_old != name_new", nontrivial=False, message=f"{gi.short}: a glyph can be swapped with itself (its outline is cleared)")
    chk.minimum("R19.3", 8)


def _guards_raise(prog, fi, c) -> bool:
    """c is the test of an `if <test>: raise ...` input check"""
    for n in A.body_nodes(fi.node):
        if isinstance(n, ast.If) and n.test is (c.raw if c.raw is not None else c.test) and not n.orelse and n.body and isinstance(n.body[-1], ast.Raise):
            return (c.raw_polarity if c.raw is not None else c.polarity) is False
    return False


# ----------------------------------------------------------------------------- R19.4 / R19.5
def r194(prog, chk):
    ix = prog.ix
    gi = ix.get_method(I, "generate_instance", own=True)
    ng = [c for c in calls_named(gi, "newGlyph")]
    ok = len(ng) == 1
    if ok:
        lp = [a for a in ix.ancestors(ng[0]) if isinstance(a, ast.For)]
        ok = len(lp) == 1 and T(lp[0].iter) == "self.glyph_names" and T(ng[0].args[0]) == A.target_names(lp[0].target)[0] and not [c_ for c_ in may_conds(prog, gi, ng[0]) if c_.kind != 'for' and not _guards_raise(prog, gi, c_)]
    chk.ob("R19.4", f"{gi.short}|one new glyph per name of the default source, and no other", ok, where(gi), detail="for glyph_name in self.glyph_names: font.newGlyph(glyph_name)",
           message=f"{gi.short}: the instance's glyph set is not exactly the default source's")
    gn = ix.get_method(I, "glyph_names", own=True)
    ds = ix.get_method(I, "default_source_glyphs", own=True)
    ok = T(A.returns_of(gn.node)[0].value) == "self.default_source_glyphs.keys()" and T(A.returns_of(ds.node)[0].value) == "self.source_layers[self.default_source_idx][1]"
    chk.ob("R19.4", f"{gn.short}|glyph names are the default source layer's keys", ok, where(gn), detail="self.source_layers[self.default_source_idx][1].keys()", message="glyph_names no longer comes from the default source layer")
    call = [c for c in calls_named(gi, "generate_glyph_instance")]
    ok = len(call) == 1 and ng and T(A.kwarg(call[0], "output_glyph")) == T(ix.enclosing_stmt(ng[0]).targets[0]) and T(call[0].args[0]) == T(ng[0].args[0])
    chk.ob("R19.4", f"{gi.short}|each new glyph receives the instance of the glyph of its own name", ok, where(gi), detail=T(call[0], 90) if call else "", message=f"{gi.short}: a glyph receives another glyph's instance")
    gg = ix.get_method(I, "generate_glyph_instance", own=True)
    u = [(s, t, v) for s, t, v in attr_stores(gg, "unicodes")]
    ok = len(u) == 1 and isinstance(u[0][2], ast.Call) and A.callee_name(u[0][2]) in ("list", "tuple") and len(u[0][2].args) == 1 \
        and isinstance(u[0][2].args[0], ast.Attribute) and u[0][2].args[0].attr == "unicodes"
    if ok:
        okg, _ = every_origin(prog, gg, u[0][2].args[0].value, lambda x, ff: T(x) == f"self.default_source_glyphs[{gg.params()[1]}]", allow_const=False)
        ok = okg
    chk.ob("R19.4", f"{gg.short}|code points copied from the default source's glyph of the same name", ok, where(gg), detail=T(u[0][2]) if u else "", message=f"{gg.short}: unicodes are not those of the same-named default glyph")
    # what fontMath extracted into the output glyph is the instance: after extractGlyph nothing but the code points is written
    ex = [c for c in calls_named(gg, "extractGlyph")]
    need(len(ex) == 1 and ex[0].args and isinstance(ex[0].args[0], ast.Name), f"cannot interpret {gg.short}: extractGlyph")
    og = ex[0].args[0].id
    cfg = prog.cfg(gg)
    after = []
    for n in A.body_nodes(gg.node):
        tgt = None
        if isinstance(n, (ast.Assign, ast.AugAssign, ast.Delete)):
            for t in (n.targets if isinstance(n, (ast.Assign, ast.Delete)) else [n.target]):
                for el in (t.elts if isinstance(t, (ast.Tuple, ast.List)) else [t]):
                    base = el
                    while isinstance(base, (ast.Attribute, ast.Subscript)):
                        base = base.value
                    if isinstance(el, (ast.Attribute, ast.Subscript)) and isinstance(base, ast.Name) and base.id == og:
                        tgt = el
        elif isinstance(n, ast.Call) and isinstance(n.func, ast.Attribute) and n is not ex[0]:
            base = n.func.value
            while isinstance(base, (ast.Attribute, ast.Subscript)):
                base = base.value
            if isinstance(base, ast.Name) and base.id == og and n.func.attr in ("clear", "clearAnchors", "clearContours", "clearComponents", "removeAnchor", "appendAnchor", "removeComponent",
                                                                                 "removeContour", "append", "extend", "remove", "pop", "insert", "move", "scale", "transform", "round"):
                tgt = n
        if tgt is None:
            continue
        if isinstance(tgt, ast.Attribute) and tgt.attr == "unicodes":
            continue
        after.append(n)
    chk.ob("R19.4", f"{gg.short}|the output glyph is what fontMath extracted plus the default glyph's code points, nothing else is written", not after, where(gg, after[0]) if after else where(gg, ex[0]),
           detail=f"extractGlyph({og}, onlyGeometry=True); {og}.unicodes = ...",
           message=f"{gg.short}: the instance glyph is edited after the interpolated data was extracted into it (`{T(after[0], 70) if after else ''}`): an instance on a master "
                   f"no longer reproduces that master (anchors / outline / advance dropped or changed)")
    # R19.5: the font handed to swap_glyph_names is the fresh instance font
    c = [c for c in calls_named(gi, "swap_glyph_names")]
    ok = len(c) == 1
    if ok:
        okf, bad = every_origin(prog, gi, c[0].args[0], lambda x, f: isinstance(x, ast.Call) and T(x.func).endswith(".Font") and not x.args, allow_const=False)
        ok = okf
    others = [(f, c_) for f in ix.functions.values() for c_ in calls_named(f, "swap_glyph_names") if f is not gi]
    chk.ob("R19.5", f"{gi.short}|swap_glyph_names only ever gets the freshly created instance font", ok and not others, where(gi), detail="font = ufo_module.Font() ... swap_glyph_names(font, ...)",
           message="swap_glyph_names is applied to a font that is not the fresh instance (a source font would be rewritten)")
    sw = [s for s in A.stmts_of(gi.node) if isinstance(s, ast.Assign) and isinstance(s.value, ast.Call) and A.callee_name(s.value) == "process_rules_swaps"]
    locv = [s_.targets[0].id for s_ in A.stmts_of(gi.node) if isinstance(s_, ast.Assign) and isinstance(s_.value, ast.Dict) and None in s_.value.keys]
    ok = len(sw) == 1 and len(locv) == 1 and [T(a) for a in sw[0].value.args] == ["self.designspace_rules", locv[0], "self.glyph_names"]
    chk.ob("R19.5", f"{gi.short}|rules are evaluated at the design location (not the normalised one)", ok, where(gi), detail=T(sw[0].value) if sw else "", message=f"{gi.short}: designspace rules are evaluated at the wrong location / glyph set")
    chk.minimum("R19.4", 4)
    chk.minimum("R19.5", 2)


# ----------------------------------------------------------------------------- R19.6
def r196(prog, chk):
    ix = prog.ix
    for q in ("collect_info_masters", "collect_kerning_masters"):
        f = ix.get_func(f"{INS}:{q}")
        lp = [n for n in A.body_nodes(f.node) if isinstance(n, ast.For) and T(n.iter).endswith(".sources")]
        need(len(lp) == 1, f"cannot interpret {f.short}")
        sv = A.target_names(lp[0].target)[0]
        conts = [s for s in ast.walk(lp[0]) if isinstance(s, ast.Continue)]
        ok = len(conts) == 1
        if ok:
            par = ix.parent(conts[0])
            gs_ = [g for g in conds(prog, f, conts[0]) if isinstance(par, ast.If) and (g.raw if g.raw is not None else g.test) is par.test]
            lits = conjuncts(gs_[0]) if gs_ else None
            ok = lits is not None and {T(x) for x in lits} == {f"{sv}.layerName is not None", f"{sv} is not {f.params()[0]}.default"}
        app = [c for c in A.calls_in(lp[0]) if isinstance(c.func, ast.Attribute) and c.func.attr == "append"]
        ok = ok and len(app) == 1 and isinstance(app[0].args[0], ast.Tuple) and f"{sv}.location" in T(_def_value(prog, f, app[0].args[0].elts[0])) and f"{sv}.font." in T(app[0].args[0].elts[1])
        chk.ob("R19.6", f"{f.short}|every source except non-default sparse layers contributes (its location, its data)", ok, where(f, lp[0]), detail=f"skip: {T(ix.parent(conts[0]).test) if conts else ''}",
               message=f"{f.short}: a full master is skipped, or a master's data is paired with another source's location")
    fk = ix.get_func(f"{INS}:collect_kerning_masters")
    mk = [c for c in A.body_nodes(fk.node) if isinstance(c, ast.Call) and T(c.func).endswith("MathKerning")]
    ok = len(mk) == 1 and len(mk[0].args) == 2
    if ok:
        gds = prog.reaching(fk, mk[0].args[1].id, mk[0].args[1]) if isinstance(mk[0].args[1], ast.Name) else []
        ok = len(gds) == 1 and T(gds[0].value) == f"{fk.params()[0]}.default.font.groups" and ".font.kerning" in T(mk[0].args[0])
    chk.ob("R19.6", f"{fk.short}|each master's own kerning with the default source's groups", ok, where(fk), detail=T(mk[0]) if mk else "", message=f"{fk.short}: kerning masters do not use their own kerning with the default's groups")
    fg = ix.get_func(f"{INS}:collect_glyph_masters")
    rs = A.raises_of(fg.node)
    ok = len(rs) == 1 and any(o == "truthy" for o, l, r in facts(prog, fg, rs[0])) and any(o == "notin" for o, l, r in facts(prog, fg, rs[0]))
    conts = [s for s in A.stmts_of(fg.node) if isinstance(s, ast.Continue)]
    okc = len(conts) == 1 and any(o == "notin" for o, l, r in facts(prog, fg, conts[0])) and any(o == "falsy" for o, l, r in facts(prog, fg, conts[0]))
    chk.ob("R19.6", f"{fg.short}|a glyph missing from the default layer raises; missing from another layer skips that layer only", ok and okc, where(fg), detail="raise if this_is_default else continue",
           message=f"{fg.short}: layers lacking the glyph are not handled as 'default: error, others: skip'")
    flt = [s for s in A.stmts_of(fg.node) if isinstance(s, ast.Assign) and isinstance(s.value, ast.ListComp) and s.value.generators[0].ifs]
    ok = len(flt) == 1
    if ok:
        fs = facts(prog, fg, flt[0])
        ok = any(o == "falsy" for o, l, r in fs) and any(o == "truthy" for o, l, r in fs) and len(conds(prog, fg, flt[0])) >= 1 and "contours" in T(flt[0].value.generators[0].ifs[0]) and "components" in T(flt[0].value.generators[0].ifs[0])
    chk.ob("R19.6", f"{fg.short}|empty masters are only dropped when the default glyph is not empty and some other is", ok, where(fg), detail="if not default_glyph_empty and other_glyph_empty", message=f"{fg.short}: the empty-master filter changed")
    # which masters are collected does not depend on the order of the sources: no skip / collection inside the loop is
    # decided by a variable carried over from earlier iterations (the default source need not come first)
    for lp in [n for n in A.body_nodes(fg.node) if isinstance(n, ast.For)]:
        sites = [s for s in ast.walk(lp) if isinstance(s, ast.Continue)] + [c for c in A.calls_in(lp) if isinstance(c.func, ast.Attribute) and c.func.attr in ("append", "add", "extend")]
        carried = []
        for s_ in sites:
            for g in may_conds(prog, fg, s_):
                tnode = g.raw if g.raw is not None else g.test
                if g.kind not in ("if", "boolop", "ifexp"):
                    continue
                for nm in [n for n in ast.walk(tnode) if isinstance(n, ast.Name) and isinstance(n.ctx, ast.Load)]:
                    ds = prog.reaching(fg, nm.id, nm)
                    inside = [d for d in ds if lp.lineno < getattr(d.binder, "lineno", 0) <= lp.end_lineno]
                    outside = [d for d in ds if d not in inside and d.kind != "param"]
                    if inside and (outside or any(getattr(d.binder, "lineno", 0) > nm.lineno for d in inside)):
                        carried.append((s_, nm.id))
        chk.ob("R19.6", f"{fg.short}|no master is skipped or collected on the evidence of earlier iterations", not carried, where(fg, carried[0][0]) if carried else where(fg, lp),
               detail=f"{len(sites)} skip / collect site(s) in the loop over the sources", message=f"{fg.short}: whether a master is collected depends on `{carried[0][1] if carried else ''}`, which is carried over from "
               f"earlier iterations of the loop over the sources: the result depends on the order of the sources (a default source that is not listed first sees other masters dropped or kept differently)")
    chk.minimum("R19.6", 6)


def _def_value(prog, f, e):
    if isinstance(e, ast.Name):
        ds = prog.reaching(f, e.id, e)
        if len(ds) == 1 and ds[0].value is not None:
            return ds[0].value
    return e


_FM = {}


def _fontmath_round_in_place() -> Dict[str, bool]:
    """Which fontMath .round() methods work in place (no returned value)?  Read from fontMath's source."""
    if _FM:
        return _FM
    from ..core.index import external_class
    for kind, mod, cls in (("kerning", "fontMath.mathKerning", "MathKerning"), ("info", "fontMath.mathInfo", "MathInfo"), ("glyph", "fontMath.mathGlyph", "MathGlyph")):
        c = external_class(mod, cls)
        r = [n for n in c.body if isinstance(n, ast.FunctionDef) and n.name == "round"]
        if not r:
            raise AnalysisError(f"fontMath {cls}.round not found")
        _FM[kind] = not any(isinstance(x, ast.Return) and x.value is not None for x in ast.walk(r[0]))
    return _FM


# ----------------------------------------------------------------------------- R19.7
def r197(prog, chk):
    ix = prog.ix
    mi = ix.get_module(INS)
    calls = [n.value for n in mi.tree.body if isinstance(n, ast.Expr) and isinstance(n.value, ast.Call) and T(n.value.func) == "fontMath.mathFunctions.setRoundIntegerFunction"]
    ok = len(calls) == 1 and T(calls[0].args[0]) == "fontTools.misc.fixedTools.otRound"
    chk.ob("R19.7", "fontMath rounds integers with fontTools' otRound", ok, mi.relpath, detail=T(calls[0]) if calls else "", message="fontMath's rounding function is no longer otRound (instances round differently from the variable font)")
    n = 0
    for mname in ("generate_instance", "_generate_instance_info", "generate_glyph_instance"):
        m = ix.get_method(I, mname, own=True)
        for c in [c for c in calls_named(m, "round") if isinstance(c.func, ast.Attribute)]:
            n += 1
            ok = any(o == "truthy" and l == "self.round_geometry" for o, l, r in facts(prog, m, c))
            # ... and under nothing else: rounding is requested for every instance, also for one that sits on a master
            # (masters can have fractional coordinates); only early-exit guards of the method may stand in front
            inner = [g for g in may_conds(prog, m, c) if g.kind in ("if", "boolop", "ifexp") and not is_early_exit_guard(prog, m, g)]
            lits = [T(x) for g in inner for x in (conjuncts(g) or [g.test])]
            # conditions under which the instance being rounded exists at all do not count
            recv_ = c.func.value
            base_lits = set()
            if isinstance(recv_, ast.Name):
                for d_ in prog.reaching(m, recv_.id, recv_):
                    if d_.binder is not None and d_.value is not None and "instance_at" in T(d_.value):
                        for g in may_conds(prog, m, d_.binder):
                            if g.kind in ("if", "boolop", "ifexp") and not is_early_exit_guard(prog, m, g):
                                base_lits |= {T(x) for x in (conjuncts(g) or [g.test])}
            lits = [l_ for l_ in lits if l_ not in base_lits]
            ok = ok and lits == ["self.round_geometry"]
            st = ix.enclosing_stmt(c)
            inplace = _fontmath_round_in_place()
            kind = "kerning" if "kerning" in mname or "kerning" in T(c.func.value).lower() else ("info" if "info" in mname else "glyph")
            if inplace.get(kind):
                okr = isinstance(st, ast.Expr) or (isinstance(st, ast.Assign) and T(st.targets[0]) == T(c.func.value))
            else:
                okr = isinstance(st, ast.Assign) and T(st.targets[0]) == T(c.func.value)
            chk.ob("R19.7", f"{m.short}|{A.keytext(m.node, c)}|only under round_geometry; result kept", ok and okr, where(m, c), detail=T(st, 60),
                   message=f"{m.short}: rounding is not done exactly when round_geometry is set (conditions: {lits}), or its result is dropped")
    need(n == 3, f"expected rounding of kerning, info and glyph instances, found {n}")
    chk.minimum("R19.7", 4)


# ----------------------------------------------------------------------------- R19.8
def r198(prog, chk):
    ix = prog.ix
    gi = ix.get_method(I, "generate_instance", own=True)
    loc = [s for s in A.stmts_of(gi.node) if isinstance(s, ast.Assign) and isinstance(s.value, ast.Dict) and None in s.value.keys]
    ok = len(loc) == 1 and [T(v) for v in loc[0].value.values] == ["self.default_design_location", f"{gi.params()[1]}.location"]
    chk.ob("R19.8", f"{gi.short}|location = default location overridden by the instance's", ok, where(gi), detail=T(loc[0].value) if loc else "", message=f"{gi.short}: the instance location is not {{**default, **instance}} (the default would override the instance)")
    ln = loc[0].targets[0].id if loc else "?"
    nz = [s for s in A.stmts_of(gi.node) if isinstance(s, ast.Assign) and isinstance(s.value, ast.Call) and T(s.value.func) == "self.normalize"]
    ok = len(nz) == 1 and T(nz[0].value.args[0]) == ln
    nn = nz[0].targets[0].id if nz else "?"
    uses = [c for c in A.body_nodes(gi.node) if isinstance(c, ast.Call) and A.callee_name(c) in ("instance_at", "_generate_instance_info", "generate_glyph_instance")]
    oku = len(uses) == 3 and all(nn in [T(a) for a in c.args] for c in uses)
    chk.ob("R19.8", f"{gi.short}|normalised once; kerning, info and every glyph use that normalised location", ok and oku, where(gi), detail=f"{nn} used at {len(uses)} sites", message=f"{gi.short}: kerning / info / glyphs are not all instantiated at the same normalised location")
    # master locations (collect_*_masters) and instance locations (Instantiator.normalize) must be normalised by one and the
    # same function against the axis bounds, with nothing applied on top: the instance-on-a-master lookup compares the two
    nm = ix.get_method(I, "normalize", own=True)
    mod = nm.module
    sites = []
    for fi in [f for f in ix.functions.values() if f.module is mod]:
        for c in A.body_nodes(fi.node):
            if isinstance(c, ast.Call) and len(c.args) == 2 and not c.keywords and T(c.args[1]).split(".")[-1] == "axis_bounds":
                d = ix.resolve_expr(fi.module, c.func, prog._class_ctx(fi)) or T(c.func)
                if not d.startswith("ufo2ft."):  # the package's own collectors only pass the bounds on
                    sites.append((fi, c, d))
    need(len(sites) >= 4, f"cannot interpret {mod.name}: location normalisation sites ({len(sites)})")
    names = sorted({d for _, _, d in sites})
    chk.ob("R19.8", "master and instance locations are normalised by one function", len(names) == 1, where(nm), detail=f"{len(sites)} sites: {names}",
           message=f"locations are normalised by different functions ({names}): an instance on a master no longer finds that master")
    rets = A.returns_of(nm.node)
    mine = [c for fi, c, d in sites if fi is nm]
    ok = len(rets) == 1 and len(mine) == 1 and rets[0].value is mine[0] and T(mine[0].args[0]) == nm.params()[1] and T(mine[0].args[1]) == "self.axis_bounds"
    chk.ob("R19.8", f"{nm.short}|returns that normalisation of its argument against self.axis_bounds, nothing applied on top", ok, where(nm), detail=T(rets[0].value, 90) if rets else "",
           message=f"{nm.short} does not return the plain normalisation the master locations were stored under (`{T(rets[0].value, 70) if rets else ''}`): the keys of "
                   f"Variator.location_to_master are computed differently, so an instance on a master is interpolated instead of copied")
    for fi, c, d in sites:
        if fi is nm:
            continue
        par = ix.parent(c)
        ok = isinstance(par, ast.Assign) and par.value is c
        chk.ob("R19.8", f"{fi.short}|{A.keytext(fi.node, c)}|master location stored as normalised, nothing applied on top", ok, where(fi, c), detail=T(par, 90),
               message=f"{fi.short}: the normalised master location is post-processed (`{T(par, 70)}`) while the instance location is not")
    chk.minimum("R19.8", 7)


# ----------------------------------------------------------------------------- R19.9
def r199(prog, chk):
    ix = prog.ix
    f = ix.get_func("ufo2ft.instantiator:process_rules_swaps")
    rules_p, loc_p, names_p = f.params()[:3]
    apps = [c for c in calls_named(f, "append") if c.args and isinstance(c.args[0], ast.Tuple) and len(c.args[0].elts) == 2]
    need(len(apps) == 1, f"cannot interpret {f.short}: swap recording")
    ap = apps[0]
    loops = [a for a in ix.ancestors(ap) if isinstance(a, ast.For)]  # innermost first
    ok = len(loops) == 2 and T(loops[1].iter) == rules_p and isinstance(loops[1].target, ast.Name) and T(loops[0].iter) == f"{loops[1].target.id}.subs"
    why = "loops"
    if ok:
        rv = loops[1].target.id
        gs = [g for g in conds(prog, f, ap) if g.polarity in (True, False) and any(a is loops[1] for a in ix.ancestors(g.loc))]
        ev = [g for g in gs if isinstance(g.test, ast.Call) and ext_name(prog, f, g.test.func).endswith("designspaceLib.evaluateRule") and g.polarity is True
              and [T(a) for a in g.test.args] == [rv, loc_p] and all(d.kind == "param" for d in prog.reaching(f, loc_p, g.test.args[1]))]
        member = [g for g in gs if g not in ev]
        old, new = [T(x) for x in loops[0].target.elts] if isinstance(loops[0].target, ast.Tuple) and len(loops[0].target.elts) == 2 else ("?", "?")
        okm = len(member) == 1 and any(o == "in" and l == old for o, l, r in atoms_of(member[0].test, member[0].polarity))
        ok = len(ev) == 1 and okm and [T(x) for x in ap.args[0].elts] == [old, new] \
            and not any(isinstance(n, (ast.Break, ast.Return)) for n in ast.walk(loops[1]))
        why = "rule test" if len(ev) != 1 else "membership / recorded pair"
    chk.ob("R19.9", f"{f.short}|a rule's substitutions are recorded iff designspaceLib.evaluateRule(rule, location) holds, in rule order", ok, where(f, ap), detail="for rule in rules: if evaluateRule(rule, location): for old, new in rule.subs: if old in glyphNames: swaps.append((old, new))",
           message=f"{f.short}: whether a designspace rule fires is no longer decided by designspaceLib.evaluateRule(rule, location) alone ({why}): rules fire at locations where they "
                   f"must not (or do not fire where they must) and the instance carries the partner glyph's outline")
    chk.minimum("R19.9", 1)


MUTANTS = [
    M("empty masters skipped in the loop on what is known of the default so far (seeded C19n)", "ufo2ft/instantiator.py", "collect_glyph_masters",
      "if this_is_default:\n    default_glyph_empty = True\nelse:\n    other_glyph_empty = True", "if this_is_default:\n    default_glyph_empty = True\nelif not default_glyph_empty:\n    continue", rule="R19.6"),
    M("rule conditions evaluated by hand, a bound of 0 read as 'no bound' (seeded C19l)", "ufo2ft/instantiator.py", "process_rules_swaps",
      "designspaceLib.evaluateRule(rule, location)",
      "all(((c.get('minimum') or float('-inf')) <= location.get(c['name'], 0) <= (c.get('maximum') or float('inf')) for cs in rule.conditionSets for c in cs))", rule="R19.9"),
    M("instance anchors filtered down to the default glyph's anchor names (seeded C19j)", "ufo2ft/instantiator.py", "Instantiator.generate_glyph_instance",
      "output_glyph.unicodes = list(self.default_source_glyphs[glyph_name].unicodes)",
      "output_glyph.unicodes = list(self.default_source_glyphs[glyph_name].unicodes)\nnames = {a.name for a in self.default_source_glyphs[glyph_name].anchors}\noutput_glyph.anchors = [dict(a) for a in output_glyph.anchors if a.name in names]", rule="R19.4"),
    M("default glyph looked up once (explaining variable)", "ufo2ft/instantiator.py", "Instantiator.generate_glyph_instance",
      "output_glyph.unicodes = list(self.default_source_glyphs[glyph_name].unicodes)",
      "default_glyph = self.default_source_glyphs[glyph_name]\noutput_glyph.unicodes = list(default_glyph.unicodes)", kind="equiv"),
    M("instance locations quantised to F2Dot14 while master locations are not (seeded C19i)", "ufo2ft/instantiator.py", "Instantiator.normalize",
      "return varLib.models.normalizeLocation(location, self.axis_bounds)",
      "return {k: round(v * 16384) / 16384 for k, v in varLib.models.normalizeLocation(location, self.axis_bounds).items()}", rule="R19.8"),
    M("kerning masters keyed by a post-processed location", "ufo2ft/instantiator.py", "collect_kerning_masters",
      "normalized_location = varLib.models.normalizeLocation(source.location, axis_bounds)",
      "normalized_location = dict(sorted(varLib.models.normalizeLocation(source.location, axis_bounds).items())[:1])", rule="R19.8"),
    M("instances that sit on a master are not rounded (seeded C19h)", "ufo2ft/instantiator.py", "Instantiator.generate_glyph_instance",
      "if self.round_geometry:\n    glyph_instance = glyph_instance.round()", "if self.round_geometry and location_to_key(normalized_location) not in glyph_mutator.location_to_master:\n    glyph_instance = glyph_instance.round()", rule="R19.7"),
    M("master handed out without copying", "ufo2ft/instantiator.py", "Variator.instance_at",
      "copy.deepcopy(self.location_to_master[normalized_location_key])", "self.location_to_master[normalized_location_key]", rule="R19.1"),
    M("interpolation ignores the requested location", "ufo2ft/instantiator.py", "Variator.instance_at",
      "self.model.interpolateFromMasters(normalized_location, self.masters)", "self.model.interpolateFromMasters({}, self.masters)", rule="R19.1"),
    M("key table holds the previous master", "ufo2ft/instantiator.py", "Variator.from_masters",
      "location_to_master[location_to_key(normalized_location)] = master", "location_to_master[location_to_key(normalized_location)] = masters[0]", rule="R19.1"),
    M("location key depends on dict order", "ufo2ft/instantiator.py", "location_to_key", "tuple(sorted(location.items()))", "tuple(location.items())", rule="R19.1"),
    M("instance shares the source lib", "ufo2ft/instantiator.py", "Instantiator.generate_instance",
      "font.lib = typing.cast(dict, copy.deepcopy(self.copy_lib))", "font.lib = typing.cast(dict, self.copy_lib)", rule="R19.2"),
    M("instance shares group lists", "ufo2ft/instantiator.py", "Instantiator.generate_instance",
      "font.groups[key] = [name for name in glyph_names]", "font.groups[key] = self.copy_nonkerning_groups[key]", rule="R19.2"),
    M("info attributes shared", "ufo2ft/instantiator.py", "Instantiator._generate_instance_info",
      "copy.deepcopy(getattr(self.copy_info, attribute))", "getattr(self.copy_info, attribute)", rule="R19.2"),
    M("unicodes list shared with the source glyph", "ufo2ft/instantiator.py", "Instantiator.generate_glyph_instance",
      "list(self.default_source_glyphs[glyph_name].unicodes)", "self.default_source_glyphs[glyph_name].unicodes", rule="R19.2"),
    M("components remapped one way", "ufo2ft/instantiator.py", "swap_glyph_names",
      "if c.baseGlyph == name_old:\n    c.baseGlyph = name_new\nelif c.baseGlyph == name_new:\n    c.baseGlyph = name_old", "if c.baseGlyph == name_old:\n    c.baseGlyph = name_new", rule="R19.3"),
    M("old kerning pairs not dropped (seeded C19d)", "ufo2ft/instantiator.py", "swap_glyph_names", "font.kerning.clear()", "pass", rule="R19.3"),
    M("second kerning side not swapped back", "ufo2ft/instantiator.py", "swap_glyph_names",
      "if second == name_old:\n    second = name_new\nelif second == name_new:\n    second = name_old", "if second == name_old:\n    second = name_new", rule="R19.3"),
    M("code points swapped as well", "ufo2ft/instantiator.py", "swap_glyph_names",
      "glyph_new.width = glyph_swap.width", "glyph_new.width = glyph_swap.width\nglyph_old.unicodes, glyph_new.unicodes = (glyph_new.unicodes, glyph_old.unicodes)", rule="R19.3"),
    M("new glyph keeps its old outline underneath", "ufo2ft/instantiator.py", "swap_glyph_names",
      "glyph_new.clearContours()\nglyph_new.clearComponents()", "glyph_new.clearComponents()", rule="R19.3"),
    M("width of the new glyph not exchanged", "ufo2ft/instantiator.py", "swap_glyph_names", "glyph_new.width = glyph_swap.width", "pass", rule="R19.3"),
    M("group members lose the others", "ufo2ft/instantiator.py", "swap_glyph_names",
      "else:\n    group_members_new.append(name)", "", rule="R19.3", kind="skip"),
    M("instance only gets exported glyphs", "ufo2ft/instantiator.py", "Instantiator.generate_instance",
      "glyph = font.newGlyph(glyph_name)", "if glyph_name in self.skip_export_glyphs:\n    continue\nglyph = font.newGlyph(glyph_name)", rule="R19.4"),
    M("sparse layers contribute fontinfo", "ufo2ft/instantiator.py", "collect_info_masters",
      "if source.layerName is not None and source is not designspace.default:\n    continue", "pass", rule="R19.6"),
    M("kerning uses each master's own groups", "ufo2ft/instantiator.py", "collect_kerning_masters",
      "fontMath.MathKerning(source.font.kerning, groups)", "fontMath.MathKerning(source.font.kerning, source.font.groups)", rule="R19.6"),
    M("glyph missing from the default is skipped silently", "ufo2ft/instantiator.py", "collect_glyph_masters",
      "if this_is_default:\n    raise InstantiatorError(f'glyph {glyph_name!r} not found in the default source')\nelse:\n    continue", "continue", rule="R19.6"),
    M("kerning always rounded", "ufo2ft/instantiator.py", "Instantiator.generate_instance",
      "if self.round_geometry:\n    kerning_instance.round()", "kerning_instance.round()", rule="R19.7"),
    M("glyph rounding result dropped", "ufo2ft/instantiator.py", "Instantiator.generate_glyph_instance",
      "glyph_instance = glyph_instance.round()", "glyph_instance.round()", rule="R19.7"),
    M("fontMath keeps its own rounding", "ufo2ft/instantiator.py", "",
      "fontMath.mathFunctions.setRoundIntegerFunction(fontTools.misc.fixedTools.otRound)", "pass", rule="R19.7"),
    M("default location overrides the instance's", "ufo2ft/instantiator.py", "Instantiator.generate_instance",
      "{**self.default_design_location, **instance.location}", "{**instance.location, **self.default_design_location}", rule="R19.8"),
    M("glyphs instantiated at the un-normalised location", "ufo2ft/instantiator.py", "Instantiator.generate_instance",
      "self.generate_glyph_instance(glyph_name, location_normalized, output_glyph=glyph)", "self.generate_glyph_instance(glyph_name, location, output_glyph=glyph)", rule="R19.8"),
]
MUTANTS = [m for m in MUTANTS if m.kind != "skip"]
