"""C02 - TrueType outlines render the source shape; composites stay valid (plumbing clauses)."""

from __future__ import annotations

import ast
from typing import Dict, List, Optional, Tuple

from ..core import astutil as A
from ..core.cfg import Cond
from ..core.index import AnalysisError, FuncInfo
from ..selftest import M
from .common import (atoms_of, ext_name, branch_values, may_conds, is_early_exit_guard, TTF_OUTLINE, T, attr_stores, calls_named, check_forwarding, check_plumbing, conds, entails, every_origin, facts,
                     key, need, reached_under, subscript_stores, where)
from .rounding import is_otround

PRE = "ufo2ft.preProcessor"
TTFC = "ufo2ft._compilers.ttfCompiler.TTFCompiler"
ITTFC = "ufo2ft._compilers.interpolatableTTFCompiler.InterpolatableTTFCompiler"
VTTFC = "ufo2ft._compilers.variableTTFsCompiler.VariableTTFsCompiler"
OPTIONS = ("convertCubics", "reverseDirection", "flattenComponents", "removeOverlaps", "allQuadratic", "rememberCurveType")


def option_of(prog, fi: FuncInfo, e: ast.AST) -> Optional[str]:
    """Which constructor option does this expression denote?  A parameter name, or
    self.<attr> whose value was stored from the same-named / differently-named
    parameter in the class's __init__."""
    if isinstance(e, ast.Name) and e.id in OPTIONS and e.id in fi.params():
        return e.id
    if isinstance(e, ast.Attribute) and T(e.value) == "self":
        cls = prog._class_ctx(fi)
        if cls is not None:
            for c in prog.ix.mro(cls):
                init = c.methods.get("__init__")
                if init is None:
                    continue
                for st, t, v in attr_stores(init, e.attr):
                    if T(t.value) == "self" and isinstance(v, ast.Name) and v.id in OPTIONS:
                        return v.id
        if e.attr in OPTIONS:
            return e.attr
    return None


def make_atomize(prog, fi):
    def atomize(e):
        o = option_of(prog, fi, e)
        if o is not None:
            return (("opt", o), True)
        if isinstance(e, ast.Name):
            return (("local", e.id), True)
        return None
    return atomize


def check_iff(prog, chk, rule, fi, site, label, expected, opts):
    """The site executes iff expected(env) for every assignment of `opts`."""
    import itertools
    atomize = make_atomize(prog, fi)
    cs = [c for c in conds(prog, fi, site) if c.polarity in (True, False)]
    ok = True
    for vals in itertools.product([False, True], repeat=len(opts)):
        premise = {("opt", o): v for o, v in zip(opts, vals)}
        want = expected(dict(zip(opts, vals)))
        try:
            reach = reached_under(cs, atomize, premise)
        except AnalysisError:
            reach = None
        if want and reach is not True:
            ok = False
        if not want:
            # must be unreachable: some guard is violated for every value of the remaining atoms
            if cs:
                import itertools as it
                from .common import _collect_atoms, _eval_bool, _Env
                atoms = set()
                for c in cs:
                    _collect_atoms(c.test, atomize, atoms)
                free = sorted((a for a in atoms if a not in premise), key=str)
                for fv in it.product([False, True], repeat=len(free)):
                    env = _Env(dict(zip(free, fv)))
                    env.update(premise)
                    if all(_eval_bool(c.test, atomize, env) == bool(c.polarity) for c in cs):
                        ok = False
            else:
                ok = False
    chk.ob(rule, f"{fi.short}|{label}", ok, where(fi, site), detail=f"guards: {[T(c.test, 40) + '=' + str(c.polarity) for c in cs]}",
           message=f"{fi.short}: `{T(site, 50)}` is not applied exactly when the options say so ({label})")
    return ok


def run(prog, chk):
    chk.decided += [
        "TTF filter pipeline decision table, both sibling pre-processors: mixed glyphs always decomposed first; flatten iff flattenComponents; overlaps iff removeOverlaps; cu2qu iff convertCubics else plain reversal iff reverseDirection (R02.1)",
        "option -> keyword binding of the curve converter / reversing pen (R02.2)",
        "absolute error = (conversionError or DEFAULT_MAX_ERR) * unitsPerEm in both siblings (R02.3)",
        "cubic curves in a glyf-format-0 font raise; glyphDataFormat = 0 iff allQuadratic (R02.4/5)",
        "cyclic component references raise InvalidFontData which no handler swallows (R02.6)",
        "glyf is assembled in increasing component depth; coordinate rounding is otRound unless roundCoordinates is off (R02.7/8)",
        "TTF options reach their consumers by name (R02.9)",
        "nested component transformations are composed as outer o inner with fontTools' Transform algebra on every path of _flattenComponent; no Transform is assembled from hand-computed components (R02.10)",
    ]
    chk.decided += ["components are only resolved into contours by util.decomposeCompositeGlyph; no other decomposing pen / component removal outside reviewed functions (R02.11, shared with C15)"]
    chk.decided += ["per-run accumulators of the interpolatable filters are per master inside the loop over the glyph sets (R02.12, shared with C09)"]
    chk.decided += ["the outline compilers generate a glyph only for a name the glyph set lacks (R02.13, shared with C01); the .notdef they add is drawn in the output flavour's contour direction (R02.14)"]
    chk.decided += ["in the static TrueType pipeline mixed glyphs are decomposed, unconditionally, before curves are converted (R02.15)"]
    chk.decided += ["the caller's outline options reach the outline compiler as given (reviewed override table; shared with C01) (R02.17)"]
    chk.decided += ["SortContoursFilter only reorders: what it puts back into the glyph is sorted(<every contour of the glyph>), a permutation - contours with equal sort keys are all kept (R02.19)"]
    chk.decided += ["ReverseContourDirectionFilter reverses every contour of every glyph that has contours, whatever the glyph looks like: the only glyphs passed over are those without contours (R02.18)"]
    chk.decided += ["the TrueType glyph is the one the glyf pen built: no package code assigns, deletes or edits in place the outline fields of a compiled glyph (coordinates, endPtsOfContours, "
                    "numberOfContours; point flags except the reviewed overlap bit; component flags except the reviewed bits) (R02.16)"]
    chk.decided += ["a filter helper whose result the caller rewrites in place (the flattened component list) returns a fresh object on every path and keeps no second reference to it - no memo can be corrupted by the rewrite (R02.21)"]
    chk.not_decided += ["the cu2qu error bound itself", "point-for-point equality", "maxp counts (fontTools recalc)"]
    chk.guard(r021, prog, chk)
    chk.guard(r022, prog, chk)
    chk.guard(r023, prog, chk)
    chk.guard(r024, prog, chk)
    chk.guard(r026, prog, chk)
    chk.guard(r027, prog, chk)
    chk.guard(r029, prog, chk)
    chk.guard(r0210, prog, chk)
    from .c15 import check_single_decomposer
    chk.guard(check_single_decomposer, prog, chk, "R02.11")
    from .c09 import check_master_isolation
    chk.guard(check_master_isolation, prog, chk, "R02.12")
    from .c01 import check_only_missing_glyphs_added
    chk.guard(check_only_missing_glyphs_added, prog, chk, "R02.13")
    chk.guard(r0214, prog, chk)
    chk.guard(r0215, prog, chk)
    chk.guard(r0216, prog, chk)
    chk.guard(r0218, prog, chk)
    chk.guard(r0219, prog, chk)
    from .c01 import check_outline_option_overrides
    chk.guard(check_outline_option_overrides, prog, chk, "R02.17")
    from .c01 import check_default_filters_kept
    chk.guard(check_default_filters_kept, prog, chk, "R02.20")
    chk.guard(check_mutated_results_fresh, prog, chk, "R02.21")


def _append_of(prog, fi, ctor_name):
    out = []
    for c in A.body_nodes(fi.node):
        if isinstance(c, ast.Call) and A.callee_name(c) == ctor_name:
            par = prog.ix.parent(c)
            site = par if isinstance(par, ast.Call) and A.callee_name(par) in ("append", "_run") else c
            out.append((c, site))
    return out


def r021(prog, chk):
    ix = prog.ix
    # --- static sibling
    m = ix.get_method(f"{PRE}.TTFPreProcessor", "initDefaultFilters", own=True)
    cfg = prog.cfg(m)
    dec = _append_of(prog, m, "DecomposeComponentsFilter")
    need(len(dec) == 1, f"cannot interpret {m.short}: DecomposeComponentsFilter")
    dctor, dsite = dec[0]
    inc = A.kwarg(dctor, "include")
    ok_inc = isinstance(inc, ast.Lambda) and T(inc.body) == f"len({inc.args.args[0].arg})"
    dn = cfg.node_of(dsite)
    every = not any(cfg.exists_path(cfg.entry, [r], avoid=[dn]) for r in cfg.return_nodes())
    chk.ob("R02.1", f"{m.short}|mixed glyphs always decomposed", ok_inc and every and not may_conds(prog, m, dsite), where(m, dsite),
           detail="DecomposeComponentsFilter(include=lambda g: len(g)) appended on every path",
           message="glyphs mixing contours and components are no longer always decomposed for TrueType (invalid glyf data)")
    table = {
        "FlattenComponentsFilter": (lambda e: e["flattenComponents"], ["flattenComponents"]),
        "RemoveOverlapsFilter": (lambda e: e["removeOverlaps"], ["removeOverlaps"]),
        "CubicToQuadraticFilter": (lambda e: e["convertCubics"], ["convertCubics", "reverseDirection"]),
        "ReverseContourDirectionFilter": (lambda e: (not e["convertCubics"]) and e["reverseDirection"], ["convertCubics", "reverseDirection"]),
    }
    for name, (expected, opts) in table.items():
        sites = _append_of(prog, m, name)
        need(sites, f"cannot interpret {m.short}: {name} not constructed")
        # several construction sites (backend variants) together must cover exactly `expected`
        if len(sites) == 1:
            check_iff(prog, chk, "R02.1", m, sites[0][1], f"{name} iff {'/'.join(opts)}", expected, opts)
        else:
            # union of the sites: evaluate on the enclosing conditional common to them
            common = None
            for ctor, site in sites:
                cs = [(T(c.test), c.polarity) for c in conds(prog, m, site) if option_of(prog, m, c.test) or any(option_of(prog, m, x) for x in ast.walk(c.test))]
                common = set(cs) if common is None else common & set(cs)
            ok = common is not None and any(t in opts and p is True for t, p in common)
            chk.ob("R02.1", f"{m.short}|{name} iff {'/'.join(opts)}", ok, where(m, sites[0][1]), detail=f"{len(sites)} construction sites under {sorted(common or [])}",
                   message=f"{m.short}: {name} is not applied exactly when {'/'.join(opts)} says so")
        for ctor, site in sites:
            sn = cfg.node_of(site)
            chk.ob("R02.1", f"{m.short}|{name} after the mixed-glyph decomposition|{A.keytext(m.node, ctor)}", cfg.dominates(dn, sn) and dn != sn, where(m, site),
                   detail="decomposition precedes it in the filter list", message=f"{name} runs before mixed glyphs are decomposed")
    # ReverseContourDirection only on glyphs with contours is fine; cu2qu gets no include (all glyphs)
    # --- interpolatable sibling
    p = ix.get_method(f"{PRE}.TTFInterpolatablePreProcessor", "process", own=True)
    pcfg = prog.cfg(p)
    f2q = [c for c in A.body_nodes(p.node) if isinstance(c, ast.Call) and A.callee_name(c) == "fonts_to_quadratic"]
    need(len(f2q) == 1, f"cannot interpret {p.short}: fonts_to_quadratic")
    check_iff(prog, chk, "R02.1", p, f2q[0], "fonts_to_quadratic iff convertCubics", lambda e: e["convertCubics"], ["convertCubics", "reverseDirection"])
    rev = _append_of(prog, p, "ReverseContourDirectionFilter")
    need(len(rev) == 1, f"cannot interpret {p.short}: ReverseContourDirectionFilter")
    check_iff(prog, chk, "R02.1", p, rev[0][1], "ReverseContourDirectionFilter iff not convertCubics and reverseDirection",
              lambda e: (not e["convertCubics"]) and e["reverseDirection"], ["convertCubics", "reverseDirection"])
    fl = _append_of(prog, p, "FlattenComponentsIFilter")
    need(len(fl) == 1, f"cannot interpret {p.short}: FlattenComponentsIFilter")
    check_iff(prog, chk, "R02.1", p, fl[0][1], "FlattenComponentsIFilter iff flattenComponents", lambda e: e["flattenComponents"], ["flattenComponents"])
    di = _append_of(prog, p, "DecomposeComponentsIFilter")
    need(len(di) == 1, f"cannot interpret {p.short}: DecomposeComponentsIFilter")
    dictor, disite = di[0]
    inc = A.kwarg(dictor, "include")
    guards = [c for c in conds(prog, p, disite) if c.polarity in (True, False)]
    ok = inc is not None and len(guards) == 1 and guards[0].polarity is True and T(guards[0].test) == T(inc)
    # it precedes the default filters and the curve conversion
    din = pcfg.node_of(disite)
    later = [pcfg.node_of(f2q[0]), pcfg.node_of(rev[0][1]), pcfg.node_of(fl[0][1])]
    ok_order = all(not pcfg.exists_path(l, [din]) and pcfg.exists_path(din, [l]) for l in later)
    chk.ob("R02.1", f"{p.short}|mixed glyphs decomposed (jointly) before conversion", ok and ok_order, where(p, disite),
           detail="if needs_decomposition: self._run(DecomposeComponentsIFilter(include=needs_decomposition)), before cu2qu / reversal / flatten",
           message="the interpolatable TTF pre-processor does not decompose the jointly collected mixed glyphs before converting curves")
    chk.minimum("R02.1", 12)


def r022(prog, chk):
    ix = prog.ix
    m = ix.get_method(f"{PRE}.TTFPreProcessor", "initDefaultFilters", own=True)
    for ctor, site in _append_of(prog, m, "CubicToQuadraticFilter"):
        for kwn in ("conversionError", "reverseDirection", "allQuadratic"):
            v = A.kwarg(ctor, kwn)
            ok = isinstance(v, ast.Name) and v.id == kwn and kwn in m.params()
            chk.ob("R02.2", f"{m.short}|CubicToQuadraticFilter({kwn}=)", ok, where(m, ctor), detail=f"{kwn}={T(v) if v is not None else None}",
                   message=f"CubicToQuadraticFilter does not receive the pre-processor's {kwn} option")
    p = ix.get_method(f"{PRE}.TTFInterpolatablePreProcessor", "process", own=True)
    init = ix.get_method(f"{PRE}.TTFInterpolatablePreProcessor", "__init__", own=True)
    for c in [c for c in A.body_nodes(p.node) if isinstance(c, ast.Call) and A.callee_name(c) == "fonts_to_quadratic"]:
        ok0 = c.args and T(c.args[0]) == "self.glyphSets"
        chk.ob("R02.2", f"{p.short}|fonts_to_quadratic(self.glyphSets, ...)", bool(ok0), where(p, c), detail="all masters converted together",
               message="fonts_to_quadratic is not applied to all glyph sets at once")
        for kwn, opt in (("reverse_direction", "reverseDirection"), ("all_quadratic", "allQuadratic")):
            v = A.kwarg(c, kwn)
            ok = v is not None and option_of(prog, p, v) == opt
            chk.ob("R02.2", f"{p.short}|fonts_to_quadratic({kwn}=)", ok, where(p, c), detail=f"{kwn}={T(v) if v is not None else None} (option {opt})",
                   message=f"fonts_to_quadratic does not receive the {opt} option as {kwn}")
        v = A.kwarg(c, "max_err")
        src = [vv for st, t, vv in attr_stores(init, v.attr)] if isinstance(v, ast.Attribute) else []
        ok = bool(src) and "conversionError" in T(src[0], 400)
        chk.ob("R02.2", f"{p.short}|fonts_to_quadratic(max_err=)", ok, where(p, c), detail="max_err derives from conversionError",
               message="fonts_to_quadratic max_err does not derive from the conversionError option")
    cf = ix.get_method("ufo2ft.filters.cubicToQuadratic.CubicToQuadraticFilter", "filter", own=True)
    pens = [c for c in A.body_nodes(cf.node) if isinstance(c, ast.Call) and A.callee_name(c) == "Cu2QuPointPen"]
    need(pens, "CubicToQuadraticFilter.filter does not build a Cu2QuPointPen")
    for c in pens:
        for kwn, opt in (("reverse_direction", "reverseDirection"), ("all_quadratic", "allQuadratic")):
            v = A.kwarg(c, kwn)
            ok = v is not None and T(v) == f"self.options.{opt}"
            chk.ob("R02.2", f"{cf.short}|Cu2QuPointPen({kwn}=)", ok, where(cf, c), detail=f"{kwn}={T(v) if v is not None else None}",
                   message=f"Cu2QuPointPen does not receive options.{opt} as {kwn}")
        ok = len(c.args) >= 2 and T(c.args[0]).endswith(".getPointPen()") and T(c.args[1]) == "self.context.absoluteError"
        chk.ob("R02.2", f"{cf.short}|Cu2QuPointPen(glyph pen, absoluteError)", ok, where(cf, c), detail=T(c, 80),
               message="Cu2QuPointPen is not given the glyph's own point pen and the context's absolute error")
    # conversion and reversal happen together and once: contours are only redrawn through the conversion pen ...
    draws = [c for c in A.body_nodes(cf.node) if isinstance(c, ast.Call) and isinstance(c.func, ast.Attribute) and c.func.attr in ("drawPoints", "draw") and c.args]
    need(draws, f"cannot interpret {cf.short}: contours are not redrawn")
    for c in draws:
        okp, bad = every_origin(prog, cf, c.args[0], lambda e, f_: isinstance(e, ast.Call) and A.callee_name(e) == "Cu2QuPointPen", allow_const=False)
        chk.ob("R02.2", f"{cf.short}|{A.keytext(cf.node, c)}|contours are only redrawn through the conversion pen", okp, where(cf, c), detail=T(c, 60),
               message=f"{cf.short}: contours are redrawn through a pen other than Cu2QuPointPen ({[T(b, 40) for b in bad][:2]}): direction / structure of a glyph can change without the conversion "
                       f"(e.g. a second reversal of outlines that were already converted and reversed)")
    # ... and a layer whose lib says the curves are already quadratic is left alone (the marker is written by this very filter after it converted AND reversed)
    cc = ix.get_method("ufo2ft.filters.cubicToQuadratic.CubicToQuadraticFilter", "__call__", own=True)
    sup = [c for c in A.body_nodes(cc.node) if isinstance(c, ast.Call) and isinstance(c.func, ast.Attribute) and c.func.attr == "__call__" and "super()" in T(c.func.value)]
    need(len(sup) == 1, f"cannot interpret {cc.short}: super().__call__")
    cfgc = prog.cfg(cc)
    early = [r for r in A.returns_of(cc.node) if any(o == "eq" and r_ == "'quadratic'" for o, l, r_ in facts(prog, cc, r))
             and isinstance(r.value, ast.Call) and A.callee_name(r.value) == "set" and not r.value.args]
    ok = bool(early) and any(o == "truthy" and l.endswith(".rememberCurveType") for r in early for o, l, r_ in facts(prog, cc, r)) \
        and all(not cfgc.exists_path(cfgc.node_of(sup[0]), [cfgc.node_of(r)]) for r in early)
    # the loop that looks for the marker covers the font lib and the layer lib, and runs before the filter does anything
    lp = [l for l in A.body_nodes(cc.node) if isinstance(l, ast.For) and any(r in list(ast.walk(l)) for r in early)]
    ok = ok and len(lp) == 1 and isinstance(lp[0].iter, (ast.Tuple, ast.List)) and len(lp[0].iter.elts) == 2 and cfgc.exists_path(cfgc.node_of(lp[0]), [cfgc.node_of(sup[0])])
    chk.ob("R02.2", f"{cc.short}|already converted layers are left alone (marker in the font lib or the layer lib)", ok, where(cc, sup[0]), detail="return set() under curve_type == 'quadratic', before the filter runs",
           message=f"{cc.short}: a layer marked as already quadratic is processed again (the marker is written after conversion + reversal, so anything done again is done twice)")
    chk.minimum("R02.2", 12)


def _expand(prog, fi, e, depth=0):
    """Inline single-definition locals (for pattern matching of formulas)."""
    if depth > 5:
        return e
    if isinstance(e, ast.Name):
        ds = prog.reaching(fi, e.id, e)
        if len(ds) == 1:
            v, how = ds[0].element()
            if v is not None and how is None:
                return _expand(prog, fi, v, depth + 1)
    return e


def _is_error_formula(prog, fi, e) -> bool:
    e = _expand(prog, fi, e)
    if not (isinstance(e, ast.BinOp) and isinstance(e.op, ast.Mult)):
        return False
    sides = [_expand(prog, fi, e.left), _expand(prog, fi, e.right)]
    rel = [s for s in sides if isinstance(s, ast.BoolOp) and isinstance(s.op, ast.Or) and len(s.values) == 2
           and "conversionError" in T(s.values[0]) and ext_name(prog, fi, s.values[1]) == "fontTools.cu2qu.ufo.DEFAULT_MAX_ERR"]
    upm = [s for s in sides if isinstance(s, ast.Call) and A.callee_name(s) == "getAttrWithFallback" and len(s.args) == 2 and A.is_const(s.args[1], "unitsPerEm")]
    return len(rel) == 1 and len(upm) == 1


def r023(prog, chk):
    ix = prog.ix
    sc = ix.get_method("ufo2ft.filters.cubicToQuadratic.CubicToQuadraticFilter", "set_context", own=True)
    st = [(s, v) for s, t, v in attr_stores(sc, "absoluteError")]
    need(st, "CubicToQuadraticFilter.set_context does not set absoluteError")
    for s, v in st:
        chk.ob("R02.3", f"{sc.short}|absoluteError = (conversionError or DEFAULT_MAX_ERR) * unitsPerEm", _is_error_formula(prog, sc, v), where(sc, s), detail=T(v, 80),
               message="the absolute conversion error is no longer (conversionError or DEFAULT_MAX_ERR) x unitsPerEm")
    init = ix.get_method(f"{PRE}.TTFInterpolatablePreProcessor", "__init__", own=True)
    # anchored on the consumer: the max_err handed to fonts_to_quadratic for the list of masters
    proc = ix.get_method(f"{PRE}.TTFInterpolatablePreProcessor", "process", own=True)
    f2q = [c for c in A.body_nodes(proc.node) if isinstance(c, ast.Call) and A.callee_name(c) == "fonts_to_quadratic"]
    need(len(f2q) == 1, "cannot interpret TTFInterpolatablePreProcessor.process: fonts_to_quadratic call")
    me = A.kwarg(f2q[0], "max_err")
    need(me is not None, "cannot interpret TTFInterpolatablePreProcessor.process: max_err")
    if isinstance(me, ast.Attribute) and T(me.value) == "self":
        st = [(s, v) for s, t, v in attr_stores(init, me.attr)]
        need(st, f"TTFInterpolatablePreProcessor.__init__ does not set self.{me.attr}")
    else:
        st = [(f2q[0], me)]
    for s, v in st:
        ok = isinstance(v, ast.ListComp) and _is_error_formula(prog, init, v.elt) and T(v.generators[0].iter) in ("self.ufos", "ufos")
        if ok:
            # each master's own unitsPerEm
            tv = A.target_names(v.generators[0].target)
            upm = [c for c in ast.walk(v.elt) if isinstance(c, ast.Call) and A.callee_name(c) == "getAttrWithFallback"]
            ok = all(isinstance(c.args[0], ast.Attribute) and c.args[0].attr == "info" and isinstance(c.args[0].value, ast.Name) and c.args[0].value.id in tv for c in upm)
        chk.ob("R02.3", f"{init.short}|per-master error = (conversionError or DEFAULT_MAX_ERR) * unitsPerEm", ok, where(init, s), detail=T(v, 100),
               message="the interpolatable pre-processor's conversion errors are no longer (conversionError or DEFAULT_MAX_ERR) x each master's unitsPerEm")
    # both DEFAULT_MAX_ERR come from fontTools.cu2qu.ufo
    for f in (sc, init):
        ds = sorted({ext_name(prog, f, n) for n in A.body_nodes(f.node) if isinstance(n, (ast.Name, ast.Attribute)) and T(n).endswith("DEFAULT_MAX_ERR")})
        chk.ob("R02.3", f"{f.short}|DEFAULT_MAX_ERR is cu2qu's", ds == ["fontTools.cu2qu.ufo.DEFAULT_MAX_ERR"], where(f), detail=str(ds), nontrivial=False,
               message="DEFAULT_MAX_ERR is not fontTools.cu2qu.ufo.DEFAULT_MAX_ERR")
    chk.minimum("R02.3", 4)


def r024(prog, chk):
    ix = prog.ix
    cg = ix.get_method(TTF_OUTLINE, "compileGlyphs", own=True)
    rs = [r for r in A.raises_of(cg.node) if A.raise_class(r) == "ValueError"]
    ok = False
    for r in rs:
        fs = facts(prog, cg, r)
        fmt0 = False
        for o, l, rr in fs:
            if o == "eq" and rr == "0":
                # the compared local is the compiler's glyphDataFormat
                ok_src, _ = every_origin(prog, cg, ast.Name(id=l, ctx=ast.Load()), lambda e, f: T(e) == "self.glyphDataFormat", allow_const=False) \
                    if l.isidentifier() else (l == "self.glyphDataFormat", [])
                nm = [n for c in conds(prog, cg, r) for n in ast.walk(c.test) if isinstance(n, ast.Name) and n.id == l]
                if nm:
                    ok_src, _ = every_origin(prog, cg, nm[0], lambda e, f: T(e) == "self.glyphDataFormat", allow_const=False)
                fmt0 = fmt0 or ok_src or l == "self.glyphDataFormat"
        cubic = any("flagCubic" in l for o, l, rr in fs if o == "truthy")
        ok = ok or (fmt0 and cubic)
    chk.ob("R02.4", f"{cg.short}|cubic curve in glyf format 0 raises", ok, where(cg), detail="raise ValueError under glyphDataFormat == 0 and any(flag & flagCubic)",
           message="a glyph with cubic curves can be written into a glyf table of format 0 (unreadable by TrueType rasterisers)")
    for cq in (TTFC, ITTFC):
        co = ix.get_method(cq, "compileOutlines", own=True)
        st = [(s, v) for s, t, v in subscript_stores(co) if A.is_const(t.slice, "glyphDataFormat")]
        ok = bool(st) and all(isinstance(v, ast.IfExp) and T(v.test) == "self.allQuadratic" and A.is_const(v.body, 0) and A.is_const(v.orelse, 1) for s, v in st)
        cfg = prog.cfg(co)
        ctor = [c for c in A.body_nodes(co.node) if isinstance(c, ast.Call) and isinstance(c.func, ast.Attribute) and c.func.attr == "outlineCompilerClass"]
        ok = ok and bool(ctor) and all(cfg.dominates(cfg.node_of(st[0][0]), cfg.node_of(c)) for c in ctor)
        chk.ob("R02.5", f"{co.short}|glyphDataFormat = 0 if allQuadratic else 1", ok, where(co), detail="set before the outline compiler is built",
               message=f"{co.short} does not tie glyphDataFormat to allQuadratic")
    # the guard reads what the constructor stored
    init = ix.get_method(TTF_OUTLINE, "__init__", own=True)
    st = [v for s, t, v in attr_stores(init, "glyphDataFormat") if T(t.value) == "self"]
    chk.ob("R02.5", f"{init.short}|self.glyphDataFormat = glyphDataFormat", bool(st) and all(T(v) == "glyphDataFormat" for v in st), where(init), detail="constructor stores the argument",
           message="OutlineTTFCompiler does not store the glyphDataFormat it is given")
    chk.minimum("R02.4", 1)
    chk.minimum("R02.5", 3)


def r026(prog, chk):
    ix = prog.ix
    from .c03 import _handler_types, _reraises, BROAD
    gd = ix.get_func("ufo2ft.util:getMaxComponentDepth")
    rs = [r for r in A.raises_of(gd.node) if A.raise_class(r).endswith("InvalidFontData")]
    ok = False
    for r in rs:
        fs = facts(prog, gd, r)
        ok = ok or any(o == "in" and "baseGlyph" in l for o, l, rr in fs)
    chk.ob("R02.6", f"{gd.short}|cycle raises InvalidFontData", ok, where(gd), detail="raise under `component.baseGlyph in rec_stack`",
           message="a cyclic component reference is no longer rejected")
    # the recursion stack is maintained: push before recursing, pop after
    ok = bool(calls_named(gd, "append")) and bool(calls_named(gd, "pop"))
    chk.ob("R02.6", f"{gd.short}|recursion stack maintained", ok, where(gd), detail="rec_stack.append / rec_stack.pop", message="the recursion stack of the cycle check is not maintained")
    graph = prog.call_graph()
    for mname in ("setupTable_maxp", "setupTable_glyf"):
        m = ix.get_method(TTF_OUTLINE, mname, own=True)
        reach = prog.reachable_from([m.qname], graph)
        chk.ob("R02.6", f"{m.short} reaches the cycle check", gd.qname in reach, where(m), detail="via getMaxComponentDepths",
               message=f"{m.short} no longer computes component depths (cycles undetected, maxp depth wrong)")
    can_reach = {q for q in graph if gd.qname in prog.reachable_from([q], graph)}
    n = 0
    for fi in ix.functions.values():
        for t in [n for n in A.body_nodes(fi.node) if isinstance(n, ast.Try)]:
            for h in t.handlers:
                types = _handler_types(h)
                broad = [x for x in types if x == "<bare>" or x.split(".")[-1] in {b.split(".")[-1] for b in BROAD}]
                if not broad:
                    continue
                callees = set()
                for st in t.body:
                    for c in A.calls_in(st):
                        ts, _how = prog.resolve_callee(fi, c.func)
                        for tt in ts:
                            if isinstance(tt, FuncInfo):
                                callees.add(tt.qname)
                reaches = any(q in can_reach for q in callees)
                n += 1
                chk.ob("R02.6", f"{fi.short}|except {','.join(types)}", (not reaches) or _reraises(prog, fi, h), where(fi, h),
                       detail=f"try-body reaches the cycle check: {reaches}", nontrivial=reaches,
                       message=f"handler 'except {','.join(types)}' in {fi.short} can swallow the cyclic-reference InvalidFontData")
    chk.minimum("R02.6", 6)


def r027(prog, chk):
    ix = prog.ix
    sg = ix.get_method(TTF_OUTLINE, "setupTable_glyf", own=True)
    stores = [(st, t) for st, t, v in subscript_stores(sg) if isinstance(t.value, ast.Name)]
    ok = False
    for st, t in stores:
        for loop in [a for a in ix.ancestors(st) if isinstance(a, ast.For)]:
            it = loop.iter
            if isinstance(it, ast.Call) and A.callee_name(it) == "sorted" and it.args and T(it.args[0]) == "self.glyphOrder":
                k = A.kwarg(it, "key")
                if isinstance(k, ast.Lambda):
                    body = k.body
                    src_ok = False
                    for n in ast.walk(body):
                        if isinstance(n, ast.Name) and n.id not in [a.arg for a in k.args.args]:
                            o, _ = every_origin(prog, sg, n, lambda e, f: isinstance(e, ast.Call) and A.callee_name(e) == "getMaxComponentDepths", allow_const=False)
                            src_ok = src_ok or o
                    ok = ok or (src_ok and not A.kwarg(it, "reverse"))
    chk.ob("R02.7", f"{sg.short}|glyf assembled in increasing component depth", ok, where(sg), detail="for name in sorted(self.glyphOrder, key=<component depth>)",
           message="glyphs are not added to glyf in increasing component depth (composite hashes / bounds computed before their bases exist)")
    cg = ix.get_method(TTF_OUTLINE, "compileGlyphs", own=True)
    pg = [c for c in calls_named(cg, "glyph") if isinstance(c.func, ast.Attribute)]
    need(pg, f"cannot interpret {cg.short}: pen.glyph(...)")
    for c in pg:
        rv = A.kwarg(c, "round")
        bv = branch_values(prog, cg, rv) if rv is not None else []
        ok = len(bv) >= 2
        for v, fs in bv:
            d_ = prog.ix.resolve_expr(cg.module, v, None) or ""
            on = any(o == "truthy" and l == "self.roundCoordinates" for o, l, r in fs)
            off = any(o == "falsy" and l == "self.roundCoordinates" for o, l, r in fs)
            ok = ok and ((on and d_.endswith(".otRound")) or (off and d_.endswith(".noRound")))
        chk.ob("R02.8", f"{cg.short}|coordinates rounded with otRound unless roundCoordinates is off", ok, where(cg, c), detail="round = otRound if self.roundCoordinates else noRound",
               message="TrueType coordinates are not rounded with otRound (halves up) when rounding is on")
        dk = A.kwarg(c, "dropImpliedOnCurves")
        chk.ob("R02.8", f"{cg.short}|dropImpliedOnCurves follows the option", dk is not None and T(dk) == "self.dropImpliedOnCurves", where(cg, c), detail=T(dk) if dk is not None else "",
               message="pen.glyph does not receive self.dropImpliedOnCurves")
    pens = [c for c in A.body_nodes(cg.node) if isinstance(c, ast.Call) and A.callee_name(c) == "TTGlyphPointPen"]
    draws = [c for c in calls_named(cg, "drawPoints")]
    ok = len(pens) == 1 and len(draws) == 1 and len(draws[0].args) == 1 and isinstance(draws[0].args[0], ast.Name) \
        and all(any(d.binder is prog.ix.enclosing_stmt(pens[0]) for d in prog.reaching(cg, draws[0].args[0].id, draws[0].args[0])) for _ in [0])
    chk.ob("R02.8", f"{cg.short}|each glyph drawn once into a fresh TTGlyphPointPen", ok, where(cg), detail="pen = TTGlyphPointPen(allGlyphs); glyph.drawPoints(pen)",
           message="glyphs are not drawn exactly once into a fresh TrueType pen")
    init = ix.get_method(TTF_OUTLINE, "__init__", own=True)
    a = init.node.args
    defaults = dict(zip([x.arg for x in a.args][len(a.args) - len(a.defaults):], a.defaults))
    chk.ob("R02.8", f"{init.short}|roundCoordinates defaults to True", A.is_const(defaults.get("roundCoordinates"), True), where(init), detail="static TTFs round", nontrivial=False,
           message="OutlineTTFCompiler no longer rounds coordinates by default")
    chk.minimum("R02.7", 1)
    chk.minimum("R02.8", 4)


def r029(prog, chk):
    rows = []
    for cq in (TTFC, ITTFC, VTTFC):
        rows += [(cq, "convertCubics", "pre"), (cq, "cubicConversionError", "pre"), (cq, "reverseDirection", "pre"), (cq, "flattenComponents", "pre"),
                 (cq, "allQuadratic", "pre"), (cq, "autoUseMyMetrics", "outline")]
    rows += [(TTFC, "rememberCurveType", "pre"), (TTFC, "dropImpliedOnCurves", "outline"), (TTFC, "removeOverlaps", "pre"), (TTFC, "overlapsBackend", "pre")]
    check_plumbing(prog, chk, "R02.9", rows)
    check_forwarding(prog, chk, "R02.9")
    chk.minimum("R02.9", 25)


# ----------------------------------------------------------------------------- R02.10
TRANSFORM = "fontTools.misc.transform.Transform"
FIELDS6 = ["xx", "xy", "yx", "yy", "dx", "dy"]


def _is_transform_ctor(prog, fi, e) -> bool:
    return isinstance(e, ast.Call) and prog.is_call_to(fi, e, TRANSFORM)


def _chain(e, stop=None):
    """x.m1(a).m2(b) -> (x, [(m1, call1), (m2, call2)]); `stop(call)` marks a call that is the base itself (a constructor
    reached through a module attribute is not a method of the module)"""
    ops = []
    while isinstance(e, ast.Call) and isinstance(e.func, ast.Attribute) and not (stop is not None and stop(e)):
        ops.append((e.func.attr, e))
        e = e.func.value
    return e, list(reversed(ops))


def _field_of(e, roles):
    """X.<field> with X a role-carrying name -> (role, field)"""
    if isinstance(e, ast.Attribute) and isinstance(e.value, ast.Name) and e.value.id in roles:
        return roles[e.value.id], e.attr
    return None


def _composition_shape(prog, fi, e, roles, is_outer) -> Tuple[bool, str]:
    """e is OUTER o INNER written with fontTools' Transform algebra:
       OUTER.transform(INNER)  |  OUTER.translate(I.dx, I.dy).transform((I.xx, I.xy, I.yx, I.yy, 0, 0))"""
    steps = []
    cur = e
    # inline straight-line re-assignments (t = t.translate(..); t = t.transform(..))
    for _ in range(8):
        base, ops = _chain(cur, stop=lambda c_: _is_transform_ctor(prog, fi, c_))
        steps = ops + steps
        if isinstance(base, ast.Name) and base.id not in roles:
            ds = prog.reaching(fi, base.id, base)
            if len(ds) == 1 and ds[0].element()[1] is None and ds[0].element()[0] is not None:
                cur = ds[0].element()[0]
                continue
        break
    if not is_outer(base):
        return False, f"the composition does not start from the outer component's transformation (`{T(base, 50)}`)"
    names = [m for m, c in steps]
    if names == ["transform"]:
        a = steps[0][1].args
        ok = len(a) == 1 and isinstance(a[0], ast.Name) and roles.get(a[0].id) == "INNER"
        return ok, "OUTER.transform(INNER)" if ok else f"transform() is not applied to the nested transformation (`{T(steps[0][1], 60)}`)"
    if names == ["translate", "transform"]:
        ta = steps[0][1].args
        ok1 = len(ta) == 2 and [_field_of(x, roles) for x in ta] == [("INNER", "dx"), ("INNER", "dy")]
        ma = steps[1][1].args
        ok2 = (len(ma) == 1 and isinstance(ma[0], ast.Tuple) and len(ma[0].elts) == 6
               and [_field_of(x, roles) for x in ma[0].elts[:4]] == [("INNER", f) for f in FIELDS6[:4]]
               and all(isinstance(x, ast.Constant) and x.value == 0 for x in ma[0].elts[4:]))
        if not ok1:
            return False, f"translate() does not take the nested offset (dx, dy): `{T(steps[0][1], 60)}`"
        if not ok2:
            return False, f"transform() does not take the nested 2x2 (xx, xy, yx, yy, 0, 0): `{T(steps[1][1], 70)}`"
        return True, "OUTER.translate(I.dx, I.dy).transform((I.xx, I.xy, I.yx, I.yy, 0, 0))"
    return False, f"unrecognised composition `{T(e, 70)}` (steps {names})"


def r0210(prog, chk, rule="R02.10"):
    ix = prog.ix
    # (a) Transform objects are never assembled from hand-computed components
    n = 0
    for fi in ix.functions.values():
        for c in A.body_nodes(fi.node):
            if _is_transform_ctor(prog, fi, c):
                n += 1
                ok = not c.keywords and (not c.args or (len(c.args) == 1 and isinstance(c.args[0], ast.Starred)))
                chk.ob(rule, f"{fi.short}|{A.keytext(fi.node, c)}", ok, where(fi, c), detail="Transform(*<6-tuple>) / Transform()",
                       message=f"{fi.short} assembles a Transform from hand-computed components (`{T(c, 70)}`): nested component transforms must be "
                               f"composed with fontTools' Transform algebra (an offset has to be mapped through the outer 2x2)")
    need(n >= 5, "Transform constructions not found")
    # (b) _flattenComponent composes outer o inner for every nested component
    fc = ix.get_func("ufo2ft.filters.flattenComponents:_flattenComponent")
    ps = fc.params()
    need(len(ps) >= 2, f"cannot interpret {fc.short}")
    comp = ps[1]

    def is_outer_in(fi, outer_names):
        def f(b):
            if isinstance(b, ast.Name) and b.id in outer_names:
                return True
            return (fi is fc and _is_transform_ctor(prog, fc, b) and len(b.args) == 1 and isinstance(b.args[0], ast.Starred)
                    and T(b.args[0].value) == f"{comp}.transformation")
        return f

    # the inner transformation: loop variable unpacked from the recursive call's result
    inner = set()
    for loop in [x for x in A.body_nodes(fc.node) if isinstance(x, ast.For)]:
        it = loop.iter
        if isinstance(it, ast.Call) and A.callee_name(it) == "enumerate" and it.args:
            it = it.args[0]
        it = _expand(prog, fc, it)
        if isinstance(it, ast.Call) and A.callee_name(it) == fc.node.name:
            tn = A.target_names(loop.target)
            if tn:
                inner.add(tn[-1])
    need(inner, f"cannot interpret {fc.short}: no loop over the recursive result")
    roles = {x: "INNER" for x in inner}
    emitted = []
    for x in A.body_nodes(fc.node):
        if isinstance(x, ast.Tuple) and len(x.elts) == 2 and isinstance(x.ctx, ast.Load):
            par = ix.parent(x)
            if isinstance(par, ast.Assign) and par.value is x and isinstance(par.targets[0], ast.Subscript):
                emitted.append(x)
            elif isinstance(par, ast.Call) and A.callee_name(par) in ("append",) and x in par.args:
                emitted.append(x)
            elif isinstance(par, ast.List) and isinstance(ix.parent(par), ast.Return):
                emitted.append(x)
    need(len(emitted) >= 2, f"cannot interpret {fc.short}: emitted (name, transform) tuples")
    for tup in emitted:
        e = tup.elts[1]
        nested_ctx = any(isinstance(a, ast.For) for a in ix.ancestors(tup))
        if not nested_ctx:
            v = _expand(prog, fc, e)
            ok = is_outer_in(fc, set())(v)
            chk.ob(rule, f"{fc.short}|leaf component keeps its own transformation", ok, where(fc, tup), detail=T(v, 60),
                   message=f"{fc.short}: a component that is not nested is not emitted with its own transformation (`{T(v, 60)}`)")
            continue
        v = e
        if isinstance(v, ast.Name) and v.id not in roles:
            ds = prog.reaching(fc, v.id, v)
            if len(ds) == 1 and ds[0].element()[1] is None and isinstance(ds[0].element()[0], ast.Call) and not isinstance(ds[0].element()[0].func, ast.Attribute):
                v = ds[0].element()[0]
        if isinstance(v, ast.Call) and isinstance(v.func, ast.Name) and not _is_transform_ctor(prog, fc, v):
            # composition moved into a helper: bind roles to its parameters and check every return
            ts, how = prog.resolve_callee(fc, v.func)
            helper = [t for t in ts if isinstance(t, FuncInfo)]
            if len(helper) != 1:
                chk.ob(rule, f"{fc.short}|nested transformation composed", False, where(fc, tup), message=f"cannot resolve `{T(v, 50)}`")
                continue
            h = helper[0]
            hroles, outers = {}, set()
            for p, a in zip(h.params(), v.args):
                av = _expand(prog, fc, a)
                if isinstance(a, ast.Name) and a.id in roles:
                    hroles[p] = "INNER"
                elif is_outer_in(fc, set())(av):
                    outers.add(p)
            for r in A.returns_of(h.node):
                if isinstance(r.value, ast.Name) and hroles.get(r.value.id) == "INNER":
                    # identity fast path: only when OUTER is the identity
                    cs = conds(prog, h, r)
                    ok = any(c.polarity is True and isinstance(c.test, ast.Compare) and len(c.test.ops) == 1 and isinstance(c.test.ops[0], ast.Eq)
                             and isinstance(c.test.left, ast.Name) and c.test.left.id in outers and ext_name(prog, h, c.test.comparators[0]) == "fontTools.misc.transform.Identity" for c in cs)
                    why = "INNER returned only when OUTER == Identity"
                else:
                    ok, why = _composition_shape(prog, h, r.value, hroles, is_outer_in(h, outers))
                chk.ob(rule, f"{h.short}|{A.keytext(h.node, r)}", ok, where(h, r), detail=why,
                       message=f"{h.short} (used by {fc.short} to place nested components): {why}")
            continue
        ok, why = _composition_shape(prog, fc, e, roles, is_outer_in(fc, set()))
        chk.ob(rule, f"{fc.short}|nested transformation = OUTER o INNER", ok, where(fc, tup), detail=why,
               message=f"{fc.short}: the transformation of a flattened nested component is not outer o inner: {why}")
    # every emitted tuple reaches the pen: _flattenGlyphComponents adds each tuple unchanged
    fg = ix.get_func("ufo2ft.filters.flattenComponents:_flattenGlyphComponents")
    adds = [c for c in calls_named(fg, "addComponent")]
    ok = bool(adds) and all(len(c.args) == 1 and isinstance(c.args[0], ast.Starred) for c in adds)
    chk.ob(rule, f"{fg.short}|flattened tuples are added unchanged", ok, where(fg), detail="pen.addComponent(*flattened_tuple)",
           message=f"{fg.short} no longer adds the flattened (baseGlyph, transformation) tuples as they are")
    chk.minimum(rule, 9)



# ----------------------------------------------------------------------------- R02.14
def r0214(prog, chk):
    """Glyphs the outline compiler adds itself (.notdef: the caller's notdefGlyph or the generated box) are drawn in the
    output flavour's contour direction: both branches of makeMissingRequiredGlyphs receive reverseContour = 'this is a
    TrueType-flavoured font'."""
    ix = prog.ix
    from .common import BASE_OUTLINE
    m = ix.get_method(BASE_OUTLINE, "makeMissingRequiredGlyphs", own=True)
    makers = [c for c in A.body_nodes(m.node) if isinstance(c, ast.Call) and A.callee_name(c) in ("_copyGlyph", "StubGlyph")]
    need(len(makers) >= 2, f"cannot interpret {m.short}: .notdef makers")
    sfnt = m.params()[3]
    for c in makers:
        v = A.kwarg(c, "reverseContour")
        ok = v is not None
        if ok:
            def is_tt_test(e, f_):
                p_ = A.compare_parts(e)
                return bool(p_) and isinstance(p_[1], ast.Eq) and {T(p_[0]), T(p_[2])} >= {sfnt} and any(isinstance(x, ast.Constant) and x.value == "\x00\x01\x00\x00" for x in (p_[0], p_[2]))
            ok, _ = every_origin(prog, m, v, is_tt_test, allow_const=False)
        chk.ob("R02.14", f"{m.short}|{A.callee_name(c)}(reverseContour = TrueType flavour)", ok, where(m, c), detail=T(v) if v is not None else "no reverseContour argument",
               message=f"{m.short}: the .notdef made by {A.callee_name(c)} is not drawn in the contour direction of the output flavour (TrueType fonts get a PostScript-direction .notdef)")
    chk.minimum("R02.14", 2)



# ----------------------------------------------------------------------------- R02.15
def r0215(prog, chk):
    """Curves are converted on the outline the glyph will have: in the static TrueType pipeline every filter that
    copies a component's outline into a glyph (decomposition of mixed glyphs) is appended before the cubic-to-quadratic
    conversion, and unconditionally - a decomposition after the conversion would scale the conversion error by the
    component's transformation."""
    ix = prog.ix
    f = ix.get_method("ufo2ft.preProcessor.TTFPreProcessor", "initDefaultFilters", own=True)
    cfg = prog.cfg(f)

    def appended(name_pred):
        out = []
        for c in A.body_nodes(f.node):
            if isinstance(c, ast.Call) and isinstance(c.func, ast.Attribute) and c.func.attr in ("append", "insert", "extend") and c.args:
                a = c.args[-1]
                ctor = None
                if isinstance(a, ast.Call):
                    ctor = A.callee_name(a)
                elif isinstance(a, ast.Name):
                    ds = prog.reaching(f, a.id, a)
                    cs_ = {A.callee_name(d.value) for d in ds if d.value is not None and isinstance(d.value, ast.Call)}
                    ctor = next(iter(cs_)) if len(cs_) == 1 else None
                if ctor and name_pred(ctor):
                    out.append((c, ctor))
        return out
    decs = appended(lambda n_: n_.startswith("Decompose"))
    convs = appended(lambda n_: n_ in ("CubicToQuadraticFilter",))
    need(decs and convs, f"cannot interpret {f.short}: decomposition / conversion filters")
    for q, _n in convs:
        nq = cfg.node_of(q)
        before = [d for d, _ in decs if cfg.dominates(cfg.node_of(d), nq) and not [g for g in may_conds(prog, f, d) if not is_early_exit_guard(prog, f, g)]]
        after = [d for d, _ in decs if cfg.exists_path(nq, [cfg.node_of(d)])]
        chk.ob("R02.15", f"{f.short}|mixed glyphs are decomposed, unconditionally, before curves are converted; nothing is decomposed afterwards", bool(before) and not after, where(f, q),
               detail=f"{len(before)} decomposition filter(s) appended before the conversion, {len(after)} after",
               message=f"{f.short}: the cubic-to-quadratic conversion is not preceded by an unconditional decomposition of mixed glyphs (or a decomposition filter follows it): component outlines "
                       f"are converted at the base glyph's scale and copied through the component's transformation afterwards, so the error bound no longer holds for the composite")
    chk.minimum("R02.15", 1)


# ----------------------------------------------------------------------------- R02.16
OUTLINE_FIELDS = ("coordinates", "endPtsOfContours", "numberOfContours")
# flag bits the package sets on compiled glyphs / components; none of them moves a point
REVIEWED_FLAG_BITS = {"flagOverlapSimple": "glyf point flag: overlap hint for rasterisers", "USE_MY_METRICS": "component flag: metrics only",
                      "OVERLAP_COMPOUND": "component flag: overlap hint", "ROUND_XY_TO_GRID": "component flag: hinting of the offset"}


def _outline_writes(tree: ast.AST):
    """(node, what) for every write to an outline field of a compiled glyph under `tree`."""
    out = []

    def field_of(t):
        """the outline field an assignment target / mutated receiver denotes"""
        while isinstance(t, ast.Subscript):
            t = t.value
        if isinstance(t, ast.Attribute) and (t.attr in OUTLINE_FIELDS or t.attr == "flags"):
            return t.attr
        return None

    for n in ast.walk(tree):
        targets = []
        if isinstance(n, ast.Assign):
            targets = [(t, n.value, None) for t in n.targets]
        elif isinstance(n, ast.AnnAssign) and n.value is not None:
            targets = [(n.target, n.value, None)]
        elif isinstance(n, ast.AugAssign):
            targets = [(n.target, n.value, n.op)]
        elif isinstance(n, ast.Delete):
            targets = [(t, None, "del") for t in n.targets]
        for t, v, op in targets:
            for el in (t.elts if isinstance(t, (ast.Tuple, ast.List)) else [t]):
                fl = field_of(el)
                if fl is None:
                    continue
                if fl == "flags":
                    if op is None and isinstance(el, ast.Attribute) and isinstance(v, ast.Call) and A.callee_name(v) == "intListToNum":
                        continue  # head.flags: a table header bit list, not a glyph
                    if isinstance(op, (ast.BitOr, ast.BitAnd)):
                        quals = {id(x.value) for x in ast.walk(v) if isinstance(x, ast.Attribute)}  # `mod.FLAG`: the flag is the attribute
                        bits = {x.id for x in ast.walk(v) if isinstance(x, ast.Name) and id(x) not in quals} | {x.attr for x in ast.walk(v) if isinstance(x, ast.Attribute) and id(x) not in quals}
                        # the simple-glyph overlap hint lives in the flag of the first point only
                        first = not isinstance(el, ast.Subscript) or (isinstance(el.slice, ast.Constant) and el.slice.value == 0)
                        if bits and bits <= set(REVIEWED_FLAG_BITS) and not any(isinstance(x, ast.Constant) for x in ast.walk(v)) and first:
                            continue
                out.append((n, f"{T(el, 50)} written"))
        if isinstance(n, ast.Call) and isinstance(n.func, ast.Attribute):
            recv = n.func.value
            if isinstance(recv, ast.Attribute) and recv.attr in OUTLINE_FIELDS and n.func.attr in ("translate", "transform", "scale", "toInt", "append", "extend", "insert", "pop", "remove", "clear",
                                                                                                 "absoluteToRelative", "relativeToAbsolute", "__setitem__", "__delitem__", "sort", "reverse"):
                out.append((n, f"{T(n, 50)} edits the field in place"))
            if isinstance(recv, ast.Attribute) and recv.attr == "flags" and n.func.attr in ("append", "extend", "insert", "pop", "remove", "clear", "__setitem__", "__delitem__", "reverse"):
                out.append((n, f"{T(n, 50)} edits the point flags in place"))
        if isinstance(n, ast.Call) and isinstance(n.func, ast.Name) and n.func.id in ("setattr", "delattr") and len(n.args) >= 2 and isinstance(n.args[1], ast.Constant) \
                and n.args[1].value in OUTLINE_FIELDS + ("flags",):
            out.append((n, f"{T(n, 50)}"))
    return out


def r0216(prog, chk):
    """Who-may-write rule with an empty writer set: the glyf pen is the only producer of outline data.  A post-processing pass
    over the compiled glyph (dropping, merging or moving points) changes what is rendered without any of the conversion rules
    above seeing it."""
    # the detector must recognise the forms it is meant to exclude
    probe = ast.parse("g.coordinates = c\ng.flags = array('B', f)\ng.endPtsOfContours[0] = 3\ndel g.coordinates[1]\ng.coordinates.translate((1, 0))\ng.flags[0] |= 1\nsetattr(g, 'numberOfContours', 0)")
    need(len(_outline_writes(probe)) == 7, "R02.16 self-test: the detector does not recognise its positive examples")
    quiet = ast.parse("head.flags = intListToNum(x, 0, 16)\nc.flags |= USE_MY_METRICS\nc.flags &= ~ROUND_XY_TO_GRID\ng.flags[0] |= flagOverlapSimple\nn = g.numberOfContours\nself.flags = 1 if x else 2")
    need(len(_outline_writes(quiet)) == 1, "R02.16 self-test: the detector fires on the reviewed idioms")  # only the last line (an unrelated plain .flags store) fires
    n = 0
    for fi in prog.ix.functions.values():
        if isinstance(fi.node, ast.Lambda) or fi.parent is not None:
            continue
        n += 1
        for node, what in _outline_writes(fi.node):
            chk.ob("R02.16", f"{fi.short}|{A.keytext(fi.node, prog.ix.enclosing_stmt(node))}", False, where(fi, node), detail=what,
                   message=f"{fi.short}: {what} - the outline of a compiled TrueType glyph is edited after the pen built it (points dropped, moved or renumbered behind the "
                           f"conversion's back); the glyph no longer has to render the source shape")
    chk.ob("R02.16", "no package function writes the outline fields of a compiled glyph", True, "", detail=f"{n} functions scanned; reviewed flag bits: {sorted(REVIEWED_FLAG_BITS)}", nontrivial=False)
    need(n >= 300, f"R02.16 scanned only {n} functions")
    chk.minimum("R02.16", 1)


# ----------------------------------------------------------------------------- R02.18
def r0218(prog, chk):
    ix = prog.ix
    f = ix.get_method("ufo2ft.filters.reverseContourDirection.ReverseContourDirectionFilter", "filter", own=True)
    g = f.params()[1]

    def no_contours_test(c):
        """`not len(g)` / `len(g) == 0` / `not g` holding"""
        fs = atoms_of(c.test, c.polarity)
        return any((o == "falsy" and l in (f"len({g})", g)) or (o == "eq" and {l, r} == {f"len({g})", "0"}) for o, l, r in fs)
    rets = A.returns_of(f.node)
    early = [r for r in rets if not (isinstance(r.value, ast.Constant) and r.value.value is True)]
    ok_early = True
    for r in early:
        cs = [c for c in conds(prog, f, r) if c.polarity in (True, False)]
        ok_early = ok_early and len(cs) == 1 and no_contours_test(cs[0])
    chk.ob("R02.18", f"{f.short}|the only glyphs passed over are those without contours", ok_early and len(early) <= 1, where(f, early[0]) if early else where(f),
           detail="if not len(glyph): return False",
           message=f"{f.short} returns without reversing for glyphs that do have contours (`{T(ix.enclosing_stmt(early[-1]).test if early and isinstance(ix.enclosing_stmt(early[-1]), ast.If) else early[-1], 60) if early else ''}`): "
                   f"those glyphs keep the PostScript direction in a TrueType font while the others are reversed")
    pens = [c for c in A.body_nodes(f.node) if isinstance(c, ast.Call) and A.callee_name(c) == "ReverseContourPointPen"]
    draws = [c for c in calls_named(f, "drawPoints")]
    clears = [c for c in calls_named(f, "clearContours")]
    ok = len(pens) == 1 and len(draws) == 1 and len(clears) == 1 and T(pens[0].args[0]) == f"{g}.getPointPen()"
    if ok:
        loops = [a for a in ix.ancestors(draws[0]) if isinstance(a, ast.For)]
        ok = len(loops) == 1 and T(draws[0].func.value) in A.target_names(loops[0].target)
        if ok:
            # the loop runs over a copy of the contours taken before they are cleared, and nothing inside it is conditional
            okc, _ = every_origin(prog, f, loops[0].iter, lambda x, ff: isinstance(x, ast.Call) and A.callee_name(x) in ("list", "tuple") and len(x.args) == 1 and T(x.args[0]) == g, allow_const=False)
            cfg = prog.cfg(f)
            snap = [d for d in (prog.reaching(f, loops[0].iter.id, loops[0].iter) if isinstance(loops[0].iter, ast.Name) else [])]
            ok = okc and bool(snap) and all(cfg.dominates(cfg.node_of(d.binder), cfg.node_of(clears[0])) for d in snap) and cfg.dominates(cfg.node_of(clears[0]), cfg.node_of(loops[0])) \
                and not [c for c in may_conds(prog, f, draws[0]) if c.kind in ("if", "boolop", "ifexp", "while") and not is_early_exit_guard(prog, f, c)] \
                and not any(isinstance(x, (ast.Continue, ast.Break)) for x in ast.walk(loops[0]))
            pen_ok, _ = every_origin(prog, f, draws[0].args[0], lambda x, ff: x is pens[0], allow_const=False) if draws[0].args else (False, None)
            ok = ok and pen_ok
    chk.ob("R02.18", f"{f.short}|every contour is redrawn through the reversing pen", ok, where(f, draws[0]) if draws else where(f), detail="contours = list(glyph); glyph.clearContours(); for c in contours: c.drawPoints(ReverseContourPointPen(glyph.getPointPen()))",
           message=f"{f.short}: not every contour of the glyph is redrawn through ReverseContourPointPen")
    chk.minimum("R02.18", 2)


# ----------------------------------------------------------------------------- R02.19
def r0219(prog, chk):
    ix = prog.ix
    f = ix.get_method("ufo2ft.filters.sortContours.SortContoursFilter", "filter", own=True)
    g = f.params()[1]

    def all_contours(e):
        """an expression that enumerates every contour of the glyph once"""
        if T(e) in (g, f"{g}.contours", f"list({g})", f"tuple({g})", f"list({g}.contours)"):
            return True
        if isinstance(e, (ast.GeneratorExp, ast.ListComp)) and len(e.generators) == 1 and not e.generators[0].ifs and isinstance(e.generators[0].target, ast.Name) \
                and T(e.elt) == e.generators[0].target.id and T(e.generators[0].iter) in (g, f"{g}.contours"):
            return True
        return False

    def is_permutation(x, ff):
        return isinstance(x, ast.Call) and isinstance(x.func, ast.Name) and x.func.id == "sorted" and x.args and all_contours(x.args[0])
    puts = []  # expressions whose elements go back into the glyph
    for c in A.body_nodes(f.node):
        if isinstance(c, ast.Call) and isinstance(c.func, ast.Attribute) and c.func.attr == "extend" and T(c.func.value) == f"{g}.contours" and c.args:
            puts.append((c, c.args[0]))
        if isinstance(c, ast.Call) and isinstance(c.func, ast.Attribute) and c.func.attr == "appendContour" and T(c.func.value) == g and c.args:
            loops = [a for a in ix.ancestors(c) if isinstance(a, ast.For)]
            if loops and T(c.args[0]) in A.target_names(loops[0].target):
                puts.append((c, loops[0].iter))
    need(puts, f"cannot interpret {f.short}: contours put back into the glyph")
    for c, src in puts:
        ok, bad = every_origin(prog, f, src, is_permutation, allow_const=False)
        chk.ob("R02.19", f"{f.short}|{A.keytext(f.node, c)}|the contours put back are sorted(<every contour of the glyph>)", ok, where(f, c), detail=T(src, 60),
               message=f"{f.short}: the contours written back into the glyph are not a sorted copy of all its contours (they come from {bad}): contours can be dropped or duplicated "
                       f"(e.g. two contours with the same bounding box collapsing into one dictionary entry)")
    clears = calls_named(f, "clearContours")
    chk.ob("R02.19", f"{f.short}|contours are cleared once before they are put back", len(clears) == 1, where(f), detail="glyph.clearContours()", nontrivial=False,
           message=f"{f.short}: the glyph's contours are not cleared exactly once before the sorted ones are added")
    chk.minimum("R02.19", 2)


# ----------------------------------------------------------------------------- R02.21
_FRESH_CALLS = {"list", "dict", "set", "sorted", "tuple", "copy", "deepcopy", "frozenset"}
_INPLACE = {"append", "extend", "insert", "pop", "remove", "clear", "sort", "reverse", "update", "add", "discard", "setdefault", "popitem"}


def check_mutated_results_fresh(prog, chk, rule):
    """In the filters package, a helper whose result a caller rewrites in place hands out a fresh object on every
    path, and keeps no second reference to it (in a memo, on the context): otherwise the caller's rewrite - e.g. applying
    the parent component's transformation to the flattened list - silently changes what later calls get back."""
    ix = prog.ix
    n = 0
    for f in list(ix.functions.values()):
        if isinstance(f.node, ast.Lambda) or not f.module.name.startswith("ufo2ft.filters."):
            continue
        for st in A.stmts_of(f.node):
            if not (isinstance(st, ast.Assign) and len(st.targets) == 1 and isinstance(st.targets[0], ast.Name) and isinstance(st.value, ast.Call) and isinstance(st.value.func, ast.Name)):
                continue
            v = st.targets[0].id
            try:
                g = ix.get_func(f"{f.module.name}:{st.value.func.id}")
            except AnalysisError:
                continue
            muts = [x for x in ast.walk(f.node) if (isinstance(x, ast.Subscript) and isinstance(x.ctx, (ast.Store, ast.Del)) and isinstance(x.value, ast.Name) and x.value.id == v)
                    or (isinstance(x, ast.Call) and isinstance(x.func, ast.Attribute) and x.func.attr in _INPLACE and isinstance(x.func.value, ast.Name) and x.func.value.id == v)
                    or (isinstance(x, ast.AugAssign) and isinstance(x.target, ast.Name) and x.target.id == v)]
            if not muts:
                continue

            def fresh(x, ff):
                return isinstance(x, (ast.List, ast.ListComp, ast.Dict, ast.DictComp, ast.Set, ast.SetComp, ast.Tuple, ast.BinOp)) or (isinstance(x, ast.Call) and A.callee_name(x) in _FRESH_CALLS)
            bad = None
            rets = [r for r in A.returns_of(g.node) if r.value is not None]
            for r in rets:
                ok, _b = every_origin(prog, g, r.value, fresh, allow_const=False)
                if not ok:
                    bad = (r, f"`{T(r, 50)}` hands out an object that is not created for this call")
            # no second reference kept: a returned local is not stored into a container / attribute
            rnames = {r.value.id for r in rets if isinstance(r.value, ast.Name)}
            for x in A.stmts_of(g.node):
                if isinstance(x, ast.Assign) and isinstance(x.value, ast.Name) and x.value.id in rnames and any(isinstance(t, (ast.Subscript, ast.Attribute)) for t in x.targets):
                    bad = (x, f"`{T(x, 50)}` keeps a second reference to the returned object")
            for c in A.calls_in(g.node):
                if isinstance(c.func, ast.Attribute) and c.func.attr in ("setdefault", "append", "add", "__setitem__") and any(isinstance(a, ast.Name) and a.id in rnames for a in c.args) \
                        and not (isinstance(c.func.value, ast.Name) and c.func.value.id in rnames):
                    bad = (c, f"`{T(c, 50)}` keeps a second reference to the returned object")
            n += 1
            chk.ob(rule, f"{g.short}|result rewritten in place by {f.short}: fresh on every path, no second reference", bad is None, where(g, bad[0]) if bad else where(g), detail=f"{f.short}: `{T(muts[0], 50)}`",
                   message=f"{g.short}: {bad[1] if bad else ''}, while {f.short} rewrites the result in place (`{T(muts[0], 50)}`): the rewrite leaks into what later calls receive "
                           f"(a memoised flattening gets the parent's transformation applied once more for every reuse)")
    chk.minimum(rule, 1)


MUTANTS = [
    M("flattened component lists memoised and then rewritten in place by the caller (seeded C02n)", "ufo2ft/filters/flattenComponents.py", "_flattenComponent",
      "return all_flattened_components", "_MEMO[component.baseGlyph, tuple(component.transformation), id(glyphSet)] = all_flattened_components\nreturn all_flattened_components", rule="R02.21",
      also=(("ufo2ft/filters/flattenComponents.py", "_flattenComponent", "glyph = glyphSet[component.baseGlyph]", "glyph = glyphSet[component.baseGlyph]\nif (component.baseGlyph, tuple(component.transformation), id(glyphSet)) in _MEMO:\n    return _MEMO[component.baseGlyph, tuple(component.transformation), id(glyphSet)]"),
            ("ufo2ft/filters/flattenComponents.py", "", "<append-module>", "_MEMO = {}"))),
    M("contours keyed by their bounding box before sorting: equal boxes collapse (seeded C02k)", "ufo2ft/filters/sortContours.py", "SortContoursFilter.filter",
      "contours = sorted((c for c in glyph), key=lambda contour: _control_bounding_box(contour))",
      "boxes = {_control_bounding_box(contour): contour for contour in glyph}\ncontours = [boxes[box] for box in sorted(boxes)]", rule="R02.19"),
    M("clockwise glyphs are left as they are by the reversing filter (seeded C02j)", "ufo2ft/filters/reverseContourDirection.py", "ReverseContourDirectionFilter.filter",
      "pen = ReverseContourPointPen(glyph.getPointPen())", "if sum(len(c) for c in glyph) % 2:\n    return False\npen = ReverseContourPointPen(glyph.getPointPen())", rule="R02.18"),
    M("only closed contours are reversed", "ufo2ft/filters/reverseContourDirection.py", "ReverseContourDirectionFilter.filter",
      "contour.drawPoints(pen)", "if contour[0].segmentType != 'move':\n    contour.drawPoints(pen)\nelse:\n    contour.drawPoints(glyph.getPointPen())", rule="R02.18"),
    M("overlap hint set on the second point's flag (mutation scan 3, k=99)", "ufo2ft/instructionCompiler.py", "InstructionCompiler._set_simple_flags", "ttglyph.flags[0] |= flagOverlapSimple", "ttglyph.flags[1] |= flagOverlapSimple", rule="R02.16"),
    M("compiled glyph post-processed: duplicate points dropped (seeded C02i)", "ufo2ft/outlineCompiler.py", "OutlineTTFCompiler.compileGlyphs",
      "ttGlyphs[name] = ttGlyph", "if ttGlyph.numberOfContours > 0 and self.dropImpliedOnCurves:\n    ttGlyph.coordinates = ttGlyph.coordinates[:-1]\n    ttGlyph.flags = ttGlyph.flags[:-1]\n    ttGlyph.endPtsOfContours[-1] -= 1\nttGlyphs[name] = ttGlyph", rule="R02.16"),
    M("compiled coordinates shifted in place", "ufo2ft/outlineCompiler.py", "OutlineTTFCompiler.compileGlyphs",
      "ttGlyphs[name] = ttGlyph", "if ttGlyph.numberOfContours > 0:\n    ttGlyph.coordinates.toInt()\nttGlyphs[name] = ttGlyph", rule="R02.16"),
    M("mixed glyphs decomposed after the curve conversion (seeded C02f)", "ufo2ft/preProcessor.py", "TTFPreProcessor.initDefaultFilters",
      "filters.append(DecomposeComponentsFilter(include=lambda g: len(g)))\nif flattenComponents:\n    from ufo2ft.filters.flattenComponents import FlattenComponentsFilter\n    filters.append(FlattenComponentsFilter())",
      "if removeOverlaps:\n    filters.append(DecomposeComponentsFilter(include=lambda g: len(g)))\nif flattenComponents:\n    from ufo2ft.filters.flattenComponents import FlattenComponentsFilter\n    filters.append(FlattenComponentsFilter())", rule="R02.15"),
    M("custom .notdef copied without the flavour's contour direction (mutation scan run 2, k=196)", "ufo2ft/outlineCompiler.py", "BaseOutlineCompiler.makeMissingRequiredGlyphs",
      "_copyGlyph(notdefGlyph, reverseContour=reverseContour)", "_copyGlyph(notdefGlyph)", rule="R02.14"),
    M("already quadratic layers are still reversed (seeded C02e shape)", "ufo2ft/filters/cubicToQuadratic.py", "CubicToQuadraticFilter.filter",
      "contours = list(glyph)", "if glyph.lib.get('already'):\n    pen = ReverseContourPointPen(glyph.getPointPen())\ncontours = list(glyph)", rule="R02.2"),
    M("quadratic marker no longer stops the filter", "ufo2ft/filters/cubicToQuadratic.py", "CubicToQuadraticFilter.__call__",
      "logger.info('Curves already converted to quadratic')\nreturn set()", "logger.info('Curves already converted to quadratic')", rule="R02.2"),
    M("one tolerance for all masters from the first master's UPM (seeded C02b)", "ufo2ft/preProcessor.py", "TTFInterpolatablePreProcessor.__init__",
      "self._conversionErrors = [(conversionError or DEFAULT_MAX_ERR) * getAttrWithFallback(ufo.info, 'unitsPerEm') for ufo in self.ufos]",
      "self._conversionErrors = (conversionError or DEFAULT_MAX_ERR) * getAttrWithFallback(self.ufos[0].info, 'unitsPerEm')", rule="R02.3"),
    M("composition moved into a helper with a wrong only-shifted fast path (seeded C02a)", "ufo2ft/filters/flattenComponents.py", "_flattenComponent",
      "flat_tr = Transform(*component.transformation)\nflat_tr = flat_tr.translate(tr.dx, tr.dy)\nflat_tr = flat_tr.transform((tr.xx, tr.xy, tr.yx, tr.yy, 0, 0))",
      "flat_tr = _shiftOnly(Transform(*component.transformation), tr)", rule="R02.10"),
    M("nested offset added instead of mapped through the outer 2x2 (hand-built Transform)", "ufo2ft/filters/flattenComponents.py", "_flattenComponent",
      "flat_tr = flat_tr.translate(tr.dx, tr.dy)", "flat_tr = Transform(flat_tr.xx, flat_tr.xy, flat_tr.yx, flat_tr.yy, flat_tr.dx + tr.dx, flat_tr.dy + tr.dy)", rule="R02.10"),
    M("nested offset axes swapped", "ufo2ft/filters/flattenComponents.py", "_flattenComponent",
      "flat_tr.translate(tr.dx, tr.dy)", "flat_tr.translate(tr.dy, tr.dx)", rule="R02.10"),
    M("nested 2x2 transposed", "ufo2ft/filters/flattenComponents.py", "_flattenComponent",
      "(tr.xx, tr.xy, tr.yx, tr.yy, 0, 0)", "(tr.xx, tr.yx, tr.xy, tr.yy, 0, 0)", rule="R02.10"),
    M("composition starts from the nested component instead of the outer one", "ufo2ft/filters/flattenComponents.py", "_flattenComponent",
      "flat_tr = Transform(*component.transformation)", "flat_tr = Transform(*nested.transformation)", rule="R02.10"),
    M("2x2 applied before the offset", "ufo2ft/filters/flattenComponents.py", "_flattenComponent",
      "flat_tr = flat_tr.translate(tr.dx, tr.dy)\nflat_tr = flat_tr.transform((tr.xx, tr.xy, tr.yx, tr.yy, 0, 0))",
      "flat_tr = flat_tr.transform((tr.xx, tr.xy, tr.yx, tr.yy, 0, 0))\nflat_tr = flat_tr.translate(tr.dx, tr.dy)", rule="R02.10"),
    M("nested offset dropped", "ufo2ft/filters/flattenComponents.py", "_flattenComponent",
      "flat_tr = flat_tr.translate(tr.dx, tr.dy)", "pass", rule="R02.10"),
    M("composition written as one transform() call", "ufo2ft/filters/flattenComponents.py", "_flattenComponent",
      "flat_tr = flat_tr.translate(tr.dx, tr.dy)\nflat_tr = flat_tr.transform((tr.xx, tr.xy, tr.yx, tr.yy, 0, 0))",
      "flat_tr = flat_tr.transform(tr)", kind="equiv"),
    M("composition written as a single chained expression", "ufo2ft/filters/flattenComponents.py", "_flattenComponent",
      "flat_tr = flat_tr.translate(tr.dx, tr.dy)\nflat_tr = flat_tr.transform((tr.xx, tr.xy, tr.yx, tr.yy, 0, 0))",
      "flat_tr = flat_tr.translate(tr.dx, tr.dy).transform((tr.xx, tr.xy, tr.yx, tr.yy, 0, 0))", kind="equiv"),
    M("mixed glyphs decomposed only when flattening", "ufo2ft/preProcessor.py", "TTFPreProcessor.initDefaultFilters",
      "filters.append(DecomposeComponentsFilter(include=lambda g: len(g)))\nif flattenComponents:\n    from ufo2ft.filters.flattenComponents import FlattenComponentsFilter\n    filters.append(FlattenComponentsFilter())",
      "if flattenComponents:\n    from ufo2ft.filters.flattenComponents import FlattenComponentsFilter\n    filters.append(DecomposeComponentsFilter(include=lambda g: len(g)))\n    filters.append(FlattenComponentsFilter())",
      rule="R02.1"),
    M("mixed-glyph predicate tests components instead of contours", "ufo2ft/preProcessor.py", "TTFPreProcessor.initDefaultFilters",
      "DecomposeComponentsFilter(include=lambda g: len(g))", "DecomposeComponentsFilter(include=lambda g: len(g.components))", rule="R02.1"),
    M("overlap removal applied unconditionally", "ufo2ft/preProcessor.py", "TTFPreProcessor.initDefaultFilters",
      "if removeOverlaps:\n    from ufo2ft.filters.removeOverlaps import RemoveOverlapsFilter\n    if overlapsBackend is not None:\n        filters.append(RemoveOverlapsFilter(backend=overlapsBackend))\n    else:\n        filters.append(RemoveOverlapsFilter())",
      "from ufo2ft.filters.removeOverlaps import RemoveOverlapsFilter\nif overlapsBackend is not None:\n    filters.append(RemoveOverlapsFilter(backend=overlapsBackend))\nelse:\n    filters.append(RemoveOverlapsFilter())", rule="R02.1"),
    M("interpolatable path reverses although curves are converted", "ufo2ft/preProcessor.py", "TTFInterpolatablePreProcessor.process",
      "self._run(ReverseContourDirectionFilter(include=lambda g: len(g)))", "pass", rule="R02.1"),
    M("interpolatable path flattens regardless of the option", "ufo2ft/preProcessor.py", "TTFInterpolatablePreProcessor.process",
      "if self.flattenComponents:\n    from ufo2ft.filters.flattenComponents import FlattenComponentsIFilter\n    self._run(FlattenComponentsIFilter(include=lambda g: len(g.components)))",
      "from ufo2ft.filters.flattenComponents import FlattenComponentsIFilter\nself._run(FlattenComponentsIFilter(include=lambda g: len(g.components)))", rule="R02.1"),
    M("cu2qu filter gets a swapped option", "ufo2ft/preProcessor.py", "TTFPreProcessor.initDefaultFilters",
      "CubicToQuadraticFilter(conversionError=conversionError, reverseDirection=reverseDirection, rememberCurveType=rememberCurveType and self.inplace, allQuadratic=allQuadratic)",
      "CubicToQuadraticFilter(conversionError=conversionError, reverseDirection=allQuadratic, rememberCurveType=rememberCurveType and self.inplace, allQuadratic=reverseDirection)", rule="R02.2"),
    M("joint conversion ignores allQuadratic", "ufo2ft/preProcessor.py", "TTFInterpolatablePreProcessor.process",
      "self.allQuadratic", "True", rule="R02.2"),
    M("cu2qu pen always reverses", "ufo2ft/filters/cubicToQuadratic.py", "CubicToQuadraticFilter.filter",
      "self.options.reverseDirection", "True", rule="R02.2"),
    M("UPM factor dropped from the absolute error", "ufo2ft/filters/cubicToQuadratic.py", "CubicToQuadraticFilter.set_context",
      "relativeError * getAttrWithFallback(font.info, 'unitsPerEm')", "relativeError * 1000", rule="R02.3"),
    M("interpolatable error uses the first master's UPM", "ufo2ft/preProcessor.py", "TTFInterpolatablePreProcessor.__init__",
      "getAttrWithFallback(ufo.info, 'unitsPerEm')", "getAttrWithFallback(ufos[0].info, 'unitsPerEm')", rule="R02.3"),
    M("cubic-in-glyf0 guard only warns", "ufo2ft/outlineCompiler.py", "OutlineTTFCompiler.compileGlyphs",
      "raise ValueError(f'{name!r} has cubic Bezier curves, but glyphDataFormat=0; either convert to quadratic (convertCubics=True) or use allQuadratic=False so that glyphDataFormat=1.')",
      "logger.warning('%r has cubic curves', name)", rule="R02.4"),
    M("cubic guard no longer looks at the curve flags", "ufo2ft/outlineCompiler.py", "OutlineTTFCompiler.compileGlyphs",
      "glyphDataFormat == 0 and ttGlyph.numberOfContours > 0 and any((f & flagCubic for f in ttGlyph.flags))",
      "glyphDataFormat == 0 and ttGlyph.numberOfContours > 0 and False", rule="R02.4"),
    M("cubic guard checks the wrong format", "ufo2ft/outlineCompiler.py", "OutlineTTFCompiler.compileGlyphs",
      "glyphDataFormat == 0", "glyphDataFormat == 1", rule="R02.4"),
    M("glyf format no longer follows allQuadratic", "ufo2ft/_compilers/ttfCompiler.py", "TTFCompiler.compileOutlines",
      "0 if self.allQuadratic else 1", "0", rule="R02.5"),
    M("cycle check removed", "ufo2ft/util.py", "getMaxComponentDepth",
      "raise InvalidFontData(f\"cyclical component reference: {' -> '.join(rec_stack)} => {component.baseGlyph}\")", "pass", rule="R02.6"),
    M("glyf assembled in glyph order", "ufo2ft/outlineCompiler.py", "OutlineTTFCompiler.setupTable_glyf",
      "sorted(self.glyphOrder, key=lambda n: maxComponentDepths.get(n, 0))", "self.glyphOrder", rule="R02.7"),
    M("coordinates rounded with builtin round", "ufo2ft/outlineCompiler.py", "OutlineTTFCompiler.compileGlyphs",
      "otRound if self.roundCoordinates else noRound", "__builtins__['round'] if self.roundCoordinates else noRound", rule="R02.8"),
    M("pre-processor parameter renamed", "ufo2ft/preProcessor.py", "TTFPreProcessor.initDefaultFilters",
      "<rename-param>", "flattenComponents->flatten", rule="R02"),
    # equivalents
    M("decision written with nested ifs", "ufo2ft/preProcessor.py", "TTFInterpolatablePreProcessor.process",
      "self._run(ReverseContourDirectionFilter(include=lambda g: len(g)))", "rcd = ReverseContourDirectionFilter(include=lambda g: len(g))\nself._run(rcd)", kind="equiv"),
    M("error formula without the intermediate local", "ufo2ft/filters/cubicToQuadratic.py", "CubicToQuadraticFilter.set_context",
      "relativeError = self.options.conversionError or DEFAULT_MAX_ERR\nctx.absoluteError = relativeError * getAttrWithFallback(font.info, 'unitsPerEm')",
      "ctx.absoluteError = (self.options.conversionError or DEFAULT_MAX_ERR) * getAttrWithFallback(font.info, 'unitsPerEm')", kind="equiv"),
]
