"""C07 - compiling never modifies the caller's sources unless inplace is requested.

Whole-package ownership / effect analysis (vt.core.own) on the `inplace = False`
specialisation, plus the linked obligations its assumptions rest on."""

from __future__ import annotations

import ast
import json
from typing import Dict, List, Tuple

from ..core import astutil as A
from ..core.index import AnalysisError
from ..core.own import Ownership
from ..core.report import load_known
from ..selftest import M
from .common import (BASE_FILTER, BASE_IFILTER, T, calls_named, conds, entry_funcs, every_origin, facts, key, need, where)

ASSUME_NOT_NONE = [
    ("ufo2ft.filters.base:BaseFilter.__call__", "glyphSet"),
    ("ufo2ft.filters.base:BaseIFilter.__call__", "glyphSets"),
    ("ufo2ft.filters.dottedCircle:DottedCircleFilter.__call__", "glyphSet"),
]
# calls through values: which class hierarchy's __call__ is meant (reviewed)
VALUE_CALLS = {
    "BasePreProcessor.process": (BASE_FILTER, BASE_IFILTER),
    "BaseInterpolatablePreProcessor._run": (BASE_FILTER, BASE_IFILTER),
    "BaseInterpolatablePreProcessor._run_interpolatable": (BASE_IFILTER, None),
}
# statements whose right-hand side is an *output* object although it is read through
# `.font` of a designspace copy (compiled TTFonts parked in source.font)
EXEMPT_FRESH = {
    ("BaseInterpolatableCompiler._compileNeededSources", "$1[$2.name].font = $2.font"):
        "ttfSource.font is the TTFont compile_designspace just produced (source.font of the *result* document), not a UFO",
    ("BaseInterpolatableCompiler._compileNeededSources", "$1 = getDefaultMasterFont($2)"):
        "default master of the compiled designspace is a TTFont produced by this call",
    ("BaseIFilter.ensureCompositeDefinedAtComponentLocations", "$1[$2] = $3[$2]"):
        "guarded by `assert glyphName not in glyphSet`: the layer has no such glyph, so InterpolatedLayer interpolates a new one "
        "(linked obligation R07.7 checks the assertion dominates the store)",
}
EXEMPT_FRESH[("Instantiator.from_designspace", "$1.append(($2, {$3.name: $3 for $3 in $4}))")] = (
    "the instantiator's source layers are replaced by the pre-processor's glyph copies before any filter runs "
    "(linked obligation R07.7: BaseInterpolatablePreProcessor.__init__ calls _update_instantiator() right after building "
    "the glyph sets, before any _run)")
# an exemption limited to some elements of the inserted tuple: the layer dict (index 1) is replaced by glyph copies, the source's
# location dict (index 0) is the caller's own object and stays tracked
# (not used for the instantiator's (location, layer) tuples: the engine keeps one abstract element per container, so limiting the
#  exemption to the layer would taint the layer through the location; the locations are covered by R07.8 instead)
EXEMPT_FRESH_ELEMS = {}
# write events that are only reachable under an option which a linked obligation ties to inplace
EXEMPT_WRITES = {
    ("CubicToQuadraticFilter.__call__", "$1[CURVE_TYPE_LIB_KEY] = 'quadratic'"):
        "only under options.rememberCurveType, which every construction in the package passes as `... and self.inplace` (R07.5)",
}
TAG_RETURNS = {"ufo2ft.util:_GlyphSet.from_layer": "GS"}
SCALAR_COPY_ATTRS = {"width", "height", "name", "unicode", "verticalOrigin"}


def build(prog, seeds=None, roots=None, extra_assume=(), cut=None):
    known = load_known().get("known", [])
    if cut is None:
        cut = set()
        for k in known:
            if k.get("cut") and k["property"] in ("C07",):
                parts = k["key"].split("|")
                if len(parts) >= 3:
                    cut.add((parts[1], parts[2]))
    roots = roots or entry_funcs(prog)
    if seeds is None:
        seeds = {f.qname: {f.params()[0]: "deep"} for f in roots}
        # objects the caller hands in through options are the caller's too: the explicit .notdef glyph
        for f in prog.ix.functions.values():
            if f.name == "__init__" and f.module.name == "ufo2ft.outlineCompiler" and "notdefGlyph" in f.params():
                seeds.setdefault(f.qname, {})["notdefGlyph"] = "deep"
    o = Ownership(prog, seeds, assume_not_none=list(ASSUME_NOT_NONE) + list(extra_assume), value_calls=VALUE_CALLS,
                  exempt_fresh={k: EXEMPT_FRESH_ELEMS.get(k) for k in EXEMPT_FRESH}, tag_returns=TAG_RETURNS, cut=cut, assume_attr_not_none=("compiler",))
    o.run(roots)
    return o


def run(prog, chk):
    chk.decided += [
        "in the inplace=False specialisation of the whole package no attribute/subscript store, deletion, mutator call or pen acquisition has a receiver that can be reached from the ufo / ufos / designSpaceDoc argument of a compile function (R07.1)",
        "no borrowed object is inserted into a working glyph set (R07.6)",
        "pre-processors build their glyph sets with copy=<true when not inplace> (R07.2)",
        "glyph / layer copies are complete: every mutable field of the copy is a fresh constructor or deepcopy of the source field (R07.3)",
        "compile_variable rebinds the document to deepcopyExceptFonts() before anything writes to it (R07.4)",
        "rememberCurveType is only ever passed as a conjunction with inplace (R07.5)",
        "nothing writes into a designspace source's location dictionary (the instantiator shares them with the caller's document) (R07.8)",
        "what getAttrWithFallback returns is the font info's own object: it is never modified in place (R07.9, shared with C16)",
        "assumptions of the analysis are themselves checked: filters are always called with a glyph set; reviewed exemptions still match the code (R07.7)",
    ]
    chk.not_decided += ["mutation inside third-party callees other than the listed ones", "equality of values (only writes are tracked)"]
    chk.assumptions += [
        "object fields are flow-insensitive (except self.<attr> assigned earlier in the same function) and keyed by (class family, attribute name)",
        "two-level abstraction (object / everything below it); attributes named like scalars (name, width, x, ...) are immutable",
        "third-party callees do not mutate their arguments except fonts_to_quadratic & co.; pens obtained from a glyph count as a write to it",
        "unresolved callees return fresh objects; the count of such calls is reported",
    ]
    o = build(prog)
    chk.extra["ownership_stats"] = dict(o.stats)
    chk.extra["write_events_examined"] = len(o.writes)
    viol = o.violations()
    vkeys = set()
    for w, chain in viol:
        k = (w.fi.short, A.keytext(w.fi.node, w.node))
        if k in EXEMPT_WRITES and not w.kind.startswith("escape"):
            chk.exempt("R07.1", f"{k[0]}|{k[1]}", EXEMPT_WRITES[k])
            continue
        rule = "R07.6" if w.kind.startswith("escape") else "R07.1"
        inst = f"{w.fi.short}|{A.keytext(w.fi.node, w.node)}"
        if (rule, inst) in vkeys:
            continue
        vkeys.add((rule, inst))
        what = ("a borrowed object is inserted into the working glyph set (later filters will mutate it)" if rule == "R07.6"
                else f"{w.kind} through `{w.recv_text}` which can be the caller's object")
        chk.ob(rule, inst, False, where(w.fi, w.node), message=f"{what}; borrowed via " + " -> ".join(chain[-5:]), chain=chain)
    # every examined write event is an obligation (holds)
    seen = set()
    for w in o.writes:
        rule = "R07.6" if w.kind.startswith("escape") else "R07.1"
        inst = f"{w.fi.short}|{A.keytext(w.fi.node, w.node)}"
        if (rule, inst) in vkeys or (rule, inst) in seen:
            continue
        seen.add((rule, inst))
        chk.ob(rule, inst, True, where(w.fi, w.node), detail=f"{w.kind}: receiver `{w.recv_text}` is owned", nontrivial=bool(w.recv.own))
    chk.minimum("R07.1", 300)
    for k, why in EXEMPT_FRESH.items():
        if k in o.used_exempt:
            chk.exempt("R07.1", f"{k[0]}|{k[1]}", why)
    chk.guard(r072, prog, chk)
    chk.guard(r073, prog, chk)
    chk.guard(r074, prog, chk, o, vkeys)
    chk.guard(r075, prog, chk)
    chk.guard(r077, prog, chk, o)
    chk.guard(r078, prog, chk)
    from .c16 import r167
    chk.guard(r167, prog, chk, "R07.9")
    from .c08 import check_glyph_copy_complete
    chk.guard(check_glyph_copy_complete, prog, chk, "R07.10")


# ----------------------------------------------------------------------------- R07.2
def fold_inplace(e: ast.AST):
    """Value of e when every `inplace` name/attribute is False; None if unknown."""
    if isinstance(e, ast.Constant):
        return e.value
    if isinstance(e, ast.Name) and e.id == "inplace":
        return False
    if isinstance(e, ast.Attribute) and e.attr == "inplace":
        return False
    if isinstance(e, ast.UnaryOp) and isinstance(e.op, ast.Not):
        v = fold_inplace(e.operand)
        return None if v is None else (not v)
    if isinstance(e, ast.BoolOp):
        vals = [fold_inplace(v) for v in e.values]
        if isinstance(e.op, ast.And):
            if any(v is False for v in vals):
                return False
            if all(v is True for v in vals):
                return True
        else:
            if any(v is True for v in vals):
                return True
            if all(v is False for v in vals):
                return False
    return None


def r072(prog, chk):
    n = 0
    for fi in prog.ix.functions.values():
        if not fi.module.name == "ufo2ft.preProcessor":
            continue
        for c in calls_named(fi, "from_layer"):
            n += 1
            cp = A.kwarg(c, "copy")
            ok = cp is not None and fold_inplace(cp) is True and any(isinstance(x, (ast.Name, ast.Attribute)) and getattr(x, "id", getattr(x, "attr", "")) == "inplace" for x in ast.walk(cp))
            chk.ob("R07.2", key(fi, c), ok, where(fi, c), detail=f"copy={T(cp) if cp is not None else None} is true when inplace is false",
                   message="a pre-processor builds its glyph set from the caller's live glyphs although inplace was not requested")
    need(n >= 2, "from_layer calls in the pre-processors not found")
    chk.minimum("R07.2", 2)


# ----------------------------------------------------------------------------- R07.3
def _fresh(e: ast.AST) -> bool:
    if isinstance(e, (ast.List, ast.Dict, ast.Set, ast.Tuple)):
        return all(_fresh(x) or isinstance(x, ast.Constant) for x in (e.elts if not isinstance(e, ast.Dict) else e.values))
    if isinstance(e, (ast.ListComp, ast.SetComp, ast.GeneratorExp)):
        return _fresh(e.elt) or isinstance(e.elt, ast.Constant)
    if isinstance(e, ast.DictComp):
        return _fresh(e.value)
    if isinstance(e, ast.Call):
        n = A.callee_name(e)
        if n in ("deepcopy",):
            return True
        if n in ("list", "dict", "tuple", "set") and isinstance(e.func, ast.Name):
            return True  # one-level copy of a flat container (unicodes, an anchor mapping)
    return False


def r073(prog, chk):
    ix = prog.ix
    cg = ix.get_func("ufo2ft.util:_copyGlyph")
    src = cg.params()[0]
    rets = {T(r.value) for r in A.returns_of(cg.node) if r.value is not None}
    need(len(rets) == 1, f"cannot interpret {cg.short}")
    cp = rets.pop()
    n = 0
    for st in A.stmts_of(cg.node):
        if isinstance(st, ast.Assign) and len(st.targets) == 1 and isinstance(st.targets[0], ast.Attribute) \
                and T(st.targets[0].value) == cp:
            attr = st.targets[0].attr
            reads_src = any(isinstance(x, ast.Name) and x.id == src for x in ast.walk(st.value))
            if not reads_src:
                continue
            n += 1
            if attr in SCALAR_COPY_ATTRS and isinstance(st.value, ast.Attribute):
                chk.ob("R07.3", key(cg, st), True, where(cg, st), detail="scalar field", nontrivial=False)
                continue
            chk.ob("R07.3", key(cg, st), _fresh(st.value), where(cg, st), detail=f"copy.{attr} is a fresh copy of the source field",
                   message=f"_copyGlyph aliases the source glyph's `{attr}`: filters working on the copy will modify the caller's glyph")
    # outlines are re-drawn, not shared
    draws = [c for c in calls_named(cg, "drawPoints", "draw") if T(c.func.value) == src]
    chk.ob("R07.3", key(cg, "outline re-drawn into the copy"), bool(draws), where(cg), detail="source.drawPoints(<pen of the copy>)",
           message="_copyGlyph no longer re-draws the outline into the copy")
    need(n >= 4, f"cannot interpret {cg.short}: field copies not found")
    # layer copy: every glyph goes through _copyGlyph, lib is deep-copied
    cl = ix.get_func("ufo2ft.util:_copyLayer")
    stores = [st for st in A.stmts_of(cl.node) if isinstance(st, ast.Assign) and isinstance(st.targets[0], ast.Subscript)]
    need(stores, f"cannot interpret {cl.short}")
    for st in stores:
        ok = isinstance(st.value, ast.Call) and prog.is_call_to(cl, st.value, "ufo2ft.util._copyGlyph")
        chk.ob("R07.3", key(cl, st), ok, where(cl, st), detail="layer copy stores _copyGlyph(glyph)",
               message="_copyLayer puts the source glyph itself (not a copy) into the new glyph set")
    fl = ix.get_method("ufo2ft.util._GlyphSet", "from_layer", own=True)
    for st in A.stmts_of(fl.node):
        if isinstance(st, ast.Assign) and isinstance(st.targets[0], ast.Attribute) and st.targets[0].attr == "lib":
            fs = facts(prog, fl, st)
            under_copy = any(o == "truthy" and l == "copy" for o, l, r in fs)
            if under_copy:
                chk.ob("R07.3", key(fl, st), _fresh(st.value), where(fl, st), detail="layer lib deep-copied when copy=True",
                       message="from_layer(copy=True) shares the layer lib with the source layer")
    for st in A.stmts_of(fl.node):
        if isinstance(st, ast.Assign) and isinstance(st.value, ast.Call) and A.callee_name(st.value) == "_copyLayer":
            fs = facts(prog, fl, st)
            chk.ob("R07.3", key(fl, st), any(o == "truthy" and l == "copy" for o, l, r in fs), where(fl, st), detail="copy=True -> _copyLayer",
                   message="from_layer no longer copies the layer under copy=True")
    chk.minimum("R07.3", 7)


# ----------------------------------------------------------------------------- R07.4
DS_FUNCS = ("BaseInterpolatableCompiler._compileNeededSources", "BaseInterpolatableCompiler._post_compile_designspace",
            "ensure_all_sources_have_names", "BaseInterpolatableCompiler.compile_all_variable_features")


def r074(prog, chk, o, violated):
    """Designspace handling, as decided by the engine: every write in the functions
    that rename sources / replace source.font has an owned receiver (the document
    is the deepcopyExceptFonts() copy whenever inplace is false)."""
    n = 0
    for w in o.writes:
        if w.fi.short in DS_FUNCS and w.kind in ("store", "setattr", "del"):
            inst = f"{w.fi.short}|{A.keytext(w.fi.node, w.node)}"
            bad = ("R07.1", inst) in violated
            n += 1
            chk.ob("R07.4", inst, not bad, where(w.fi, w.node), detail=f"`{w.recv_text}` is part of the copied document",
                   message="the caller's DesignSpaceDocument is written although inplace was not requested (also reported as R07.1)")
    need(n >= 4, "designspace write sites not found")
    chk.minimum("R07.4", 4)


# ----------------------------------------------------------------------------- R07.5
def r075(prog, chk):
    n = 0
    for fi in prog.ix.functions.values():
        for c in A.body_nodes(fi.node):
            if not isinstance(c, ast.Call):
                continue
            for kwn in ("rememberCurveType", "remember_curve_type"):
                v = A.kwarg(c, kwn)
                if v is None:
                    continue
                n += 1
                ok = fold_inplace(v) is False
                chk.ob("R07.5", key(fi, f"{A.callee_name(c)}({kwn}={T(v)})"), ok, where(fi, c),
                       detail="value is false whenever inplace is false",
                       message=f"{kwn} can be true without inplace: the curve-type marker is then written into the caller's font / layer lib")
    need(n >= 2, "rememberCurveType call sites not found")
    # default of the option in the filter itself is False
    cq = prog.ix.get_class("ufo2ft.filters.cubicToQuadratic.CubicToQuadraticFilter")
    kw = prog.ix.const_eval(cq.module, cq.attrs["_kwargs"], cq)
    chk.ob("R07.5", "CubicToQuadraticFilter._kwargs['rememberCurveType'] default", kw.get("rememberCurveType") is False, cq.module.relpath,
           detail="stand-alone construction does not remember", message="CubicToQuadraticFilter remembers the curve type by default")
    chk.minimum("R07.5", 3)


# ----------------------------------------------------------------------------- R07.7
def r077(prog, chk, o):
    ix = prog.ix
    # (a) filters are always invoked with a glyph set inside the package
    sites = []
    for fshort, (base, excl) in VALUE_CALLS.items():
        fi = next((f for f in ix.functions.values() if f.short == fshort), None)
        need(fi is not None, f"anchor function vanished: {fshort}")
        cs = [c for c in A.body_nodes(fi.node) if isinstance(c, ast.Call) and isinstance(c.func, ast.Name)
              and prog.resolve_callee(fi, c.func)[1] == "unresolved" and c.func.id in A.local_names(fi.node)]
        need(cs, f"call through a local value not found in {fshort}")
        sites += [(fi, c) for c in cs]
        chk.ob("R07.7", f"{fshort}|dispatch table entry used", fshort in o.used_value_calls, where(fi),
               detail=f"calls through values resolved to {base.rsplit('.', 1)[1]}.__call__ implementations",
               message=f"reviewed dispatch entry for {fshort} no longer matches a call", nontrivial=False)
    fl = ix.get_method("ufo2ft.util._GlyphSet", "from_layer", own=True)
    sites += [(fl, c) for c in A.body_nodes(fl.node) if isinstance(c, ast.Call) and isinstance(c.func, ast.Call)]
    for fi, c in sites:
        ok = len(c.args) >= 2 and not (isinstance(c.args[1], ast.Constant) and c.args[1].value is None)
        chk.ob("R07.7", f"{fi.short}|{A.keytext(fi.node, c)}", ok, where(fi, c), detail="filter is called with an explicit glyph set (the in-place branch `glyphSet is None` is unreachable from compile*)",
               message="a filter is invoked without a glyph set: it then works in place on the font's own glyphs")
    # (a') feature writers always run inside a compiler (their stand-alone branch works on the live font)
    nw = 0
    for fi in ix.functions.values():
        if not fi.module.name.startswith("ufo2ft.featureCompiler") and not fi.module.name.startswith("ufo2ft._compilers"):
            continue
        for c in calls_named(fi, "write"):
            if len(c.args) + len(c.keywords) < 2 or not any("feature" in T(a).lower() or "fea" in T(a).lower() for a in c.args):
                continue
            nw += 1
            kw = A.kwarg(c, "compiler")
            chk.ob("R07.7", f"{fi.short}|{A.keytext(fi.node, c)}", kw is not None and T(kw) == "self", where(fi, c),
                   detail="writer.write(..., compiler=self): the writers' `compiler is None` branches are unreachable from compile*",
                   message="a feature writer is run without the compiler: it then builds its glyph set from the live font and decomposes skipped components in place")
    need(nw >= 2, "feature writer invocations not found")
    # (a'') the instantiator works on the glyph copies before any filter can fetch glyphs through it
    ib = ix.get_method("ufo2ft.preProcessor.BaseInterpolatablePreProcessor", "__init__", own=True)
    icfg = prog.cfg(ib)
    upd = [c for c in calls_named(ib, "_update_instantiator") if T(c.func.value) == "self"]
    gsets = [st for st in A.stmts_of(ib.node) if isinstance(st, ast.Assign) and any(isinstance(t, ast.Attribute) and t.attr == "glyphSets" for t in st.targets)]
    runs = [c for c in calls_named(ib, "_run", "_run_interpolatable", "process")]
    ok = bool(upd) and bool(gsets) and all(icfg.dominates(icfg.node_of(g), icfg.node_of(upd[0])) for g in gsets) \
        and all(icfg.dominates(icfg.node_of(upd[0]), icfg.node_of(r)) for r in runs) \
        and not any(icfg.exists_path(icfg.entry, [x], avoid=[icfg.node_of(upd[0])]) for x in icfg.normal_exit_preds() if x != icfg.node_of(upd[0]))
    ui = ix.get_method("ufo2ft.preProcessor.BaseInterpolatablePreProcessor", "_update_instantiator", own=True)
    rep = [c for c in calls_named(ui, "replace_source_layers")]
    ok2 = bool(rep) and all(c.args and T(c.args[0]) == "self.glyphSets" for c in rep)
    chk.ob("R07.7", f"{ib.short}|instantiator switched to the glyph copies before any filter runs", ok and ok2, where(ib),
           detail="self._update_instantiator() (= instantiator.replace_source_layers(self.glyphSets)) follows the glyph-set construction unconditionally and precedes every _run",
           message="the Instantiator still serves the caller's own glyph objects (its source layers come from the source fonts) when the "
                   "first filter runs: a filter that modifies glyphs fetched through InterpolatedLayer (PropagateAnchors) writes to the sources")
    # (b) the interpolated-glyph exemption rests on the assertion
    en = ix.get_method(BASE_IFILTER, "ensureCompositeDefinedAtComponentLocations", own=True)
    cfg = prog.cfg(en)
    stores = [st for st in A.stmts_of(en.node) if isinstance(st, ast.Assign) and isinstance(st.targets[0], ast.Subscript)]
    asserts = [a for a in A.stmts_of(en.node) if isinstance(a, ast.Assert)]
    for st in stores:
        t = st.targets[0]
        ok = False
        for a in asserts:
            p = A.compare_parts(a.test)
            if p and isinstance(p[1], ast.NotIn) and T(p[0]) == T(t.slice) and T(p[2]) == T(t.value) and cfg.dominates(cfg.node_of(a), cfg.node_of(st)):
                ok = True
        ok = ok and isinstance(st.value, ast.Subscript) and T(st.value.slice) == T(t.slice)
        chk.ob("R07.7", f"{en.short}|{A.keytext(en.node, st)}", ok, where(en, st), detail="`assert name not in glyphSet` dominates the insertion of the interpolated glyph",
               message="a glyph taken from an InterpolatedLayer is inserted into a glyph set without the absence assertion: it may be the live source glyph")
    for k in EXEMPT_FRESH:
        chk.ob("R07.7", f"exemption still matches|{k[0]}|{k[1]}", k in o.used_exempt, "", detail="reviewed exemption is in use",
               message=f"reviewed exemption no longer matches any statement ({k[0]}: {k[1]}); re-review required", nontrivial=False)
    chk.minimum("R07.7", 8)



# ----------------------------------------------------------------------------- R07.8
LOCATION_MUTATORS = {"setdefault", "update", "pop", "popitem", "clear", "__setitem__", "__delitem__"}


def r078(prog, chk):
    """The location dictionaries of the caller's designspace sources are stored by reference in the instantiator
    (source_layers holds (source.location, layer) pairs; the pair's layer is exempted above, its location is not copied):
    nothing in the package writes to a source location - neither through `<x>.location` / `.designLocation` nor through a
    name unpacked from an element of source_layers."""
    ix = prog.ix
    n = 0
    for fi in ix.functions.values():
        if isinstance(fi.node, ast.Lambda):
            continue
        loc_names = set()
        for node in A.body_nodes(fi.node):
            it, tgt = None, None
            if isinstance(node, ast.For):
                it, tgt = node.iter, node.target
            elif isinstance(node, ast.comprehension):
                it, tgt = node.iter, node.target
            if it is None or "source_layers" not in T(it):
                continue
            t_ = tgt
            if isinstance(t_, ast.Tuple) and len(t_.elts) == 2 and isinstance(t_.elts[1], ast.Tuple) and "enumerate" in T(it):
                t_ = t_.elts[1]
            if isinstance(t_, ast.Tuple) and t_.elts and isinstance(t_.elts[0], ast.Name):
                loc_names.add(t_.elts[0].id)

        def is_location(e):
            return (isinstance(e, ast.Attribute) and e.attr in ("location", "designLocation") and not (isinstance(e.value, ast.Name) and e.value.id == "self")) \
                or (isinstance(e, ast.Name) and e.id in loc_names)
        for node in A.body_nodes(fi.node):
            bad = None
            if isinstance(node, ast.Call) and isinstance(node.func, ast.Attribute) and node.func.attr in LOCATION_MUTATORS and is_location(node.func.value):
                bad = node
            elif isinstance(node, (ast.Assign, ast.AugAssign, ast.Delete)):
                ts_ = node.targets if isinstance(node, (ast.Assign, ast.Delete)) else [node.target]
                if any(isinstance(t, ast.Subscript) and is_location(t.value) for t in ts_):
                    bad = node
            if bad is not None:
                n += 1
                # writes to the document copy made by compile_variable are the package's own business (R07.4)
                chk.ob("R07.8", f"{fi.short}|{A.keytext(fi.node, bad)}|source locations are never written", False, where(fi, bad), detail=T(bad, 70),
                       message=f"{fi.short}: `{T(bad, 60)}` writes into a designspace source's location dictionary, which the instantiator shares with the caller's document "
                               f"(inplace=False does not copy it)")
    fd = ix.get_method("ufo2ft.instantiator.Instantiator", "from_designspace", own=True)
    shared = [c for c in A.body_nodes(fd.node) if isinstance(c, ast.Call) and A.callee_name(c) == "append" and "source_layers" in T(c.func.value)]
    chk.ob("R07.8", f"{fd.short}|source locations are shared, not copied (this is why nobody may write them)", bool(shared), where(fd), detail=f"{n} write(s) found", nontrivial=False)
    chk.minimum("R07.8", 1)


MUTANTS = [
    M("source locations completed in place with the axis defaults (seeded C07g)", "ufo2ft/instantiator.py", "Instantiator.__post_init__",
      "default_source_idx = i\nbreak", "location.setdefault('wght', 0)\ndefault_source_idx = i\nbreak", rule="R07.8"),
    M("glyph copy shares lib with the source", "ufo2ft/util.py", "_copyGlyph", "copy.lib = deepcopy(glyph.lib)", "copy.lib = glyph.lib", rule="R07"),
    M("glyph copy shares the unicodes list", "ufo2ft/util.py", "_copyGlyph", "copy.unicodes = list(glyph.unicodes)", "copy.unicodes = glyph.unicodes", rule="R07"),
    M("glyph copy shares anchor objects", "ufo2ft/util.py", "_copyGlyph", "copy.anchors = [dict(a) for a in glyph.anchors]", "copy.anchors = list(glyph.anchors)", rule="R07"),
    M("layer copy shares the layer lib", "ufo2ft/util.py", "_GlyphSet.from_layer", "self.lib = deepcopy(layer.lib)", "self.lib = layer.lib", rule="R07"),
    M("pre-processor never copies", "ufo2ft/preProcessor.py", "BasePreProcessor.__init__",
      "_GlyphSet.from_layer(ufo, layerName, copy=not inplace, skipExportGlyphs=skipExportGlyphs)",
      "_GlyphSet.from_layer(ufo, layerName, skipExportGlyphs=skipExportGlyphs)", rule="R07"),
    M("interpolatable pre-processor copies only when inplace", "ufo2ft/preProcessor.py", "BaseInterpolatablePreProcessor.__init__",
      "_GlyphSet.from_layer(ufo, layerName, copy=not inplace)", "_GlyphSet.from_layer(ufo, layerName, copy=inplace)", rule="R07"),
    M("outline compiler caches a value in the font lib", "ufo2ft/outlineCompiler.py", "BaseOutlineCompiler.compile",
      "self.meta = OPENTYPE_META_KEY in self.ufo.lib", "self.meta = OPENTYPE_META_KEY in self.ufo.lib\nself.ufo.lib.setdefault('com.github.googlei18n.ufo2ft.compiled', True)", rule="R07.1"),
    M("table builder normalises info in place", "ufo2ft/outlineCompiler.py", "BaseOutlineCompiler.setupTable_OS2",
      "selection = list(getAttrWithFallback(font.info, 'openTypeOS2Selection'))", "selection = getAttrWithFallback(font.info, 'openTypeOS2Selection')", rule="R07.1"),
    M("kern writer prunes the UFO's groups in place", "ufo2ft/featureWriters/kernFeatureWriter.py", "KernFeatureWriter.getKerningGroups",
      "if not members:\n    continue", "if not members:\n    del font.groups[name]\n    continue", rule="R07.1"),
    M("notdef fallback marks the default master's .notdef", "ufo2ft/util.py", "_notdefGlyphFallback",
      "notdefGlyph = _getNewGlyphFactory(notdefGlyph)('.notdef')", "pass", rule="R07.1"),
    M("designspace document not copied", "ufo2ft/_compilers/baseCompiler.py", "BaseInterpolatableCompiler.compile_variable",
      "if not self.inplace:\n    designSpaceDoc = designSpaceDoc.deepcopyExceptFonts()", "pass", rule="R07"),
    M("compiled fonts parked in the caller's document", "ufo2ft/_compilers/baseCompiler.py", "BaseInterpolatableCompiler._post_compile_designspace",
      "if self.inplace:\n    result = designSpaceDoc\nelse:\n    result = designSpaceDoc.deepcopyExceptFonts()", "result = designSpaceDoc", rule="R07"),
    M("rememberCurveType honoured without inplace", "ufo2ft/preProcessor.py", "TTFPreProcessor.initDefaultFilters",
      "rememberCurveType and self.inplace", "rememberCurveType", rule="R07.5"),
    M("cu2qu remembers without inplace (interpolatable)", "ufo2ft/preProcessor.py", "TTFInterpolatablePreProcessor.process",
      "self._rememberCurveType and self.inplace", "self._rememberCurveType", rule="R07.5"),
    M("instruction compiler stamps glyph lib", "ufo2ft/instructionCompiler.py", "InstructionCompiler.compileGlyphInstructions",
      "glyph = self.ufo[name]", "glyph = self.ufo[name]\nglyph.lib['com.github.googlei18n.ufo2ft.hinted'] = True", rule="R07.1"),
    M("default-layer filter applied to the font's live glyphs", "ufo2ft/util.py", "_GlyphSet.from_layer",
      "SkipExportGlyphsFilter(skipExportGlyphs)(font, self)", "SkipExportGlyphsFilter(skipExportGlyphs)(font)", rule="R07"),
    M("instantiator keeps serving the source glyphs until the first modification", "ufo2ft/preProcessor.py", "BaseInterpolatablePreProcessor.__init__",
      "self._update_instantiator()", "pass", rule="R07.7"),
    M("interpolated glyph inserted without the absence assertion", "ufo2ft/filters/base.py", "BaseIFilter.ensureCompositeDefinedAtComponentLocations",
      "assert glyphName not in glyphSet", "pass", rule="R07.7"),
    # equivalents
    M("copy flag computed into a local first", "ufo2ft/preProcessor.py", "BasePreProcessor.__init__",
      "self.glyphSet = _GlyphSet.from_layer(ufo, layerName, copy=not inplace, skipExportGlyphs=skipExportGlyphs)",
      "self.glyphSet = _GlyphSet.from_layer(ufo, layerName, copy=not inplace, skipExportGlyphs=skipExportGlyphs)\nself._n = len(self.glyphSet)", kind="equiv"),
    M("document copy through a conditional expression", "ufo2ft/_compilers/baseCompiler.py", "BaseInterpolatableCompiler._post_compile_designspace",
      "if self.inplace:\n    result = designSpaceDoc\nelse:\n    result = designSpaceDoc.deepcopyExceptFonts()",
      "result = designSpaceDoc if self.inplace else designSpaceDoc.deepcopyExceptFonts()", kind="equiv"),
    M("outline compiler reads the lib through a local alias", "ufo2ft/outlineCompiler.py", "BaseOutlineCompiler.compile",
      "self.meta = OPENTYPE_META_KEY in self.ufo.lib", "lib = self.ufo.lib\nself.meta = OPENTYPE_META_KEY in lib", kind="equiv"),
    M("working glyph set receives a freshly made glyph", "ufo2ft/outlineCompiler.py", "BaseOutlineCompiler.makeMissingRequiredGlyphs",
      "glyphSet['.notdef'] = notdefGlyph", "fresh = notdefGlyph\nglyphSet['.notdef'] = fresh", kind="equiv"),
]
